namespace Sp2
def M : Nat := 0x5BD1E995
def mask32 (x : Nat) : Nat := x &&& 0xFFFFFFFF
theorem mask32_eq (x : Nat) : mask32 x = x % 2^32 := by
  unfold mask32
  have : (0xFFFFFFFF : Nat) = 2^32 - 1 := by decide
  rw [this, Nat.and_two_pow_sub_one_eq_mod]

theorem mask_mul (a : BitVec 32) : mask32 (a.toNat * M) = (a * BitVec.ofNat 32 M).toNat := by
  rw [mask32_eq, BitVec.toNat_mul]; simp [M]

theorem mask_xor_shr (a : BitVec 32) (r : Nat) :
    mask32 (a.toNat ^^^ ((a.toNat % 0x100000000) >>> r)) = (a ^^^ (a >>> r)).toNat := by
  rw [mask32_eq, BitVec.toNat_xor, BitVec.toNat_ushiftRight]
  have h : a.toNat % 0x100000000 = a.toNat := Nat.mod_eq_of_lt (by have := a.isLt; omega)
  rw [h]
  apply Nat.mod_eq_of_lt
  apply Nat.xor_lt_two_pow a.isLt
  exact Nat.lt_of_le_of_lt (Nat.shiftRight_le _ _) a.isLt

theorem mask_xor (a b : BitVec 32) : mask32 (a.toNat ^^^ b.toNat) = (a ^^^ b).toNat := by
  rw [mask32_eq, BitVec.toNat_xor]
  exact Nat.mod_eq_of_lt (Nat.xor_lt_two_pow a.isLt b.isLt)
end Sp2
