import asyncio, struct, gzip
from aiokafka.producer.message_accumulator import BatchBuilder, MessageBatch
from aiokafka.structs import TopicPartition
from aiokafka.record.memory_records import MemoryRecords
from aiokafka.record.default_records import DefaultRecordBatchBuilder
from aiokafka.record.legacy_records import LegacyRecordBatchBuilder

async def main():
    # C02: done() timestamp carry
    bb = BatchBuilder(16384, 0)
    mb = MessageBatch(TopicPartition("t",0), bb, 100, 0)
    f1 = mb.append(b"k", b"v1", 1000); f2 = mb.append(b"k", b"v2", 2000); f3 = mb.append(b"k", b"v3", 3000)
    mb.done(100, -1, 0)
    print("C02 done():", [ (f.result().offset, f.result().timestamp) for f in (f1,f2,f3)])
    # C09: mixed magic buffer through the (cython) MemoryRecords
    b2 = DefaultRecordBatchBuilder(2,0,0,-1,-1,0,10000); b2.append(0, 5, b"k2", b"v2", [])
    b1 = LegacyRecordBatchBuilder(1,0,10000); b1.append(0, 7, b"k1", b"v1")
    for name, buf in (("v1+v2", bytes(b1.build())+bytes(b2.build())),):
        mr = MemoryRecords(buf)
        out=[]
        try:
            while mr.has_next():
                b = mr.next_batch()
                out.append((type(b).__name__, [(r.offset, r.key, r.value) for r in b]))
        except Exception as e:
            out.append(("EXC", repr(e)))
        print("C09 mixed", name, type(mr).__module__, out)
asyncio.run(main())
