/-! spike: C10 style — every buffer access goes through `rd`; out-of-bounds is an explicit fault.
    Two variants of the same reader (as the code is / with the planned guard) + witness + theorem. -/
namespace Oob
abbrev Buf := List Nat

inductive R (α : Type) where
  | ok (a : α) | corrupt | oob
deriving Repr, DecidableEq

def R.bind {α β} : R α → (α → R β) → R β
  | .ok a, f => f a
  | .corrupt, _ => .corrupt
  | .oob, _ => .oob
instance : Monad R where pure := .ok; bind := R.bind

/-- read one byte at `pos` -/
def rd (b : Buf) (pos : Nat) : R Nat :=
  match b[pos]? with
  | some x => .ok x
  | none => .oob

/-- `cutil.decode_varint64` as written: no bound, stops at a byte without continuation bit, at most 10 -/
def varintRaw (b : Buf) : Nat → Nat → Nat → Nat → R (Nat × Nat)   -- fuel pos shift acc
  | 0, _, _, _ => .corrupt                      -- "Out of double range"
  | fuel+1, pos, shift, acc => do
    let x ← rd b pos
    if x ≥ 128 then varintRaw b fuel (pos+1) (shift+7) (acc + (x % 128) * 2^shift)
    else pure (acc + x * 2^shift, pos+1)

/-- `_check_bounds(pos, 1)` then the raw varint: what `_read_msg` does today -/
def varintAsIs (b : Buf) (pos : Nat) : R (Nat × Nat) :=
  if pos + 1 > b.length then .corrupt else varintRaw b 10 pos 0 0

/-- planned repair: the loop itself checks the bound before every byte -/
def varintFixed (b : Buf) : Nat → Nat → Nat → Nat → R (Nat × Nat)
  | 0, _, _, _ => .corrupt
  | fuel+1, pos, shift, acc =>
    if pos ≥ b.length then .corrupt else do
      let x ← rd b pos
      if x ≥ 128 then varintFixed b fuel (pos+1) (shift+7) (acc + (x % 128) * 2^shift)
      else pure (acc + x * 2^shift, pos+1)

/-- witness: a buffer ending in a continuation byte makes today's reader read past the end -/
theorem varint_asis_oob_witness : varintAsIs [0x80] 0 = .oob := by decide

theorem rd_ok_of_lt (b : Buf) (pos : Nat) (h : pos < b.length) : ∃ x, rd b pos = .ok x := by
  unfold rd
  rw [List.getElem?_eq_getElem h]
  exact ⟨_, rfl⟩

/-- theorem for the repaired variant: for EVERY buffer, position, fuel: never out of bounds -/
theorem varint_fixed_no_oob (b : Buf) : ∀ fuel pos shift acc, varintFixed b fuel pos shift acc ≠ .oob := by
  intro fuel
  induction fuel with
  | zero => intro pos shift acc; simp [varintFixed]
  | succ n ih =>
    intro pos shift acc
    unfold varintFixed
    split
    · simp
    · rename_i h
      obtain ⟨x, hx⟩ := rd_ok_of_lt b pos (by omega)
      simp only [bind, hx, R.bind]
      split
      · exact ih _ _ _
      · simp [pure]

/-- header: today 61 bytes are read unconditionally; a 26-byte slice is enough to get here -/
def headerAsIs (b : Buf) : R Nat := do
  let _ ← rd b 0; let _ ← rd b 16; let x ← rd b 60; pure x      -- first, magic, last byte of RecordCount
def headerFixed (b : Buf) : R Nat :=
  if b.length < 61 then .corrupt else headerAsIs b

theorem header_asis_oob_witness : headerAsIs (List.replicate 26 0) = .oob := by decide
theorem header_fixed_no_oob (b : Buf) : headerFixed b ≠ .oob := by
  unfold headerFixed
  split
  · simp
  · rename_i h
    obtain ⟨x0, h0⟩ := rd_ok_of_lt b 0 (by omega)
    obtain ⟨x1, h1⟩ := rd_ok_of_lt b 16 (by omega)
    obtain ⟨x2, h2⟩ := rd_ok_of_lt b 60 (by omega)
    simp [headerAsIs, bind, R.bind, h0, h1, h2, pure]
#print axioms varint_fixed_no_oob
#print axioms header_asis_oob_witness
end Oob
