/-! spike: the slices of RangePartitionAssignor tile [0,n) -/
namespace Rg
def start (ppc extra i : Nat) : Nat := ppc * i + min i extra
def len (ppc extra i : Nat) : Nat := ppc + (if i + 1 > extra then 0 else 1)   -- `if not i + 1 > extra: length += 1`

theorem tile (ppc extra i : Nat) : start ppc extra (i+1) = start ppc extra i + len ppc extra i := by
  unfold start len
  rw [Nat.mul_succ]
  split <;> omega

theorem total (n m : Nat) (hm : 0 < m) : start (n / m) (n % m) m = n := by
  unfold start
  have h1 : n % m < m := Nat.mod_lt n hm
  have h2 : min m (n % m) = n % m := by omega
  rw [h2]
  exact Nat.div_add_mod' n m

theorem len_balanced (ppc extra i j : Nat) : len ppc extra i ≤ len ppc extra j + 1 := by
  unfold len; split <;> split <;> omega

/-- every index below n lies in exactly one slice -/
theorem cover (n m : Nat) (hm : 0 < m) (p : Nat) (hp : p < n) :
    ∃ i, i < m ∧ start (n/m) (n%m) i ≤ p ∧ p < start (n/m) (n%m) (i+1) := by
  -- the starts are monotone from 0 to n, so some slice contains p
  have h0 : start (n/m) (n%m) 0 = 0 := by simp [start]
  have hN := total n m hm
  -- induct on k: if p < start k then a slice below k contains p
  have key : ∀ k, k ≤ m → p < start (n/m) (n%m) k →
      ∃ i, i < k ∧ start (n/m) (n%m) i ≤ p ∧ p < start (n/m) (n%m) (i+1) := by
    intro k
    induction k with
    | zero => intro _ h; rw [h0] at h; omega
    | succ k ih =>
      intro hk h
      by_cases hlt : p < start (n/m) (n%m) k
      · obtain ⟨i, hi, h1, h2⟩ := ih (by omega) hlt
        exact ⟨i, by omega, h1, h2⟩
      · exact ⟨k, by omega, by omega, h⟩
  obtain ⟨i, hi, h1, h2⟩ := key m (Nat.le_refl m) (by rw [hN]; exact hp)
  exact ⟨i, hi, h1, h2⟩
#print axioms cover
end Rg
