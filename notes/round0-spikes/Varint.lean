/-! spike: base-128 varint + zig-zag round trip -/
namespace Vi
def encU (v : Nat) : List Nat :=
  if h : v < 128 then [v] else (v % 128 + 128) :: encU (v / 128)
termination_by v
decreasing_by omega

def decU : List Nat → Option (Nat × List Nat)
  | [] => none
  | b :: rest =>
    if b < 128 then some (b, rest)
    else match decU rest with
      | none => none
      | some (x, r) => some (b - 128 + 128 * x, r)

theorem decU_encU (v : Nat) (rest : List Nat) : decU (encU v ++ rest) = some (v, rest) := by
  induction v using Nat.strongRecOn with
  | _ v ih =>
    rw [encU]
    split
    · rename_i h; simp [decU, h]
    · rename_i h
      have hlt : v / 128 < v := by omega
      have hb : ¬ (v % 128 + 128 < 128) := by omega
      simp only [List.cons_append, decU, hb, ↓reduceIte, ih (v / 128) hlt]
      congr 2
      omega

def zig (i : Int) : Nat := if 0 ≤ i then (2 * i).toNat else (-2 * i - 1).toNat
def unzig (n : Nat) : Int := if n % 2 = 0 then (n / 2 : Nat) else -(((n + 1) / 2 : Nat) : Int)

theorem unzig_zig (i : Int) : unzig (zig i) = i := by
  unfold zig unzig
  split <;> split <;> omega

theorem varint_roundtrip (i : Int) (rest : List Nat) :
    (decU (encU (zig i) ++ rest)).map (fun p => (unzig p.1, p.2)) = some (i, rest) := by
  simp [decU_encU, unzig_zig]

/-- length of the encoding = the `size_of_varint` ladder (1 byte ≤ 0x7f, 2 bytes ≤ 0x3fff, …) -/
theorem encU_length_1 (v : Nat) (h : v ≤ 0x7f) : (encU v).length = 1 := by
  rw [encU]; simp [show v < 128 by omega]
theorem encU_length_2 (v : Nat) (h1 : 0x7f < v) (h2 : v ≤ 0x3fff) : (encU v).length = 2 := by
  rw [encU]; simp [show ¬ v < 128 by omega]; exact encU_length_1 _ (by omega)
#print axioms varint_roundtrip
end Vi
