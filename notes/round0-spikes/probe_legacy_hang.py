import struct, gzip, zlib, signal, sys
from aiokafka.record.legacy_records import _LegacyRecordBatchPy, LegacyRecordBatch
def v1msg(offset, length, magic=1, attrs=0, ts=0, key=None, value=b"v"):
    body = struct.pack(">bbq", magic, attrs, ts) + (struct.pack(">i",-1) if key is None else struct.pack(">i",len(key))+key) + struct.pack(">i", len(value)) + value
    crc = zlib.crc32(body) & 0xffffffff
    msg = struct.pack(">I", crc) + body
    return struct.pack(">qi", offset, len(msg) if length is None else length) + msg
inner = v1msg(0, -12)          # inner message claims length -12 -> pos never advances
wrapper = v1msg(5, None, attrs=1, value=gzip.compress(inner))
def alarm(*a): raise TimeoutError("HANG")
signal.signal(signal.SIGALRM, alarm)
for cls in ([_LegacyRecordBatchPy, LegacyRecordBatch][int(sys.argv[1])],):
    signal.alarm(3)
    try:
        b = cls(wrapper, 1)
        print(cls.__name__, [ (r.offset, r.value) for r in b])
    except BaseException as e:
        print(cls.__name__, "->", type(e).__name__, e)
    signal.alarm(0)
