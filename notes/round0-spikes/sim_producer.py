import asyncio, struct, io, heapq, time, sys
from aiokafka.protocol.api import Request, RequestStruct
import aiokafka.protocol.admin, aiokafka.protocol.metadata, aiokafka.protocol.produce, aiokafka.protocol.fetch
import aiokafka.protocol.offset, aiokafka.protocol.commit, aiokafka.protocol.group, aiokafka.protocol.coordination, aiokafka.protocol.transaction
from aiokafka.protocol.types import Int16, Int32, String
from aiokafka.record.memory_records import MemoryRecords

def all_subclasses(c):
    for s in c.__subclasses__():
        yield s
        yield from all_subclasses(s)
REQ = {}
for c in all_subclasses(RequestStruct):
    REQ[(c.API_KEY, c.API_VERSION)] = c

class VLoop(asyncio.SelectorEventLoop):
    def __init__(self):
        super().__init__()
        self._vt = 0.0
        self.conns = []
    def time(self):
        return self._vt
    def _run_once(self):
        # jump clock if nothing ready
        if not self._ready and self._scheduled:
            while self._scheduled and self._scheduled[0]._cancelled:
                h = heapq.heappop(self._scheduled); h._scheduled = False
            if self._scheduled:
                when = self._scheduled[0]._when
                if when > self._vt:
                    self._vt = when
        super()._run_once()
    async def create_connection(self, protocol_factory, host=None, port=None, **kw):
        proto = protocol_factory()
        tr = FakeTransport(self, proto, host, port)
        self.call_soon(proto.connection_made, tr)
        await asyncio.sleep(0)
        return tr, proto

class FakeTransport(asyncio.Transport):
    def __init__(self, loop, proto, host, port):
        super().__init__()
        self.loop, self.proto, self.host, self.port = loop, proto, host, port
        self.closing = False
        self.buf = b""
        self.broker = BROKER
    def write(self, data):
        self.buf += bytes(data)
        while len(self.buf) >= 4:
            (n,) = struct.unpack(">i", self.buf[:4])
            if len(self.buf) < 4 + n: break
            frame, self.buf = self.buf[4:4+n], self.buf[4+n:]
            self.loop.call_later(0.001, self.broker.handle, self, frame)
    def is_closing(self): return self.closing
    def close(self):
        if not self.closing:
            self.closing = True
            self.loop.call_soon(self.proto.connection_lost, None)
    def abort(self): self.close()
    def get_extra_info(self, name, default=None): return default
    def reply(self, data):
        if not self.closing:
            self.proto.data_received(struct.pack(">i", len(data)) + data)

class Broker:
    def __init__(self):
        self.log = {}
    def handle(self, tr, frame):
        b = io.BytesIO(frame)
        api_key = Int16.decode(b); ver = Int16.decode(b); corr = Int32.decode(b); cid = String("utf-8").decode(b)
        cls = REQ[(api_key, ver)]
        req = cls.decode(b)
        R = cls.RESPONSE_TYPE
        if api_key == 18:
            resp = R(error_code=0, api_versions=[(0,0,7),(1,0,11),(2,0,3),(3,0,5),(8,0,3),(9,0,3),(10,0,1),(11,0,5),(12,0,1),(13,0,1),(14,0,3),(18,0,2),(22,0,0),(24,0,0),(25,0,0),(26,0,0),(28,0,0)], throttle_time_ms=0) if ver>=1 else R(error_code=0, api_versions=[(0,0,7),(3,0,5),(18,0,0)])
        elif api_key == 3:
            resp = R(throttle_time_ms=0, brokers=[(0,"b0",9092,None)], cluster_id="c", controller_id=0,
                     topics=[(0,"t",False,[(0,0,0,[0],[0],[])])])
        elif api_key == 0:
            out=[]
            for topic, parts in req.topics:
                po=[]
                for p, data in parts:
                    lg = self.log.setdefault((topic,p), [])
                    base = len(lg)
                    mr = MemoryRecords(bytes(data))
                    while mr.has_next():
                        batch = mr.next_batch()
                        for r in batch: lg.append((r.key, r.value))
                    po.append((p,0,base,-1,0))
                out.append((topic,po))
            resp = R(topics=out, throttle_time_ms=0)
        else:
            raise RuntimeError(api_key)
        tr.reply(Int32.encode(corr) + resp.encode())

BROKER = Broker()

async def main():
    from aiokafka import AIOKafkaProducer
    p = AIOKafkaProducer(bootstrap_servers="b0:9092")
    await p.start()
    t0=time.perf_counter()
    for i in range(2000):
        md = await p.send_and_wait("t", b"v%d"%i, partition=0)
    print("last md", md, "wall", time.perf_counter()-t0, "vt", asyncio.get_event_loop().time())
    await p.stop()
    print(len(BROKER.log[("t",0)]), BROKER.log[("t",0)][:3])

loop = VLoop()
asyncio.set_event_loop(loop)
loop.run_until_complete(main())
