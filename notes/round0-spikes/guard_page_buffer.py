import mmap, ctypes, sys, struct
libc = ctypes.CDLL(None, use_errno=True)
PAGE = mmap.PAGESIZE
m = mmap.mmap(-1, 2*PAGE)
addr = ctypes.addressof(ctypes.c_char.from_buffer(m))
assert libc.mprotect(ctypes.c_void_p(addr + PAGE), ctypes.c_size_t(PAGE), 0) == 0
def guarded(data: bytes):
    n = len(data); m[PAGE-n:PAGE] = data
    return memoryview(m)[PAGE-n:PAGE]
from aiokafka.record._crecords.default_records import DefaultRecordBatch
from aiokafka.record.default_records import DefaultRecordBatchBuilder
b = DefaultRecordBatchBuilder(2,0,0,-1,-1,0,1000); b.append(0,1,b"k",b"v",[]); good = bytes(b.build())
mode = sys.argv[1]
if mode == "good":
    batch = DefaultRecordBatch(guarded(good)); print("good:", [(r.offset, r.key, r.value) for r in batch])
elif mode == "short":
    short = struct.pack(">qiib", 0, 14, 0, 2) + b"\x00"*9
    batch = DefaultRecordBatch(guarded(short)); print("short header accepted, num_records", batch.num_records)
elif mode == "varint":
    bad = good[:-1]                   # truncate the last byte of the only record
    bad = bad[:8] + struct.pack(">i", len(bad)-12) + bad[12:]
    batch = DefaultRecordBatch(guarded(bad))
    try: print([(r.offset, r.key, r.value) for r in batch])
    except Exception as e: print("exc", type(e).__name__, e)
