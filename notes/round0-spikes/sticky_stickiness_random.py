import itertools, random, sys, logging
logging.disable(logging.CRITICAL)
exec(open('st.py').read().split("topics = [")[0])
random.seed(1)
topics = ["a","b","c","d"]
viol = {}
def check(tag, cond, info):
    if not cond: viol.setdefault(tag, info)
N=0
for trial in range(6000):
    nt = random.randint(1,4); ts = topics[:nt]
    parts = {t: random.randint(1,6) for t in ts}
    nm = random.randint(1,6)
    ident = random.random() < 0.7
    if ident: subs = {f"m{i}": set(ts) for i in range(nm)}
    else: subs = {f"m{i}": set(random.sample(ts, random.randint(1,nt))) for i in range(nm)}
    a1 = run(S, parts, subs)
    # (a) identical second round
    a2 = run(S, parts, subs, prev=a1)
    check("a-unchanged", {m:set(v) for m,v in a1.items()} == {m:set(v) for m,v in a2.items()}, (parts, subs, a1, a2)); N+=1
    if ident and nm >= 2:
        # (b) remove a non-empty proper subset
        k = random.randint(1, nm-1); gone = set(random.sample(sorted(subs), k))
        subs_b = {m:s for m,s in subs.items() if m not in gone}
        prev_b = {m:v for m,v in a1.items() if m not in gone}
        ab = run(S, parts, subs_b, prev=prev_b)
        for m in subs_b:
            check("b-survivor-keeps", set(a1[m]) <= set(ab[m]), (parts, sorted(subs), sorted(gone), a1, ab)); N+=1
        v = valid(parts, subs_b, ab); check("b-valid", v is None, (v,)); kk = kip54(parts, subs_b, ab); check("b-kip54", kk is None, (parts, a1, ab, kk))
    if ident:
        # (c) add 1..2 members
        add = random.randint(1,2)
        subs_c = dict(subs); 
        for j in range(add): subs_c[f"n{j}" if random.random()<0.5 else f"A{j}"] = set(ts)
        ac = run(S, parts, subs_c, prev=a1)
        for m in subs:
            check("c-old-gains-nothing", set(ac[m]) <= set(a1[m]), (parts, sorted(subs), sorted(subs_c), a1, ac)); N+=1
        v = valid(parts, subs_c, ac); check("c-valid", v is None, (v,)); kk = kip54(parts, subs_c, ac); check("c-kip54", kk is None, (parts, a1, ac, kk))
print("checks", N)
for k,v in viol.items(): print(k, v)
