/-! spike: acceptor + invariant template for C01 (one partition, idempotent producer, retriable faults) -/
namespace Idem

/-- number of records of batch i (≥ 1) and its base sequence = sum of the earlier counts -/
structure Cfg where
  cnt : Nat → Nat
  pos : ∀ i, 0 < cnt i

def seqOf (c : Cfg) : Nat → Nat
  | 0 => 0
  | i+1 => seqOf c i + c.cnt i

theorem seqOf_lt (c : Cfg) (i : Nat) : seqOf c i < seqOf c (i+1) := by
  have := c.pos i; simp [seqOf]; omega

inductive Ev where
  | send (i : Nat) (seq : Nat)     -- ProduceRequest with batch i, base sequence seq, put on the wire
  | apply                          -- broker processes the outstanding request
  | reply                          -- client receives the (success/duplicate) reply
  | lose                           -- client sees drop / timeout / retriable error; the request is dead
deriving Repr

structure St where
  next : Nat := 0                  -- batches < next were sent at least once
  acked : Nat := 0                 -- batches < acked are acknowledged
  inflight : Option (Nat × Bool) := none   -- (batch, already applied by the broker?)
  log : List Nat := []             -- broker log (batch ids)
  expected : Nat := 0              -- broker: next expected base sequence
  outOfOrder : Bool := false       -- broker ever answered OUT_OF_ORDER_SEQUENCE

/-- the acceptor: guards are the client mechanisms R1–R5 and the broker rule -/
def step (c : Cfg) (s : St) : Ev → Option St
  | .send i q =>
    if s.inflight.isNone ∧ i = s.acked ∧ q = seqOf c i then       -- single flight, oldest unacked first, seq rule
      some { s with inflight := some (i, false), next := max s.next (i+1) }
    else none
  | .apply =>
    match s.inflight with
    | some (i, false) =>
      let q := seqOf c i
      if q = s.expected then
        some { s with inflight := some (i, true), log := s.log ++ [i], expected := s.expected + c.cnt i }
      else if q < s.expected then
        some { s with inflight := some (i, true) }                 -- duplicate: cached offset returned
      else
        some { s with inflight := some (i, true), outOfOrder := true }
    | _ => none
  | .reply =>
    match s.inflight with
    | some (i, true) => some { s with inflight := none, acked := i + 1 }
    | _ => none
  | .lose =>
    match s.inflight with
    | some _ => some { s with inflight := none }
    | none => none

def run (c : Cfg) : St → List Ev → Option St
  | s, [] => some s
  | s, e :: es => (step c s e).bind (run c · es)

structure Inv (c : Cfg) (s : St) : Prop where
  log_range : s.log = List.range s.log.length
  expected_eq : s.expected = seqOf c s.log.length
  ack_le : s.acked ≤ s.log.length
  le_ack1 : s.log.length ≤ s.acked + 1
  next_le : s.next ≤ s.acked + 1
  ack_next : s.log.length ≤ s.next
  infl : ∀ i a, s.inflight = some (i, a) → i = s.acked ∧ i < s.next ∧ (a = true → s.log.length = s.acked + 1)
  clean : s.outOfOrder = false

theorem inv_init (c : Cfg) : Inv c {} := by
  constructor <;> simp [seqOf]

theorem inv_step (c : Cfg) (s s' : St) (e : Ev) (h : Inv c s) (hs : step c s e = some s') : Inv c s' := by
  obtain ⟨h1, h2, h3, h4, h5, h6, h7, h8⟩ := h
  cases e with
  | send i q =>
    simp only [step] at hs
    split at hs
    · rename_i hg
      obtain ⟨hn, hi, hq⟩ := hg
      simp only [Option.some.injEq] at hs; subst hs
      refine ⟨h1, h2, h3, h4, ?_, ?_, ?_, h8⟩
      · simp; omega
      · simp; omega
      · intro j a hja
        simp only [Option.some.injEq, Prod.mk.injEq] at hja
        obtain ⟨rfl, rfl⟩ := hja
        refine ⟨hi, ?_, ?_⟩
        · simp; omega
        · intro hf; cases hf
    · simp at hs
  | apply =>
    simp only [step] at hs
    split at hs
    · rename_i i hin
      obtain ⟨hi, hlt, _⟩ := h7 i false hin
      split at hs
      · rename_i hq
        simp only [Option.some.injEq] at hs; subst hs
        -- seqOf i = expected = seqOf len  ⇒ len = acked (else len = acked+1 and seq strictly larger)
        have hlen : s.log.length = s.acked := by
          rcases Nat.lt_or_ge s.acked s.log.length with hl | hl
          · have : s.log.length = s.acked + 1 := by omega
            rw [h2, this, hi] at hq
            have := seqOf_lt c s.acked; omega
          · omega
        refine ⟨?_, ?_, ?_, ?_, h5, ?_, ?_, h8⟩
        · simp [List.range_succ, hi, ← hlen, ← h1]
        · simp [seqOf, h2, hi, hlen]
        · simp; omega
        · simp; omega
        · simp; omega
        · intro j a hja
          simp only [Option.some.injEq, Prod.mk.injEq] at hja
          obtain ⟨rfl, rfl⟩ := hja
          exact ⟨hi, hlt, fun _ => by simp; omega⟩
      · split at hs
        · rename_i hne hq
          simp only [Option.some.injEq] at hs; subst hs
          have hlen : s.log.length = s.acked + 1 := by
            rcases Nat.lt_or_ge s.acked s.log.length with hl | hl
            · omega
            · have : s.log.length = s.acked := by omega
              rw [h2, this, hi] at hq; omega
          refine ⟨h1, h2, h3, h4, h5, h6, ?_, h8⟩
          intro j a hja
          simp only [Option.some.injEq, Prod.mk.injEq] at hja
          obtain ⟨rfl, rfl⟩ := hja
          exact ⟨hi, hlt, fun _ => hlen⟩
        · rename_i hne hnlt
          -- impossible: seqOf acked ≤ expected always
          exfalso
          have : seqOf c i ≤ s.expected := by
            rw [h2, hi]
            rcases Nat.lt_or_ge s.acked s.log.length with hl | hl
            · have : s.log.length = s.acked + 1 := by omega
              rw [this]; exact Nat.le_of_lt (seqOf_lt c s.acked)
            · have : s.log.length = s.acked := by omega
              rw [this]; exact Nat.le_refl _
          omega
    · simp at hs
  | reply =>
    simp only [step] at hs
    split at hs
    · rename_i i hin
      obtain ⟨hi, hlt, ha⟩ := h7 i true hin
      have hlen := ha rfl
      simp only [Option.some.injEq] at hs; subst hs
      refine ⟨h1, h2, ?_, ?_, ?_, h6, ?_, h8⟩
      · simp; omega
      · simp; omega
      · simp; omega
      · intro j a hja; simp at hja
    · simp at hs
  | lose =>
    simp only [step] at hs
    split at hs
    · simp only [Option.some.injEq] at hs; subst hs
      exact ⟨h1, h2, h3, h4, h5, h6, by intro j a hja; simp at hja, h8⟩
    · simp at hs

theorem inv_run (c : Cfg) (es : List Ev) : ∀ s s', Inv c s → run c s es = some s' → Inv c s' := by
  induction es with
  | nil => intro s s' h hr; simp [run] at hr; subst hr; exact h
  | cons e es ih =>
    intro s s' h hr
    simp only [run] at hr
    cases hs : step c s e with
    | none => simp [hs] at hr
    | some s1 =>
      simp only [hs, Option.bind_some] at hr
      exact ih s1 s' (inv_step c s s1 e h hs) hr

/-- C01 (one partition, idempotent): for EVERY accepted history — any number of retries, drops before
    or after the broker applied the request, lost replies — the log is exactly the batches
    0..k-1 in order, each once, every acknowledged batch is in it, and the broker never saw a gap. -/
theorem c01_template (c : Cfg) (es : List Ev) (s : St) (h : run c {} es = some s) :
    s.log = List.range s.log.length ∧ s.acked ≤ s.log.length ∧ s.outOfOrder = false := by
  have := inv_run c es {} s (inv_init c) h
  exact ⟨this.log_range, this.ack_le, this.clean⟩

-- non-vacuity: a history with a drop after apply, a retry answered as duplicate, then a second batch
example : ∃ s, run ⟨fun _ => 3, by simp⟩ {} [.send 0 0, .apply, .lose, .send 0 0, .apply, .reply,
    .send 1 3, .lose, .send 1 3, .apply, .reply] = some s ∧ s.log = [0, 1] ∧ s.acked = 2 := by
  exact ⟨_, rfl, rfl, rfl⟩

#print axioms c01_template
end Idem
