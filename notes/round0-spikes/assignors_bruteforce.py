import itertools, random, sys, logging
logging.disable(logging.CRITICAL)
from aiokafka.coordinator.assignors.sticky.sticky_assignor import StickyPartitionAssignor as S
from aiokafka.coordinator.assignors.range import RangePartitionAssignor as RG
from aiokafka.coordinator.assignors.roundrobin import RoundRobinPartitionAssignor as RR
from aiokafka.structs import TopicPartition

class Cl:
    def __init__(self, parts): self.parts = parts
    def topics(self): return sorted(self.parts)
    def partitions_for_topic(self, t):
        return set(range(self.parts[t])) if t in self.parts else None

def run(assignor, parts, subs, prev=None):
    members = {}
    for m, topics in subs.items():
        if assignor is S:
            members[m] = S._metadata(sorted(topics), prev.get(m) if prev else None, 1 if prev else -1)
        else:
            members[m] = assignor.metadata(sorted(topics))
    out = assignor.assign(Cl(parts), members)
    return {m: [tp for tp in a.partitions()] for m, a in out.items()}

def valid(parts, subs, asg):
    owners = {}
    for m, tps in asg.items():
        for tp in tps:
            if tp in owners: return f"dup {tp}"
            owners[tp] = m
            if tp.topic not in subs[m]: return f"unsub {m} {tp}"
            if tp.topic not in parts or tp.partition >= parts[tp.topic]: return f"ghost {tp}"
    for t, n in parts.items():
        if any(t in s for s in subs.values()):
            for p in range(n):
                if TopicPartition(t, p) not in owners: return f"unassigned {t}{p}"
    return None

def kip54(parts, subs, asg):
    cnt = {m: len(v) for m, v in asg.items()}
    for m, tps in asg.items():
        for tp in tps:
            for m2 in subs:
                if m2 != m and tp.topic in subs[m2] and cnt[m] >= cnt[m2] + 2:
                    return f"{m2}({cnt[m2]}) could take {tp} from {m}({cnt[m]})"
    return None

topics = ["a","b","c"]
subsets = [set(c) for r in (1,2,3) for c in itertools.combinations(topics, r)]
bad = {}
n = 0
for nm in (1,2,3):
    for pa in itertools.product(range(-1,4), repeat=3):   # -1 = no metadata
        parts = {t: k for t, k in zip(topics, pa) if k >= 0}
        for ss in itertools.product(subsets, repeat=nm):
            subs = {f"m{i}": s for i, s in enumerate(ss)}
            for A in (RG, RR, S):
                n += 1
                try:
                    asg = run(A, parts, subs)
                except Exception as e:
                    bad.setdefault((A.name, "EXC "+type(e).__name__), (parts, subs)); continue
                v = valid(parts, subs, asg)
                if v: bad.setdefault((A.name, v.split()[0]), (parts, subs, asg))
                if A is S:
                    k = kip54(parts, subs, asg)
                    if k: bad.setdefault((A.name, "kip54"), (parts, subs, asg, k))
print("cases", n)
for k, v in bad.items(): print(k, v)
