/-! spike: length-prefixed frame reassembly is independent of chunking -/
namespace Fr
abbrev Bytes := List Nat

/-- size header is modelled as one abstract "length" token for the spike: first element = payload length -/
def take1 (buf : Bytes) : Option (Bytes × Bytes) :=
  match buf with
  | [] => none
  | n :: rest => if n ≤ rest.length then some (rest.take n, rest.drop n) else none

/-- extract all complete frames; fuel = buffer length (each frame consumes ≥ 1 element) -/
def extract : Nat → Bytes → List Bytes × Bytes
  | 0, buf => ([], buf)
  | fuel+1, buf =>
    match take1 buf with
    | none => ([], buf)
    | some (f, rest) => let (fs, r) := extract fuel rest; (f :: fs, r)

def frames (buf : Bytes) := extract buf.length buf

structure St where
  buf : Bytes
  out : List Bytes

def feed (s : St) (chunk : Bytes) : St :=
  let (fs, r) := frames (s.buf ++ chunk)
  { buf := r, out := s.out ++ fs }

theorem take1_rest_lt {buf f rest} (h : take1 buf = some (f, rest)) : rest.length < buf.length := by
  unfold take1 at h
  cases buf with
  | nil => simp at h
  | cons n t =>
    simp only at h
    split at h
    · simp only [Option.some.injEq, Prod.mk.injEq] at h
      obtain ⟨_, rfl⟩ := h
      simp [List.length_drop]; omega
    · simp at h

/-- more fuel than needed changes nothing -/
theorem extract_fuel (fuel : Nat) (buf : Bytes) (h : buf.length ≤ fuel) :
    extract fuel buf = extract buf.length buf := by
  induction fuel using Nat.strongRecOn generalizing buf with
  | _ fuel ih =>
    cases fuel with
    | zero =>
      have : buf.length = 0 := by omega
      rw [this]
    | succ k =>
      cases hb : buf.length with
      | zero =>
        have : buf = [] := List.length_eq_zero_iff.mp hb
        subst this; simp [extract, take1]
      | succ m =>
        simp only [extract]
        cases ht : take1 buf with
        | none => rfl
        | some p =>
          obtain ⟨f, rest⟩ := p
          have hlt := take1_rest_lt ht
          simp only
          rw [ih k (by omega) rest (by omega), ih m (by omega) rest (by omega)]
end Fr

namespace Fr
theorem take1_append {a f rest} (b : Bytes) (h : take1 a = some (f, rest)) :
    take1 (a ++ b) = some (f, rest ++ b) := by
  cases a with
  | nil => simp [take1] at h
  | cons n t =>
    simp only [take1] at h
    split at h
    next hle =>
      simp only [Option.some.injEq, Prod.mk.injEq] at h
      obtain ⟨rfl, rfl⟩ := h
      have : n ≤ (t ++ b).length := by simp; omega
      simp only [List.cons_append, take1, this, ↓reduceIte]
      rw [List.take_append_of_le_length hle, List.drop_append_of_le_length hle]
    next => simp at h

theorem frames_append (a b : Bytes) :
    frames (a ++ b) =
      let (fs1, r1) := frames a
      let (fs2, r2) := frames (r1 ++ b)
      (fs1 ++ fs2, r2) := by
  induction hn : a.length using Nat.strongRecOn generalizing a with
  | _ n ih =>
    subst hn
    cases ht : take1 a with
    | none =>
      have : frames a = ([], a) := by
        unfold frames; cases hl : a.length with
        | zero => rfl
        | succ m => simp [extract, ht]
      simp [this]
    | some p =>
      obtain ⟨f, rest⟩ := p
      have hlt := take1_rest_lt ht
      have hab := take1_append b ht
      have hlt2 := take1_rest_lt hab
      have e1 : frames a = ((f :: (frames rest).1), (frames rest).2) := by
        unfold frames
        cases hl : a.length with
        | zero => omega
        | succ m =>
          simp only [extract, ht]
          rw [extract_fuel m rest (by omega)]
      have e2 : frames (a ++ b) = ((f :: (frames (rest ++ b)).1), (frames (rest ++ b)).2) := by
        unfold frames
        cases hl : (a ++ b).length with
        | zero => omega
        | succ m =>
          simp only [extract, hab]
          rw [extract_fuel m (rest ++ b) (by omega)]
      rw [e1, e2, ih rest.length hlt rest rfl]
      simp
end Fr
