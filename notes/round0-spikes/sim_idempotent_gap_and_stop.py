import asyncio, struct, io, heapq, time, sys, logging
import time as _time
from aiokafka.protocol.api import RequestStruct
import aiokafka.protocol.admin, aiokafka.protocol.metadata, aiokafka.protocol.produce, aiokafka.protocol.transaction, aiokafka.protocol.coordination
from aiokafka.protocol.types import Int16, Int32, String
from aiokafka.record.memory_records import MemoryRecords
def all_subclasses(c):
    for s in c.__subclasses__():
        yield s; yield from all_subclasses(s)
REQ = {(c.API_KEY, c.API_VERSION): c for c in all_subclasses(RequestStruct)}
LEADER=[0]; DOWN=[False]
class VLoop(asyncio.SelectorEventLoop):
    def __init__(self):
        super().__init__(); self._vt = 0.0
    def time(self): return self._vt
    def _run_once(self):
        if not self._ready and self._scheduled:
            while self._scheduled and self._scheduled[0]._cancelled:
                h = heapq.heappop(self._scheduled); h._scheduled = False
            if self._scheduled and self._scheduled[0]._when > self._vt:
                self._vt = self._scheduled[0]._when
        super()._run_once()
    async def create_connection(self, protocol_factory, host=None, port=None, **kw):
        if DOWN[0]: raise ConnectionRefusedError("down")
        proto = protocol_factory(); tr = FakeTransport(self, proto)
        self.call_soon(proto.connection_made, tr); await asyncio.sleep(0)
        return tr, proto
class FakeTransport(asyncio.Transport):
    def __init__(self, loop, proto):
        super().__init__(); self.loop, self.proto = loop, proto; self.closing=False; self.buf=b""
    def write(self, data):
        self.buf += bytes(data)
        while len(self.buf) >= 4:
            (n,) = struct.unpack(">i", self.buf[:4])
            if len(self.buf) < 4+n: break
            frame, self.buf = self.buf[4:4+n], self.buf[4+n:]
            self.loop.call_later(0.001, BROKER.handle, self, frame)
    def is_closing(self): return self.closing
    def close(self):
        if not self.closing:
            self.closing=True; self.loop.call_soon(self.proto.connection_lost, None)
    def abort(self): self.close()
    def get_extra_info(self, name, default=None): return default
    def reply(self, data):
        if not self.closing: self.proto.data_received(struct.pack(">i", len(data)) + data)
VERS = {0:(0,7),3:(0,5),10:(0,1),18:(0,2),22:(0,0)}
class Broker:
    def __init__(self): self.trace=[]
    def handle(self, tr, frame):
        if DOWN[0]: tr.close(); return
        b = io.BytesIO(frame)
        api_key = Int16.decode(b); ver = Int16.decode(b); corr = Int32.decode(b); cid = String("utf-8").decode(b)
        cls = REQ[(api_key, ver)]; req = cls.decode(b); R0 = cls.RESPONSE_TYPE
        def R(**kw): return R0(**{n: kw.get(n) for n in R0.SCHEMA.names})
        if api_key == 18: resp = R(error_code=0, api_versions=[(k,a,z) for k,(a,z) in VERS.items()], throttle_time_ms=0)
        elif api_key == 3: resp = R(throttle_time_ms=0, brokers=[(0,"b0",9092,None)], cluster_id="c", controller_id=0, topics=[(0,"t",False,[(0 if LEADER[0]>=0 else 5,0,LEADER[0],[0],[0],[])])])
        elif api_key == 22: resp = R(throttle_time_ms=0,error_code=0,producer_id=7,producer_epoch=0)
        elif api_key == 0:
            out=[]
            for topic, parts in req.topics:
                po=[]
                for p, data in parts:
                    mr = MemoryRecords(bytes(data)); seqs=[]
                    while mr.has_next():
                        batch = mr.next_batch(); seqs.append((batch.base_sequence, [r.value for r in batch]))
                    self.trace.append((round(tr.loop.time(),3), "PRODUCE", seqs, "reply", ERR[0]))
                    po.append((p,ERR[0],0,-1,0))
                out.append((topic,po))
            resp = R(topics=out, throttle_time_ms=0)
        else: raise RuntimeError(api_key)
        tr.reply(Int32.encode(corr) + resp.encode())
ERR=[0]
BROKER = Broker()
async def main(mode):
    from aiokafka import AIOKafkaProducer
    loop = asyncio.get_event_loop()
    _time.monotonic = loop.time
    p = AIOKafkaProducer(bootstrap_servers="b0:9092", enable_idempotence=True, request_timeout_ms=2000)
    await p.start()
    await p.send_and_wait("t", b"r0", partition=0)
    if mode == "gap":
        ERR[0]=6; LEADER[0]=-1          # NOT_LEADER reply, then metadata says leader unavailable
        f1 = await p.send("t", b"r1", partition=0)
        await asyncio.sleep(5)          # > request_timeout
        print("f1:", f1.done() and repr(f1.exception()))
        ERR[0]=0; LEADER[0]=0
        f2 = await p.send("t", b"r2", partition=0)
        await asyncio.sleep(3)
        print("f2 done:", f2.done(), f2.done() and (f2.exception() or f2.result().offset))
        await p.stop()
    else:
        f1 = await p.send("t", b"r1", partition=0)
        DOWN[0]=True
        for c in list(p.client._conns.values()): c.close()
        t0=loop.time()
        try:
            await asyncio.wait_for(p.stop(), 3600); print("stop returned after", loop.time()-t0)
        except asyncio.TimeoutError: print("producer.stop() DID NOT RETURN within 3600 virtual seconds; f1 done:", f1.done())
    for e in BROKER.trace: print(e)
loop = VLoop(); asyncio.set_event_loop(loop); loop.run_until_complete(main(sys.argv[1]))
