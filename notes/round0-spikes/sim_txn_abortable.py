import asyncio, struct, io, heapq, time, sys, logging
from aiokafka.protocol.api import RequestStruct
import aiokafka.protocol.admin, aiokafka.protocol.metadata, aiokafka.protocol.produce, aiokafka.protocol.fetch
import aiokafka.protocol.offset, aiokafka.protocol.commit, aiokafka.protocol.group, aiokafka.protocol.coordination, aiokafka.protocol.transaction
from aiokafka.protocol.types import Int16, Int32, String
from aiokafka.record.memory_records import MemoryRecords
from aiokafka.structs import TopicPartition
def all_subclasses(c):
    for s in c.__subclasses__():
        yield s; yield from all_subclasses(s)
REQ = {(c.API_KEY, c.API_VERSION): c for c in all_subclasses(RequestStruct)}
class VLoop(asyncio.SelectorEventLoop):
    def __init__(self):
        super().__init__(); self._vt = 0.0
    def time(self): return self._vt
    def _run_once(self):
        if not self._ready and self._scheduled:
            while self._scheduled and self._scheduled[0]._cancelled:
                h = heapq.heappop(self._scheduled); h._scheduled = False
            if self._scheduled and self._scheduled[0]._when > self._vt:
                self._vt = self._scheduled[0]._when
        super()._run_once()
    async def create_connection(self, protocol_factory, host=None, port=None, **kw):
        proto = protocol_factory(); tr = FakeTransport(self, proto)
        self.call_soon(proto.connection_made, tr); await asyncio.sleep(0)
        return tr, proto
class FakeTransport(asyncio.Transport):
    def __init__(self, loop, proto):
        super().__init__(); self.loop, self.proto = loop, proto; self.closing=False; self.buf=b""
    def write(self, data):
        self.buf += bytes(data)
        while len(self.buf) >= 4:
            (n,) = struct.unpack(">i", self.buf[:4])
            if len(self.buf) < 4+n: break
            frame, self.buf = self.buf[4:4+n], self.buf[4+n:]
            self.loop.call_later(0.001, BROKER.handle, self, frame)
    def is_closing(self): return self.closing
    def close(self):
        if not self.closing:
            self.closing=True; self.loop.call_soon(self.proto.connection_lost, None)
    def abort(self): self.close()
    def get_extra_info(self, name, default=None): return default
    def reply(self, data):
        if not self.closing: self.proto.data_received(struct.pack(">i", len(data)) + data)
VERS = {0:(0,7),3:(0,5),10:(0,1),18:(0,2),22:(0,0),24:(0,0),25:(0,0),26:(0,0),28:(0,0)}
class Broker:
    def __init__(self):
        self.trace=[]; self.log=[]  # (pid, is_txn, values) / markers
        self.txn_parts=set(); self.txn_open=False
    def handle(self, tr, frame):
        b = io.BytesIO(frame)
        api_key = Int16.decode(b); ver = Int16.decode(b); corr = Int32.decode(b); cid = String("utf-8").decode(b)
        cls = REQ[(api_key, ver)]; req = cls.decode(b); R0 = cls.RESPONSE_TYPE
        def R(**kw): return R0(**{n: kw.get(n) for n in R0.SCHEMA.names})
        name = cls.__name__
        if api_key not in (18,3,10): self.trace.append((round(tr.loop.time(),3), name, getattr(req,'transaction_result',None)))
        if api_key == 18: resp = R(error_code=0, api_versions=[(k,a,z) for k,(a,z) in VERS.items()], throttle_time_ms=0)
        elif api_key == 3: resp = R(throttle_time_ms=0, brokers=[(0,"b0",9092,None)], cluster_id="c", controller_id=0, topics=[(0,"t",False,[(0,0,0,[0],[0],[])])])
        elif api_key == 10: resp = R(throttle_time_ms=0,error_code=0,error_message=None,coordinator_id=0,host="b0",port=9092)
        elif api_key == 22: resp = R(throttle_time_ms=0,error_code=0,producer_id=7,producer_epoch=0)
        elif api_key == 24:
            self.txn_open=True
            for t,ps in req.topics:
                for p in ps: self.txn_parts.add((t,p))
            resp = R(throttle_time_ms=0, errors=[(t,[(p,0) for p in ps]) for t,ps in req.topics])
        elif api_key == 25: resp = R(throttle_time_ms=0, error_code=30)   # GROUP_AUTHORIZATION_FAILED
        elif api_key == 26:
            self.log.append(("MARKER", "COMMIT" if req.transaction_result else "ABORT", sorted(self.txn_parts)))
            self.txn_parts=set(); self.txn_open=False
            resp = R(throttle_time_ms=0, error_code=0)
        elif api_key == 0:
            out=[]
            for topic, parts in req.topics:
                po=[]
                for p, data in parts:
                    mr = MemoryRecords(bytes(data))
                    while mr.has_next():
                        batch = mr.next_batch()
                        self.log.append(("DATA", batch.producer_id, batch.is_transactional, [r.value for r in batch], "registered" if (topic,p) in self.txn_parts else "NOT-REGISTERED"))
                    po.append((p,0,0,-1,0))
                out.append((topic,po))
            resp = R(topics=out, throttle_time_ms=0)
        else: raise RuntimeError(api_key)
        tr.reply(Int32.encode(corr) + resp.encode())
BROKER = Broker()
async def main():
    from aiokafka import AIOKafkaProducer
    import aiokafka.errors as E
    p = AIOKafkaProducer(bootstrap_servers="b0:9092", transactional_id="tx")
    await p.start()
    await p.begin_transaction()
    await p.send_and_wait("t", b"A1", partition=0)
    try:
        await p.send_offsets_to_transaction({TopicPartition("t",0): 5}, "grp")
    except E.KafkaError as e: print("send_offsets ->", repr(e))
    try:
        await p.commit_transaction()
    except E.KafkaError as e: print("commit ->", repr(e))
    await p.abort_transaction(); print("abort returned; state", p._txn_manager.state)
    await p.begin_transaction()
    await p.send_and_wait("t", b"B1", partition=0)
    await p.commit_transaction(); print("commit 2 returned")
    await p.stop()
    for e in BROKER.trace: print(e)
    print("LOG:"); [print("  ", x) for x in BROKER.log]
loop = VLoop(); asyncio.set_event_loop(loop); loop.run_until_complete(main())
