/-! spike: READ_COMMITTED filter of `PartitionRecords._unpack_records` vs ground truth (steady state) -/
namespace Iso
abbrev Pid := Nat

structure Batch where
  base : Nat
  pid  : Pid
  txn  : Bool
  ctrl : Option Bool      -- some true = ABORT marker, some false = COMMIT marker, none = data
deriving Repr, DecidableEq

/-- outcome of the transaction `p` is in: the first later marker of `p` -/
def nextMarker (p : Pid) : List Batch → Option Bool
  | [] => none
  | b :: r => if b.pid = p ∧ b.ctrl.isSome then b.ctrl else nextMarker p r

def willAbort (p : Pid) (s : List Batch) : Bool := nextMarker p s == some true

/-- broker side: producers with an open transaction -/
def openStep (op : List Pid) (b : Batch) : List Pid :=
  if b.ctrl.isSome then op.filter (· != b.pid)
  else if b.txn then (if op.contains b.pid then op else b.pid :: op)
  else op

/-- (pid, first offset) of aborted transactions that START inside `s`, in start order -/
def starts (op : List Pid) : List Batch → List (Pid × Nat)
  | [] => []
  | b :: r =>
    (if b.ctrl.isNone && b.txn && !(op.contains b.pid) && willAbort b.pid r
      then [(b.pid, b.base)] else []) ++ starts (openStep op b) r

def cover (op : List Pid) (s : List Batch) : List Pid := op.filter (fun p => willAbort p s)

/-- ground truth: delivered? -/
def truth : List Batch → List Bool
  | [] => []
  | b :: r => (b.ctrl.isNone && (!b.txn || nextMarker b.pid r == some false)) :: truth r

/-- the client (fetcher.py:221-254) -/
structure CS where
  idx : List (Pid × Nat)
  ap  : List Pid

def cstep (s : CS) (b : Batch) : CS × Bool :=
  let mv   := s.idx.takeWhile (fun e => e.2 ≤ b.base)
  let rest := s.idx.dropWhile (fun e => e.2 ≤ b.base)
  let ap1  := mv.map (·.1) ++ s.ap
  let ap2  := if b.ctrl = some true then ap1.filter (· != b.pid) else ap1
  if b.txn && ap2.contains b.pid then (⟨rest, ap2⟩, false)
  else if b.ctrl.isSome then (⟨rest, ap2⟩, false)
  else (⟨rest, ap2⟩, true)

def crun (s : CS) : List Batch → List Bool
  | [] => []
  | b :: r => let (s', d) := cstep s b; d :: crun s' r

/-- well-formed suffix: strictly increasing base offsets; every transactional data batch is decided
    (the response is bounded by the last stable offset); markers are transactional -/
def Incr : List Batch → Prop
  | [] => True
  | b :: r => (∀ c ∈ r, b.base < c.base) ∧ Incr r

def Decided : List Batch → Prop
  | [] => True
  | b :: r => (b.ctrl.isNone → b.txn = true → nextMarker b.pid r ≠ none) ∧ Decided r

theorem starts_gt (op : List Pid) (s : List Batch) (n : Nat) (h : ∀ c ∈ s, n < c.base) :
    ∀ e ∈ starts op s, n < e.2 := by
  induction s generalizing op with
  | nil => intro e he; simp [starts] at he
  | cons b r ih =>
    intro e he
    simp only [starts, List.mem_append] at he
    rcases he with he | he
    · split at he
      · simp at he; subst he; exact h b (by simp)
      · simp at he
    · exact ih _ (fun c hc => h c (by simp [hc])) e he

theorem takeWhile_none (l : List (Pid × Nat)) (n : Nat) (h : ∀ e ∈ l, n < e.2) :
    l.takeWhile (fun e => e.2 ≤ n) = [] ∧ l.dropWhile (fun e => e.2 ≤ n) = l := by
  cases l with
  | nil => simp
  | cons a t =>
    have := h a (by simp)
    have hf : ¬ (a.2 ≤ n) := by omega
    simp [List.takeWhile, List.dropWhile, hf]

theorem willAbort_cons_data (p : Pid) (b : Batch) (r : List Batch) (hb : b.ctrl = none) :
    willAbort p (b :: r) = willAbort p r := by
  simp [willAbort, nextMarker, hb]

theorem cover_cons_data (op : List Pid) (b : Batch) (r : List Batch) (hb : b.ctrl = none) :
    cover op (b :: r) = cover op r := by
  simp [cover, willAbort_cons_data _ b r hb]
end Iso

namespace Iso

theorem mem_cover {op : List Pid} {s : List Batch} {p : Pid} :
    p ∈ cover op s ↔ p ∈ op ∧ willAbort p s = true := by
  simp [cover]

/-- main steady-state theorem -/
theorem crun_eq_truth (s : List Batch) :
    ∀ (op : List Pid) (c : CS), Incr s → Decided s →
      c.idx = starts op s → (∀ p, p ∈ c.ap ↔ p ∈ cover op s) →
      crun c s = truth s := by
  induction s with
  | nil => intro op c _ _ _ _; rfl
  | cons b r ih =>
    intro op c hincr hdec hidx hap
    obtain ⟨hgt, hincr'⟩ := hincr
    obtain ⟨hdecb, hdec'⟩ := hdec
    have hlater : ∀ e ∈ starts (openStep op b) r, b.base < e.2 :=
      starts_gt _ r b.base hgt
    simp only [crun, truth]
    -- case analysis on the shape of b
    cases hctrl : b.ctrl with
    | some a =>
      -- marker
      have hst : starts op (b :: r) = starts (openStep op b) r := by
        simp [starts, hctrl]
      have ⟨htw, hdw⟩ := takeWhile_none (starts (openStep op b) r) b.base hlater
      have hop : openStep op b = op.filter (· != b.pid) := by simp [openStep, hctrl]
      -- compute the client step
      have hstep : cstep c b =
          (⟨starts (openStep op b) r,
            if a = true then c.ap.filter (· != b.pid) else c.ap⟩, false) := by
        unfold cstep
        rw [hidx, hst, htw, hdw]
        cases a <;> simp [hctrl] <;> split <;> rfl
      rw [hstep]
      simp only [Option.isNone_some, Bool.false_and]
      congr 1
      apply ih (openStep op b) _ hincr' hdec' rfl
      intro p
      rw [mem_cover, hop]
      have hwa : ∀ q, q ≠ b.pid → willAbort q (b :: r) = willAbort q r := by
        intro q hq
        have : ¬ (b.pid = q ∧ b.ctrl.isSome = true) := by
          intro h; exact hq h.1.symm
        simp [willAbort, nextMarker, this]
      have hwb : willAbort b.pid (b :: r) = a := by
        simp [willAbort, nextMarker, hctrl]
      by_cases hp : p = b.pid
      · subst hp
        cases a with
        | true => simp
        | false =>
          simp only [Bool.false_eq_true, ↓reduceIte]
          have : b.pid ∉ c.ap := by
            intro hin
            have := (hap b.pid).mp hin
            rw [mem_cover, hwb] at this
            exact absurd this.2 (by simp)
          simp [this]
      · have h1 : p ∈ (if a = true then c.ap.filter (· != b.pid) else c.ap) ↔ p ∈ c.ap := by
          cases a <;> simp [hp]
        rw [h1, hap p, mem_cover, hwa p hp]
        simp [hp]
    | none =>
      have hcov : cover op (b :: r) = cover op r := cover_cons_data op b r hctrl
      cases htxn : b.txn with
      | false =>
        -- plain data batch
        have hst : starts op (b :: r) = starts (openStep op b) r := by
          simp [starts, hctrl, htxn]
        have hop : openStep op b = op := by simp [openStep, hctrl, htxn]
        have ⟨htw, hdw⟩ := takeWhile_none (starts (openStep op b) r) b.base hlater
        have hstep : cstep c b = (⟨starts (openStep op b) r, c.ap⟩, true) := by
          unfold cstep
          rw [hidx, hst, htw, hdw]
          simp [hctrl, htxn]
        rw [hstep]
        simp only [Option.isNone_none, Bool.not_false, Bool.true_or, Bool.and_self]
        congr 1
        apply ih (openStep op b) _ hincr' hdec' rfl
        intro p; rw [hop, ← hcov]; exact hap p
      | true =>
        have hdecided : nextMarker b.pid r ≠ none := hdecb (by simp [hctrl]) htxn
        by_cases hin : op.contains b.pid = true
        · -- continuing an open transaction
          have hmem : b.pid ∈ op := List.contains_iff_mem.mp hin
          have hst : starts op (b :: r) = starts (openStep op b) r := by
            simp [starts, hctrl, htxn, hmem]
          have hop : openStep op b = op := by simp [openStep, hctrl, htxn, hmem]
          have ⟨htw, hdw⟩ := takeWhile_none (starts (openStep op b) r) b.base hlater
          have hapb : c.ap.contains b.pid = willAbort b.pid r := by
            have := hap b.pid
            rw [hcov, mem_cover] at this
            cases hw : willAbort b.pid r with
            | true =>
              have : b.pid ∈ c.ap := this.mpr ⟨hmem, hw⟩
              simpa using this
            | false =>
              have : b.pid ∉ c.ap := fun h => by
                have := (this.mp h).2; rw [hw] at this; exact absurd this (by simp)
              simpa using this
          have hstep : cstep c b =
              (⟨starts (openStep op b) r, c.ap⟩, !(willAbort b.pid r)) := by
            unfold cstep
            rw [hidx, hst, htw, hdw]
            simp only [List.map_nil, List.nil_append, hctrl, htxn, Bool.true_and]
            simp only [show (none : Option Bool) = some true ↔ False by simp, ↓reduceIte, hapb]
            cases willAbort b.pid r <;> simp
          rw [hstep]
          have htruth : (!(willAbort b.pid r)) = (nextMarker b.pid r == some false) := by
            unfold willAbort
            cases hnm : nextMarker b.pid r with
            | none => exact absurd hnm hdecided
            | some v => cases v <;> rfl
          simp only [Option.isNone_none, Bool.not_true, Bool.false_or, Bool.true_and, htruth]
          congr 1
          apply ih (openStep op b) _ hincr' hdec' rfl
          intro p; rw [hop, ← hcov]; exact hap p
        · -- first batch of a new transaction
          have hnotmem : b.pid ∉ op := fun h => hin (List.contains_iff_mem.mpr h)
          have hin' : op.contains b.pid = false := by simpa using hnotmem
          have hop : openStep op b = b.pid :: op := by simp [openStep, hctrl, htxn, hnotmem]
          have hnotap : b.pid ∉ c.ap := fun h => by
            have := (hap b.pid).mp h
            rw [mem_cover] at this; exact hnotmem this.1
          cases hw : willAbort b.pid r with
          | true =>
            have hst : starts op (b :: r) = (b.pid, b.base) :: starts (openStep op b) r := by
              simp [starts, hctrl, htxn, hnotmem, hw]
            have ⟨htw, hdw⟩ := takeWhile_none (starts (openStep op b) r) b.base hlater
            have hstep : cstep c b = (⟨starts (openStep op b) r, b.pid :: c.ap⟩, false) := by
              unfold cstep
              rw [hidx, hst]
              simp [List.takeWhile, List.dropWhile, htw, hdw, hctrl, htxn]
            rw [hstep]
            have htruth : (nextMarker b.pid r == some false) = false := by
              unfold willAbort at hw
              cases hnm : nextMarker b.pid r with
              | none => exact absurd hnm hdecided
              | some v => cases v <;> simp_all
            simp only [Option.isNone_none, Bool.not_true, Bool.false_or, Bool.true_and, htruth]
            congr 1
            apply ih (openStep op b) _ hincr' hdec' rfl
            intro p
            rw [hop, mem_cover]
            simp only [List.mem_cons]
            constructor
            · rintro (rfl | h)
              · exact ⟨Or.inl rfl, hw⟩
              · have := (hap p).mp h
                rw [hcov, mem_cover] at this
                exact ⟨Or.inr this.1, this.2⟩
            · rintro ⟨rfl | h, hwp⟩
              · exact Or.inl rfl
              · exact Or.inr ((hap p).mpr (by rw [hcov, mem_cover]; exact ⟨h, hwp⟩))
          | false =>
            have hst : starts op (b :: r) = starts (openStep op b) r := by
              simp [starts, hctrl, htxn, hnotmem, hw]
            have ⟨htw, hdw⟩ := takeWhile_none (starts (openStep op b) r) b.base hlater
            have hapc : c.ap.contains b.pid = false := by simpa using hnotap
            have hstep : cstep c b = (⟨starts (openStep op b) r, c.ap⟩, true) := by
              unfold cstep
              rw [hidx, hst, htw, hdw]
              simp [hctrl, htxn, hnotap]
            rw [hstep]
            have htruth : (nextMarker b.pid r == some false) = true := by
              unfold willAbort at hw
              cases hnm : nextMarker b.pid r with
              | none => exact absurd hnm hdecided
              | some v => cases v <;> simp_all
            simp only [Option.isNone_none, Bool.not_true, Bool.false_or, Bool.true_and, htruth]
            congr 1
            apply ih (openStep op b) _ hincr' hdec' rfl
            intro p
            rw [hop, mem_cover]
            simp only [List.mem_cons]
            constructor
            · intro h
              have := (hap p).mp h
              rw [hcov, mem_cover] at this
              exact ⟨Or.inr this.1, this.2⟩
            · rintro ⟨rfl | h, hwp⟩
              · rw [hw] at hwp; exact absurd hwp (by simp)
              · exact (hap p).mpr (by rw [hcov, mem_cover]; exact ⟨h, hwp⟩)

#print axioms crun_eq_truth
end Iso
