/-! spike: schema-directed encode/decode with nested arrays/structs; generic round trip -/
namespace Wire
abbrev Bytes := List Nat   -- each < 256 (not enforced in spike)

inductive Ty where
  | int16 : Ty
  | bytes : Ty                -- int16 length prefix for spike
  | array : Ty → Ty           -- int16 count prefix, -1 = null
  | struct : List Ty → Ty

inductive Val where
  | int : Int → Val
  | bytes : Option Bytes → Val
  | list : Option (List Val) → Val
  | tuple : List Val → Val

-- primitive: big endian int16 two's complement
def enc16 (i : Int) : Bytes :=
  let u := (i % 65536).toNat
  [u / 256, u % 256]
def dec16 : Bytes → Option (Int × Bytes)
  | a :: b :: rest =>
    let u := a * 256 + b
    some ((if u < 32768 then (u : Int) else (u : Int) - 65536), rest)
  | _ => none

def In16 (i : Int) : Prop := -32768 ≤ i ∧ i < 32768

theorem dec16_enc16 (i : Int) (h : In16 i) (rest : Bytes) : dec16 (enc16 i ++ rest) = some (i, rest) := by
  unfold enc16 dec16 In16 at *
  simp only [List.cons_append, List.nil_append]
  have h1 : (i % 65536).toNat / 256 * 256 + (i % 65536).toNat % 256 = (i % 65536).toNat := by omega
  rw [h1]
  congr 2
  split <;> omega

mutual
def encode : Ty → Val → Option Bytes
  | .int16, .int i => if -32768 ≤ i ∧ i < 32768 then some (enc16 i) else none
  | .bytes, .bytes none => some (enc16 (-1))
  | .bytes, .bytes (some b) => if b.length < 32768 then some (enc16 b.length ++ b) else none
  | .array _, .list none => some (enc16 (-1))
  | .array t, .list (some vs) =>
      if vs.length < 32768 then (encodeMany t vs).map (enc16 vs.length ++ ·) else none
  | .struct ts, .tuple vs => encodeFields ts vs
  | _, _ => none
def encodeMany : Ty → List Val → Option Bytes
  | _, [] => some []
  | t, v :: vs => do let a ← encode t v; let b ← encodeMany t vs; pure (a ++ b)
def encodeFields : List Ty → List Val → Option Bytes
  | [], [] => some []
  | t :: ts, v :: vs => do let a ← encode t v; let b ← encodeFields ts vs; pure (a ++ b)
  | _, _ => none
end

mutual
def decode : Ty → Bytes → Option (Val × Bytes)
  | .int16, bs => (dec16 bs).map fun (i, r) => (.int i, r)
  | .bytes, bs => do
      let (n, r) ← dec16 bs
      if n < 0 then pure (.bytes none, r)
      else if r.length < n.toNat then none
      else pure (.bytes (some (r.take n.toNat)), r.drop n.toNat)
  | .array t, bs => do
      let (n, r) ← dec16 bs
      if n = -1 then pure (.list none, r)
      else
        let (vs, r') ← decodeMany t n.toNat r
        pure (.list (some vs), r')
  | .struct ts, bs => do
      let (vs, r) ← decodeFields ts bs
      pure (.tuple vs, r)
def decodeMany : Ty → Nat → Bytes → Option (List Val × Bytes)
  | _, 0, bs => some ([], bs)
  | t, n+1, bs => do
      let (v, r) ← decode t bs
      let (vs, r') ← decodeMany t n r
      pure (v :: vs, r')
def decodeFields : List Ty → Bytes → Option (List Val × Bytes)
  | [], bs => some ([], bs)
  | t :: ts, bs => do
      let (v, r) ← decode t bs
      let (vs, r') ← decodeFields ts r
      pure (v :: vs, r')
end
end Wire

namespace Wire
mutual
theorem rt (t : Ty) (v : Val) (bs rest : Bytes) (h : encode t v = some bs) :
    decode t (bs ++ rest) = some (v, rest) := by
  cases t with
  | int16 =>
    cases v with
    | int i =>
      simp only [encode] at h
      split at h
      · rename_i hr
        simp only [Option.some.injEq] at h; subst h
        simp [decode, dec16_enc16 i hr rest]
      · simp at h
    | _ => simp [encode] at h
  | bytes =>
    cases v with
    | bytes ob =>
      cases ob with
      | none =>
        simp only [encode, Option.some.injEq] at h; subst h
        simp [decode, dec16_enc16 (-1) (by unfold In16; omega) rest]
      | some b =>
        simp only [encode] at h
        split at h
        · rename_i hl
          simp only [Option.some.injEq] at h; subst h
          have h16 : In16 (b.length : Int) := by unfold In16; omega
          simp only [decode, List.append_assoc, dec16_enc16 _ h16]
          simp
          have h1 : ¬ ((b.length : Int) < 0) := by omega
          have h2 : ¬ ((b.length : Int) + (rest.length : Int) < (b.length : Int)) := by omega
          simp [h1, h2]
        · simp at h
    | _ => simp [encode] at h
  | array t =>
    cases v with
    | list ovs =>
      cases ovs with
      | none =>
        simp only [encode, Option.some.injEq] at h; subst h
        simp [decode, dec16_enc16 (-1) (by unfold In16; omega) rest]
      | some vs =>
        simp only [encode] at h
        split at h
        · rename_i hl
          cases hm : encodeMany t vs with
          | none => simp [hm] at h
          | some body =>
            simp only [hm, Option.map_some, Option.some.injEq] at h; subst h
            have h16 : In16 (vs.length : Int) := by unfold In16; omega
            have hne : ¬ ((vs.length : Int) = -1) := by omega
            simp only [decode, List.append_assoc, dec16_enc16 _ h16, Option.bind_eq_bind,
              Option.bind_some, hne, ↓reduceIte, Int.toNat_natCast]
            rw [rtMany t vs body rest hm]
            simp
        · simp at h
    | _ => simp [encode] at h
  | struct ts =>
    cases v with
    | tuple vs =>
      simp only [encode] at h
      simp only [decode, Option.bind_eq_bind]
      rw [rtFields ts vs bs rest h]
      simp
    | _ => simp [encode] at h

theorem rtMany (t : Ty) (vs : List Val) (bs rest : Bytes) (h : encodeMany t vs = some bs) :
    decodeMany t vs.length (bs ++ rest) = some (vs, rest) := by
  cases vs with
  | nil => simp only [encodeMany, Option.some.injEq] at h; subst h; simp [decodeMany]
  | cons v vs =>
    simp only [encodeMany, Option.bind_eq_bind] at h
    cases ha : encode t v with
    | none => simp [ha] at h
    | some a =>
      cases hb : encodeMany t vs with
      | none => simp [ha, hb] at h
      | some b =>
        simp only [ha, hb, Option.bind_some, Option.pure_def, Option.some.injEq] at h; subst h
        simp only [List.length_cons, decodeMany, List.append_assoc, Option.bind_eq_bind]
        rw [rt t v a (b ++ rest) ha]
        simp only [Option.bind_some]
        rw [rtMany t vs b rest hb]
        simp

theorem rtFields (ts : List Ty) (vs : List Val) (bs rest : Bytes) (h : encodeFields ts vs = some bs) :
    decodeFields ts (bs ++ rest) = some (vs, rest) := by
  cases ts with
  | nil =>
    cases vs with
    | nil => simp only [encodeFields, Option.some.injEq] at h; subst h; simp [decodeFields]
    | cons _ _ => simp [encodeFields] at h
  | cons t ts =>
    cases vs with
    | nil => simp [encodeFields] at h
    | cons v vs =>
      simp only [encodeFields, Option.bind_eq_bind] at h
      cases ha : encode t v with
      | none => simp [ha] at h
      | some a =>
        cases hb : encodeFields ts vs with
        | none => simp [ha, hb] at h
        | some b =>
          simp only [ha, hb, Option.bind_some, Option.pure_def, Option.some.injEq] at h; subst h
          simp only [decodeFields, List.append_assoc, Option.bind_eq_bind]
          rw [rt t v a (b ++ rest) ha]
          simp only [Option.bind_some]
          rw [rtFields ts vs b rest hb]
          simp
end
#print axioms rt
end Wire
