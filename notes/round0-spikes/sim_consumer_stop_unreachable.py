import asyncio, struct, io, heapq, time, sys, logging
from aiokafka.protocol.api import RequestStruct
import aiokafka.protocol.admin, aiokafka.protocol.metadata, aiokafka.protocol.produce, aiokafka.protocol.fetch
import aiokafka.protocol.offset, aiokafka.protocol.commit, aiokafka.protocol.group, aiokafka.protocol.coordination, aiokafka.protocol.transaction
from aiokafka.protocol.types import Int16, Int32, String
from aiokafka.record.default_records import DefaultRecordBatchBuilder

def all_subclasses(c):
    for s in c.__subclasses__():
        yield s; yield from all_subclasses(s)
REQ = {(c.API_KEY, c.API_VERSION): c for c in all_subclasses(RequestStruct)}

DOWN=[False]
class VLoop(asyncio.SelectorEventLoop):
    def __init__(self):
        super().__init__(); self._vt = 0.0
    def time(self): return self._vt
    def _run_once(self):
        if not self._ready and self._scheduled:
            while self._scheduled and self._scheduled[0]._cancelled:
                h = heapq.heappop(self._scheduled); h._scheduled = False
            if self._scheduled and self._scheduled[0]._when > self._vt:
                self._vt = self._scheduled[0]._when
        super()._run_once()
    async def create_connection(self, protocol_factory, host=None, port=None, **kw):
        if DOWN[0]: raise ConnectionRefusedError('down')
        proto = protocol_factory(); tr = FakeTransport(self, proto, host, port)
        self.call_soon(proto.connection_made, tr); await asyncio.sleep(0)
        return tr, proto

class FakeTransport(asyncio.Transport):
    def __init__(self, loop, proto, host, port):
        super().__init__(); self.loop, self.proto = loop, proto; self.closing=False; self.buf=b""
    def write(self, data):
        self.buf += bytes(data)
        while len(self.buf) >= 4:
            (n,) = struct.unpack(">i", self.buf[:4])
            if len(self.buf) < 4+n: break
            frame, self.buf = self.buf[4:4+n], self.buf[4+n:]
            self.loop.call_later(0.001, BROKER.handle, self, frame)
    def is_closing(self): return self.closing
    def close(self):
        if not self.closing:
            self.closing=True; self.loop.call_soon(self.proto.connection_lost, None)
    def abort(self): self.close()
    def get_extra_info(self, name, default=None): return default
    def reply(self, data):
        if not self.closing: self.proto.data_received(struct.pack(">i", len(data)) + data)

VERS = {0:(0,7),1:(0,11),2:(0,3),3:(0,5),8:(2,3),9:(1,3),10:(0,1),11:(0,5),12:(0,1),13:(0,1),14:(0,3),18:(0,2)}
class Broker:
    def __init__(self):
        self.trace=[]; self.gen=0; self.members={}; self.committed={}
        b = DefaultRecordBatchBuilder(2,0,0,-1,-1,0,100000)
        for i in range(5): b.append(i, 1000+i, b"k%d"%i, b"v%d"%i, [])
        self.batch = bytes(b.build())
    def handle(self, tr, frame):
        if DOWN[0]:
            tr.close(); return
        b = io.BytesIO(frame)
        api_key = Int16.decode(b); ver = Int16.decode(b); corr = Int32.decode(b); cid = String("utf-8").decode(b)
        cls = REQ[(api_key, ver)]; req = cls.decode(b); R0 = cls.RESPONSE_TYPE
        def R(**kw): return R0(**{n: kw.get(n) for n in R0.SCHEMA.names})
        self.trace.append((round(tr.loop.time(),3), cls.__name__, {k:(v if k!='group_protocols' else [p[0] for p in v]) for k,v in req.__dict__.items() if k in ('member_id','generation_id','group_protocols','topics','group_assignment')}))
        if api_key == 18:
            resp = R(error_code=0, api_versions=[(k,a,z) for k,(a,z) in VERS.items()], throttle_time_ms=0)
        elif api_key == 3:
            resp = R(throttle_time_ms=0, brokers=[(0,"b0",9092,None)], cluster_id="c", controller_id=0, topics=[(0,"t",False,[(0,0,0,[0],[0],[])])])
        elif api_key == 10:
            resp = R(throttle_time_ms=0,error_code=0,error_message=None,coordinator_id=0,host="b0",port=9092)
        elif api_key == 11:
            if req.member_id == "":
                resp = R(throttle_time_ms=0,error_code=79,generation_id=-1,group_protocol="",leader_id="",member_id="m1",members=[])
            else:
                self.gen += 1
                meta = dict(req.group_protocols)
                proto = req.group_protocols[0][0]
                resp = R(throttle_time_ms=0,error_code=0,generation_id=self.gen,group_protocol=proto,leader_id="m1",member_id="m1",members=[("m1",None,meta[proto])])
        elif api_key == 14:
            asg = dict(req.group_assignment)
            resp = R(throttle_time_ms=0,error_code=0,member_assignment=asg["m1"])
        elif api_key == 12: resp = R(throttle_time_ms=0,error_code=0)
        elif api_key == 13: resp = R(throttle_time_ms=0,error_code=0)
        elif api_key == 9:
            resp = R(throttle_time_ms=0, topics=[(t,[(p, self.committed.get((t,p),-1), "", 0) for p in ps]) for t,ps in req.topics], error_code=0)
        elif api_key == 8:
            for t,ps in req.topics:
                for p,off,meta in ps: self.committed[(t,p)] = off
            resp = R(throttle_time_ms=0, topics=[(t,[(p[0],0) for p in ps]) for t,ps in req.topics])
        elif api_key == 2:
            resp = R(throttle_time_ms=0, topics=[(t,[(p[0],0,-1,(0 if p[1]==-2 else 5)) for p in ps]) for t,ps in req.topics])
        elif api_key == 1:
            out=[]
            for t,ps in req.topics:
                po=[]
                for p in ps:
                    off = p[2] if ver>=9 else p[1]
                    data = self.batch if off < 5 else b""
                    po.append((p[0],0,5,5,0,[],-1,data))
                out.append((t,po))
            resp = R(throttle_time_ms=0,error_code=0,session_id=0,topics=out)
            if not any(d for _,po in out for *_,d in po):
                tr.loop.call_later(0.5, tr.reply, Int32.encode(corr)+resp.encode()); return
        else:
            raise RuntimeError(api_key)
        tr.reply(Int32.encode(corr) + resp.encode())

BROKER = Broker()
async def main():
    from aiokafka import AIOKafkaConsumer
    from aiokafka.coordinator.assignors.range import RangePartitionAssignor
    from aiokafka.coordinator.assignors.roundrobin import RoundRobinPartitionAssignor
    c = AIOKafkaConsumer("t", bootstrap_servers="b0:9092", group_id="g", auto_offset_reset="earliest",
                         partition_assignment_strategy=(RangePartitionAssignor, RoundRobinPartitionAssignor))
    await c.start()
    got=[]
    for _ in range(5):
        m = await c.getone(); got.append((m.offset, m.value, m.timestamp))
    print(got)
    await asyncio.sleep(1)
    DOWN[0]=True
    t0v = asyncio.get_event_loop().time()
    try:
        await asyncio.wait_for(c.stop(), 3600)
        print("stop returned after vt", asyncio.get_event_loop().time()-t0v)
    except asyncio.TimeoutError:
        print("stop() DID NOT RETURN within 3600 virtual seconds")
    for e in BROKER.trace:
        if e[1].startswith(("JoinGroup","SyncGroup","OffsetCommit","LeaveGroup")): print(e)
    print("committed", BROKER.committed, "vt", asyncio.get_event_loop().time())
    print("leftover tasks", [t for t in asyncio.all_tasks() if t is not asyncio.current_task()])
loop = VLoop(); asyncio.set_event_loop(loop)
t0=time.perf_counter(); loop.run_until_complete(main()); print("wall", time.perf_counter()-t0)
