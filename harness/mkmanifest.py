#!/usr/bin/env python3
"""writes /verif/MANIFEST.json from the table below (so it is always schema-valid)"""
import json
from pathlib import Path

VERIF = Path(__file__).resolve().parent.parent

CLAIMED = {
    "C17": dict(
        text="Lean 4 proof, for every key shorter than 2^32 bytes and every partition list, that the model of "
             "partitioner.murmur2/DefaultPartitioner (masked-Nat transcription of the Python) returns "
             "all[toPositive(javaMurmur2(key)) mod n] where javaMurmur2 is the BitVec-32 transcription of the Java "
             "client, independent of availability, and that an unkeyed record lands in `available` when non-empty. "
             "The model is tied to /repo by a differential check on every run (exhaustive keys of length 0..2, "
             "high-bit tails, random keys to 4 KiB, counts 1..1000, the producer._partition glue) and, statement by "
             "statement, by a translator (harness/extract/murmur.py) that regenerates Gen/MurmurSrc.lean from the source "
             "text of partitioner.py on every run; c17_source_is_model (the source is the program the model transcribes) "
             "is a proof obligation of the check.",
        design="3/C17",
        note="trusted: Lean kernel (+propext, Classical.choice, Quot.sound); my transcription of Java's "
             "Utils.murmur2; the T-diff harness and driver; random.choice as an index oracle.",
        technique="Lean 4 theorem (fun_induction over 4-byte words, BitVec bridging lemmas) + source-to-Lean translator regenerated every run + differential correspondence check",
    ),
    "C14": dict(
        text="Lean 4 proofs for every input (any number of members, topics, partitions): range assignor — the slices "
             "handed to the sorted subscribers of a topic concatenate to exactly its sorted partition list (exact "
             "cover with multiplicity, unique owner, nothing else, per-topic loads within one); round-robin — the "
             "member-cycling loop terminates within |members| steps per partition for every input, hands out every "
             "partition of every subscribed topic exactly once to a subscribed member, and with identical "
             "subscriptions the k-th partition goes to member k mod m so loads are within one. Both models are tied to "
             "/repo by byte-identical differential comparison on a slice (quick) or all (thorough) of the property's "
             "exhaustive space plus random inputs. PARTIAL for the sticky assignor: StickyAssignmentExecutor is ported to "
             "Lean (Model/StickyAlg.lean, ~350 lines, single-generation user data), tied by byte-identical T-diff, and its "
             "VALIDITY IS PROVED for every input, oracle and fuel: sticky_nothing_else (whatever a member gets is a "
             "listed partition of a topic it subscribes to) and sticky_exact_cover (every partition of every topic "
             "with metadata and a subscriber is handed to some member and never to two different members), by two "
             "invariants carried through _assign_partition, _move_partition incl. get_partition_to_be_moved, the "
             "set-aside / re-insertion of fixed consumers, the revert, and established for the state built from the user "
             "data (~2500 lines of Lean). NOT proved for the port: termination of _perform_reassignments (fuel) and "
             "KIP-54 balance: the Lean statement kip54B (soundness lemma proved) is evaluated on every explored "
             "output — first rounds and second rounds carrying the previous assignment as user data (members leave / "
             "join, subscriptions change, topics grow) — and non-termination / exceptions are findings.",
        design="3/C14",
        note="trusted: Lean kernel (+propext, Classical.choice, Quot.sound); T-diff harness, stub ClusterMetadata, "
             "zero-padded names; sticky assignor validity/balance only validated per explored input, not proved.",
        technique="Lean 4 theorems (list tiling, induction over the round-robin loop) + differential correspondence check; "
                  "sticky: Lean-defined checker evaluated on implementation output",
    ),
    "C11": dict(
        text="Lean 4 proof of a schema-generic round trip (decode (encode v ++ rest) = (v, rest) for every schema type "
             "built from the 18 wire types, by mutual induction) — hence for each of the ~216 struct classes, whose "
             "schemas are regenerated from /repo into Lean on every run; layout theorems for fixed-width "
             "big-endian integers and base-128/zig-zag varints; prepare(): chosen version is implemented, inside the "
             "broker range, the highest such, and disjoint ranges are rejected; kernel-decided table facts: every "
             "request's RESPONSE_TYPE has the request's API key and the schema of the response of the request's own "
             "version, flexible structs end in tagged fields, builder class lists are strictly increasing. The model "
             "is tied to /repo by differential encode/decode of every struct with random in-range values, boundary "
             "values of every primitive, prepare() over every builder × every range, and exhaustive builder "
             "parameter/version rules. PARTIAL: per-API field lists are not compared with an independent Kafka table.",
        design="3/C11",
        note="trusted: Lean kernel (+3 standard axioms); extractor harness/extract/schemas.py; T-diff harness; strings "
             "as UTF-8 bytes; hand-written BUILDER_RULES table of first-expressing versions.",
        technique="Lean 4 theorem (mutual induction over schema types) + source-to-Lean schema translator + differential correspondence check",
    ),
    "C12": dict(
        text="Lean 4 proofs about the model of AIOKafkaConnection (send with and without an expected reply / frame "
             "reader / _handle_frame / close / request timeout / cancellation): (1) chunk independence — feeding a then b equals feeding a++b, hence any "
             "fragmentation of the byte stream gives the same outcomes; (2) for every reachable state (any operation "
             "script, any starting counter < 2^31): no waiter is resolved twice; a delivered reply carries the "
             "correlation id assigned to that waiter's request (exact for every kind except the documented "
             "FindCoordinator-v0/0.8.2 quirk, for which a kernel-checked counterexample and a KNOWN-FINDING exist); "
             "deliveries are in request order; once closed nothing is queued and every waiter has an outcome; a "
             "waiter is resolved xor pending; correlation ids stay below 2^31 and two queued requests carry different "
             "ids unless 2^31 ids were consumed while the older one waited (requests without a reply consume ids but "
             "leave no waiter). Tie: the real connection object (real connect(), in-memory transport, virtual clock) and the "
             "model run the same scripts; all waiter outcomes, open/closed and pending sets are compared.",
        design="3/C12",
        note="trusted: Lean kernel (+3 standard axioms); harness/vtloop.py virtual clock and transport; asyncio "
             "StreamReader / async_timeout abstracted as in-order frame consumption and deadline-triggered done flags; "
             "the idle checker runs against a frozen real clock (ticks are no-ops; idle drops not modelled).",
        technique="Lean 4 invariant proofs over an executable state machine + differential correspondence check on the real connection object",
    ),
    "C15": dict(
        text="PARTIAL proof. The sticky assignor is ported to Lean (Model/StickyAlg.lean) and every explored round is "
             "compared byte for byte with the real assignor. Proved for the port, for every cluster layout, number of "
             "members and partitions, oracle and fuel >= 1: c15_identical_subscriptions_keep — when all members subscribe "
             "to the same topics, no member is new and the user data is well formed with sizes within one of each other "
             "(what a valid balanced previous round leaves to the survivors), the assignor returns normally and every "
             "member keeps every partition it held; departed members' and new partitions are handed out without moving "
             "anything (clauses (a) and (b) for identical subscriptions; hypotheses decided by keepHyp, counted per run). "
             "For arbitrary subscriptions: c15_keeps_when_fill_balanced_partial / c15_fixpoint_partial, conditional on the "
             "code's own _is_balanced accepting the assignment once the unassigned partitions are handed out (holds on "
             "about 89 % of explored second rounds). NOT proved: clause (c) (new members) and clause (a) for non-identical "
             "subscriptions without that hypothesis. Also machine-checked: the three stickiness clauses as Lean functions "
             "with soundness lemmas and the round trip of the real user-data struct (instance of C11's theorem over the "
             "regenerated schema). The check evaluates those statements on the real assignor for first rounds from the "
             "property's bounded space (slice in quick, all in thorough) followed by identical / minus-subset / "
             "plus-members second rounds, and random 5-round chains, with previous assignments carried through the real "
             "encoding; non-termination and exceptions are findings.",
        design="0.3/C15",
        note="trusted: Lean kernel; the port is tied to the code only by T-diff (byte-identical results, the one "
             "set-iteration choice recorded as oracle); single-generation user data (what the real coordinator produces); "
             "stub ClusterMetadata; zero-padded names. Clause (c) is explored, not proved.",
        technique="Lean 4 proof about a port of the algorithm (invariants over the fill loop, initial-state characterisation) + byte-identical T-diff + Lean-defined statements evaluated on the real assignor",
    ),
    "C18": dict(
        text="Machine-checked (Lean 4) theorems about an executable model of ScramAuthenticator over uninterpreted "
             "H/HMAC/Hi/base64. For every user name (any ',' '=' or non-ASCII), password, salt, iteration count "
             "1..2^31-1 and comma-free nonces, an RFC 5802 server holding StoredKey/ServerKey of the same password "
             "parses the client's messages, derives the same AuthMessage, verifies the proof, and the client completes. "
             "For every server-first whose nonce is missing or does not extend the client's, the client raises. The "
             "login completes iff v= decodes to HMAC(HMAC(Hi(pw,salt,i),'Server Key'),AuthMessage) for the delivered "
             "salt/i. All 13 theorems are full strength. The model is tied to the real class on every run by a "
             "byte-level differential check: model terms are evaluated with hashlib/hmac/base64 against an independent "
             "RFC 5802 server, honest and with every single field tampered; the Lean statement `holds` is evaluated on "
             "every observed login.",
        design="3/C18",
        note="trusted: Lean kernel with standard axioms; HMAC/H unforgeability is outside the model; base64 round trip, "
             "no-comma and equal digest lengths are hypotheses (XOR cancellation proved on byte lists); the RFC 5802 "
             "server transcription; SASLprep = identity (as in Kafka); int() modelled for ASCII text; base64 definedness "
             "oracle from CPython; term evaluator, harness and driver.",
        technique="Lean proof over abstract crypto + symbolic-term T-diff against an independent RFC 5802 server",
    ),
    "C08": dict(
        text="Machine-checked: for every well-formed partition log (any number of producers, interleaved "
             "committed/aborted/open transactions, compaction, solitary and emptied markers), every fetch offset and "
             "every cut, and every aborted-transaction list obeying the broker contract in any order, the model of "
             "PartitionRecords._unpack_records delivers at read_committed exactly the non-transactional and committed "
             "records of the returned range, at read_uncommitted every data record, never a marker (this clause for "
             "arbitrary batch sequences and index lists), leaves the position one past the last batch, strictly advances "
             "on every non-empty response, and any session of consecutive fetches concatenates to the same result. No "
             "theorem is partial. The model is tied to the code on every run by differential execution of the real "
             "classes on encoded logs (about 15 k fetches quick, 2.6 M thorough, both batch readers, whole sessions "
             "against an independent reference reader, and real FetchResponse v1..v11 structs through the real "
             "Fetcher._proc_fetch_request so that the aborted index and LSO handed to PartitionRecords are the "
             "response's), and the two transcriptions of the broker are cross-checked on every case.",
        design="3/C08",
        note="trusted: Lean kernel; the broker model (fetch range, LSO/HW bound, Kafka aborted-transaction index incl. "
             "log-cleaner retention) transcribed in Python and Lean and compared per case; the harness encoder; byte "
             "decoding (C09/C10) beyond six header accessors. Not proved: position after a partially consumed response "
             "(tied only; C03). Isolation level and fetch offset on the wire observed directly, no model; ApiVersions "
             "negotiation replaced by pinning each Fetch version. Assumes v2 batches and "
             "cleaner-consistent logs.",
        technique="Lean 4 proof (closed-form invariant + log semantics) + T-diff on real PartitionRecords/FetchResult over encoded logs",
    ),
    "C03": dict(
        text="Machine-checked Lean 4 proofs about an executable model of PartitionRecords._unpack_records, FetchResult and "
             "the position/seek/pause machine: exactly-once in-order delivery of the visible records from the start "
             "position for every well-formed log shape and every cut of the log into fetch answers (c03_unpack, "
             "c03_iterate), and in every reachable state of the partition machine under any interleaving of late answers, "
             "getone/getall, seek, pause and lookups (c03_delivered_exactly); the position bounds (c03_position_inv); "
             "seek taking effect for the very next record (c03_seek_next); silence while paused, unassigned or filtered "
             "out. Tied to the code on every run by three differential / trace layers on the real classes (unpack over "
             "encoded v0/v1/v2 logs with every cut; Fetcher+SubscriptionState scripts; the real consumer on the simulator "
             "with probe snapshots, incl. exact-tie fetch completions and applications that poll a strict subset of "
             "partitions sharing a leader; a spinning fetch loop is reported as livelock); the property checker holdsC03 "
             "is evaluated on every simulator trace. 'Continues to "
             "the end once faults cease' is c03_progress_partial: model-side progress plus a bounded virtual-time run.",
        design="3/C03",
        note="trusted: Lean kernel; the harness encoders, probe and driver glue; the simulator's Fetch semantics; record "
             "decoders (C09/C10), one wire format per response; aborted-batch skipping (C08); RecordTooLarge answers "
             "excluded from the honesty assumption.",
        technique="Lean 4 invariant proofs + 3-layer T-diff/T-trace with probe snapshots",
    ),
    "C13": dict(
        text="Machine-checked proofs about the per-partition automaton awaitingCommitted | awaitingReset | valid | error "
             "modelling Fetcher._update_fetch_positions, the out-of-range handling, seek_to and request_offset_reset: "
             "every start position is the committed offset, else the broker's answer for the policy, else an error for "
             "policy none (c13_start*); a seek always wins over any in-flight lookup or reset (c13_seek_precedence); "
             "seek_to_beginning/seek_to_end win on the repaired code (c13_seek_to_precedence, with a kernel-checked "
             "counterexample for the code before the fix). Tied by trace validation with state snapshots: exhaustive "
             "event insertion on the real Fetcher (rig), and the real consumer on the simulator across 35 "
             "configurations (committed absent/inside/below/beyond/zero x policy x isolation x group/group-less), "
             "ListOffsets v0-v3, lookup faults, a seek at every event index, staggered committed-offset lookups and "
             "repeated (re-)assignments of group-less consumers.",
        design="3/C13",
        note="trusted: Lean kernel; probe and driver glue; simulator semantics of OffsetFetch / ListOffsets / out-of-range; "
             "the coordinator's delivery of the committed offset is covered by traces only.",
        technique="Lean 4 automaton invariants + exhaustive-interleaving trace validation",
    ),
    "C04": dict(
        text="Lean 4 proofs over every history accepted by an executable acceptor of consumer-group histories (ownership "
             "epochs per member incarnation and partition, positions, committed-offset store; any visibility predicate). "
             "Every OffsetCommit entry from any source, stored or refused, lies at or after a start offset the member was "
             "given, with every visible record in between already handed to the application by that member. Every stored "
             "commit and every offset a new owner is started at has all visible records below it delivered by earlier "
             "owners, by induction over ownership epochs, wherever members were killed, stopped or rebalanced. A member "
             "delivers only at or above the committed offset (or the reset position, only after 'no committed offset') it "
             "was started at, skipping nothing visible. Tie: real AIOKafkaConsumer group members run on the simulator "
             "(kills, stops, joins, auto-commit timers racing deliveries, commit(), failing commit replies, coordinator "
             "failover, subscription and partition-count changes, transactional producers, hand-outs that raise in the "
             "middle: key/value deserializers failing on chosen records and one-shot CRC corruption of a served batch, "
             "after which the application keeps polling and committing); the recorded history must be "
             "accepted by the Lean acceptor with the simulated logs as visibility ground truth, and the property is also "
             "evaluated directly on the observations.",
        design="3/C04",
        note="trusted: Lean kernel (+propext, Classical.choice, Quot.sound); harness/sim logs and offset store (re-derived "
             "by Env guards, exit 2 on disagreement); hooks and token translation in harness/checks/group_common.py; "
             "auto_offset_reset=earliest with an unmoved log start, no seek(); crash points, fault placements and "
             "schedules of the implementation are sampled; liveness is not claimed; the isolation filter is C08's.",
        technique="Lean 4 trace-indexed invariant proofs over an executable acceptor + trace validation of real group members on the simulator",
    ),
    "C05": dict(
        text="Lean 4 proofs over every history accepted by the member/coordinator acceptor (delivery gate, revoke-done "
             "flag, pending SyncGroup result, per-epoch fetches; coordinator join barrier and once-per-generation "
             "assignment). Adopted partitions equal what the leader's accepted SyncGroup gave the member, and assignment() "
             "equals the latest adoption. Adoptions of different members in one generation are disjoint and lie within "
             "the topics each member advertised when joining. After a revoke callback starts, or the subscription "
             "changes, nothing is delivered until a later adoption containing the partition. A delivered record comes from "
             "a Fetch issued and answered after the latest adoption or subscription change. Every member of a generation "
             "finished its revoke callback before the coordinator formed it, hence before any assign callback for it. "
             "Tie: the recorded history of real AIOKafkaConsumer members (1-4 slots, restarts, three assignors, pattern "
             "and differing subscriptions, kills, faults, failover) must be accepted; the clauses are also evaluated "
             "directly on the observations.",
        design="3/C05",
        note="trusted: Lean kernel (+3 standard axioms); simulator coordinator semantics (re-derived by Env guards); hooks "
             "and translation; validity of the leader's assignment is checked on every history rather than proved here "
             "(C14); one assignor per member; schedules sampled.",
        technique="Lean 4 trace-indexed invariant proofs over an executable acceptor + trace validation of real group members on the simulator",
    ),
    "C01": dict(
        text="Machine-checked for every history the per-partition acceptor accepts: single flight; the log is accepted "
             "records in acceptance order, duplicated only as whole consecutive re-sent batches; idempotent: at most once, "
             "acknowledged => appended, per-task order. Sequence range and no gap/reuse are proved for the Kafka-rule "
             "increment and, as _partial, for the code as it is (counter below 2^31, no batch given up), with "
             "kernel-checked counterexamples for both provisos (two KNOWN-FINDINGs: negative wrap pinned by the test "
             "suite; expiry of an idempotent batch while its leader is unknown). Every run feeds the real producer's "
             "histories under seeded fault schedules (drops before/after apply, lost replies, NOT_LEADER & co, leader "
             "migration, stale metadata, counters near 2^31) to the acceptor, compares its log with the simulated "
             "cluster's, and evaluates the Lean holds functions on the ground truth. Progress only on the model "
             "(c01_progress_partial).",
        design="3/C01",
        note="trusted: Lean kernel; Env Broker (Kafka idempotent append; re-derived on every trace, disagreement with the "
             "simulator is exit 2); the 'no ghost application' assumption; the simulator, observation wrappers and the "
             "projection to one partition; code between two observed events is covered only by the traces.",
        technique="Lean 4 trace acceptor + invariants; trace validation of the real producer on the simulator",
    ),
    "C02": dict(
        text="Machine-checked: done() gives every pending future its own record's offset, timestamp and type; results "
             "are final; done/noack/failure cover every future; reply layout per version; on accepted histories: "
             "resolved at most once, results are the true coordinates in the broker log, flush()/stop() return only "
             "after earlier records are resolved, acks=0 => no metadata; idempotent: failure only through a "
             "non-retriable reply or a give-up (partial, KNOWN-FINDING with kernel-checked witness). Tied by T-diff on "
             "the real MessageBatch and handle_response (v0-v8) and by trace validation of the real producer on the "
             "simulator. Bounded-time resolution is proved only as one quiet round on the model and explored on the "
             "simulator.",
        design="3/C02",
        note="trusted: as C01; LogAppendTime only with Produce >= v2; send_batch per-record results derived from the "
             "batch future.",
        technique="Lean 4 model of batch resolution (T-diff) + trace acceptor (trace validation on the simulator)",
    ),
    "C09": dict(
        text="Machine-checked Lean 4 proofs over executable models of the record codec: canonical varint/CRC-32C "
             "definitions and both implementations' variants; the Kafka v0/v1/v2 format definition with generic "
             "round-trip and header well-formedness theorems for every lawful codec and attribute combination; both "
             "builders proved equal to the format encoder on the records they accept, both readers proved to return "
             "the stored records (hence cross-decoding); both splitters proved to cut any mixed-format concatenation "
             "with a trailing partial batch; size accounting and the batch-size rule proved per implementation. All 31 "
             "theorems are full strength; the mixed-magic splitter defect was repaired (fix commit) and its defective "
             "variant is kept with a kernel-checked counterexample. On every run the models are tied to the pure-Python "
             "codec and to a Cython codec rebuilt from the .pyx by differential comparison of builders, readers and "
             "splitters, and the layout constants/CRC table are re-extracted and re-checked by `decide`.",
        design="0.3/C09",
        note="trusted: Lean kernel; the transcription of the Kafka formats (cross-checked against real broker bytes); "
             "compression codecs as a parameter with decompress(compress x) = x; C code (crc32c.c, zlib crc32, byte "
             "swaps) tied only by T-diff; readers modelled as records-or-failure (failure kinds are C10); UTF-8 "
             "header-key encoding; harness, extractor and driver (thorough tier injects two known divergences and must "
             "see them).",
        technique="Lean 4 proof (induction / invariants) + T-extract of layouts + two-implementation differential tie",
    ),
    "C16": dict(
        text="Machine-checked Lean theorems about an executable automaton of the transactional producer at quiescent "
             "points, for every call sequence and any one fault at any transactional request. An out-of-order call "
             "raises with no effect on cluster, manager, requests or futures. After an abortable error commit raises "
             "it, abort returns, and a new transaction succeeds while nothing of the aborted one is ever readable. "
             "After a fatal error every later call raises and nothing more is written. The 7x7 transition table is "
             "regenerated from the source on every run and proved equal to the model's by `decide`. The automaton is "
             "tied to the real AIOKafkaProducer exhaustively: all call sequences of length <= 4 (quick) or <= 5 plus a "
             "sampled length 6 (thorough) x every fault at every request, comparing call results, requests seen by "
             "brokers, futures, manager state, read-committed views and group offsets. One clause is partial: a fencing "
             "/ sequence error answered to a Produce only fails the batch (known finding, kernel-checked "
             "counterexample).",
        design="0.3/C16",
        note="trusted: Lean kernel (propext, Quot.sound); the Env model (coordinator, markers, pending offsets) and the "
             "simulator, compared per case; harness canonicalisation; quiescence between calls (several calls in "
             "flight is C07's tie); asserts enabled (no python -O).",
        technique="Lean proof (API automaton + Env) + T-extract of the transition table + exhaustive T-trace vs the real producer",
    ),
    "C07": dict(
        text="Two machine-checked layers. For every sequential program (including kill and restart) with any one "
             "fault, the API automaton over a coordinator / log environment satisfies read-committed atomicity of "
             "records and offsets, the three protocol-order clauses on the request log, and 'retriable faults alone "
             "never fail a call or a send' (partial: no clock, one fault). For arbitrary histories a trace acceptor is "
             "proved atomic: whatever it accepts, committed-and-acknowledged records are readable and aborted or "
             "fenced ones never are; the acceptor also enforces produce-after-add (coordinator side and as the client "
             "saw the acknowledgement), no data outside the transaction, the transactional flag in every batch and "
             "EndTxn only after all acks. On every run seeded concurrent workloads of the real producer (several "
             "incarnations, zombies, send() and create_batch()/send_batch(), offsets maps of 1-3 partitions, retriable, "
             "connection, authorization and non-retriable Produce faults at all seven transactional request types, "
             "slow coordinators and leaders, 186 exact schedules) are validated through the acceptor, cross-checked against the simulator's logs "
             "and compared with an independent read-committed reader. Liveness on the implementation is a bounded "
             "virtual-time observation.",
        design="0.3/C07",
        note="trusted: Lean kernel; Env (transcription of Kafka transaction semantics, compared with the simulator on "
             "every trace); simulator; trace->event translation; schedules and fault placements are sampled, not "
             "exhaustive.",
        technique="Lean proof (API automaton + trace acceptor over Env) + T-trace of concurrent workloads + independent read-committed reader",
    ),
    "C10": dict(
        text="Machine-checked proof that the models of all eight record-decoder entry points (compiled and pure-Python "
             "DefaultRecordBatch, LegacyRecordBatch, MemoryRecords, varint) never read outside the supplied buffer, "
             "terminate, and end only in records or an ordinary exception, for every byte string and every codec "
             "behaviour; validate_crc() is proved to equal the true CRC-32C/CRC-32 comparison in all four batch classes. "
             "The models follow the Cython sources access by access (every read through a bounds-faulting rd, "
             "Py_ssize_t overflow, negative-size allocation, fuelled loops). Each of the seven defects repaired for "
             "this property carries a kernel-checked witness on the unrepaired model. On every run the models are "
             "compared with the real decoders, rebuilt from the .pyx (plain, AddressSanitizer, guard page) and pure "
             "Python, on ~18k (quick) / ~270k (thorough) hostile byte strings: outcome class, checksum result and "
             "every decoded record.",
        design="0.3/C10",
        note="trusted: hand transcription of the decoders (tied only as far as generated inputs reach); C modelled as "
             "reads + index arithmetic + PyBytes_FromStringAndSize, int64 offset arithmetic assumed to wrap; CPython "
             "slicing/struct/utf-8 semantics as transcribed; codecs are an oracle (real calls recorded and handed to "
             "the model); buffers < 2^62 bytes; ASan cannot see the NUL behind a bytes object (a 1-byte over-read "
             "inside a decompressed payload is covered by proof only); harness and driver.",
        technique="Lean 4 proof over access-level decoder models + T-diff under ASan / guard page / kill timer",
    ),
    "C06": dict(
        text="Lean 4 proofs about an acceptor of a group member's own request/outcome history (model of "
             "GroupCoordinator: coordinator lookup, perform_group_join, sync, heartbeat, commit, leave). In every "
             "accepted history (1) every JoinGroup carries exactly the configured strategies in order; (2) a JoinGroup "
             "success is followed, among JoinGroup/SyncGroup requests, by the SyncGroup of that generation and member "
             "id unless a fault or subscription change intervenes; (3) a settled member with error-free replies sends "
             "only Heartbeat/OffsetCommit/OffsetFetch. The set simulation run by the check is proved to decide "
             "acceptance. The real members' histories (probe around client.send, simulated coordinator with seeded "
             "faults, 1-4 members, 1-3 assignors, JoinGroup v0-v5) are validated by the acceptor on every run, and the "
             "statements are also evaluated on the wire. PARTIAL: convergence is proved for a closed counting "
             "abstraction (every schedule shorter than a rank, stuck => converged, converged => quiescent); the "
             "implementation's convergence, coverage, continued heartbeating and 'no further rebalance' are observed "
             "for bounded virtual time after a quiet point.",
        design="0.3/C06",
        note="trusted: Lean kernel (propext, Classical.choice, Quot.sound); simulated group coordinator (harness/sim); "
             "probe and field extraction; closed system tied to the member automaton only by bridge lemmas; request "
             "timeout > rebalance timeout assumed; not generated: pattern subscriptions, unsubscribe(), static membership.",
        technique="Lean 4 nondeterministic acceptor + simulation proofs + ranking argument; trace validation on the simulator",
    ),
    "C19": dict(
        text="Lean 4 proofs about a model of stop() as a program over wait points with an adversarial environment. The "
             "consumer's stop() ends within (8+2*nodes)*3*request_timeout + 3*backoff from every position of the "
             "coordination routine. While closing a commit is attempted once and no coordinator lookup is made. "
             "Everything the client created is released and later calls return the documented errors. In every accepted "
             "member history stop() returns only after a LeaveGroup unless the member had no generation or no known "
             "coordinator. PARTIAL: producer.stop() is bounded only for the plain producer; for the "
             "idempotent/transactional producer a kernel-checked unbounded witness exists (KNOWN-FINDING). Tie: real "
             "clients on the simulator, stop() after every k-th trace event of 7 workloads under 8 cluster conditions; "
             "duration against the Lean bound, leftover tasks/timers/transports, later calls, group membership and the "
             "closing phase of the member acceptor are checked on every stop.",
        design="0.3/C19",
        note="trusted: Lean kernel (+3 standard axioms); harness/sim virtual time (hang = 240 virtual s); owner "
             "attribution via context variable; the wait-point list is a transcription tied by bound/leftovers/acceptor "
             "only; MEMBER_ID_REQUIRED at most once per rejoin; user callbacks instantaneous; stop() concurrent with "
             "start() not explored.",
        technique="Lean 4 bound/resource proofs over a shutdown program + closing-phase acceptor; trace validation on the simulator",
    ),
}

NOT_YET = {}


def main():
    props = [json.loads(l) for l in (VERIF / "properties.jsonl").read_text().splitlines() if l.strip()]
    checks, na = [], []
    for p in props:
        pid = p["id"]
        if pid in CLAIMED:
            c = CLAIMED[pid]
            checks.append({
                "property_id": pid,
                "quick_cmd": f"bin/check {pid} --tier quick",
                "thorough_cmd": f"bin/check {pid} --tier thorough",
                "evidence_file": f"evidence/{pid}.json",
                "replay_cmd_template": f"bin/check {pid} --replay {{path}}",
                "engine": "akverif-lean",
                "level_claimed": {"category": c.get("category", "proof"), "text": c["text"], "design_ref": c["design"]},
                "level_note": c["note"],
                "technique": c["technique"],
            })
        else:
            na.append({"property_id": pid, "reason": NOT_YET.get(
                pid, "not claimed yet: the Lean model / correspondence check for this property is not built in "
                     "this snapshot (the technique applies; see DESIGN.md section 3 for the plan)")})
    man = {
        "version": 1,
        "setup_cmd": "bin/setup",
        "hooks": {
            "guard": "AIOKAFKA_VERIF",
            "enable": "no source hooks: the harness attaches from outside (PYTHONPATH=/repo, scratch builds of the "
                      "extension, in-process simulator); AIOKAFKA_VERIF is reserved and unused",
            "baseline_off_cmd": "cd /repo && /venv/bin/python -m pytest -ra -q -p no:cacheprovider --timeout=900 "
                                "--continue-on-collection-errors",
            "source_commits": [],
            "add_only": True,
        },
        "engines": [{
            "name": "akverif-lean", "path": "lean/", "serves_properties": sorted(CLAIMED),
            "kind_free_text": "Lean 4 models + theorems (lake build, #print axioms audit) tied to /repo by "
                              "differential / trace correspondence checks driven from harness/",
        }],
        "checks": checks,
        "not_applicable": na,
        "notes": "Every check: regenerate extracted tables from /repo, lake build the property theorems, audit axioms, "
                 "run the correspondence check against /repo's working tree, and on any break search for a failing "
                 "input with the Lean statement evaluated on the implementation's observations. Exit 2 = harness trouble.",
    }
    (VERIF / "MANIFEST.json").write_text(json.dumps(man, indent=1) + "\n")


if __name__ == "__main__":
    main()
