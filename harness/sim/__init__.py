"""harness/sim - simulated Kafka cluster on a virtual-time asyncio loop (see SPEC.md).

Importing this package has no side effects.  The public API is documented at the top of
``cluster.py``.
"""

from .cluster import SimCluster, SimNode
from .errors import SimBug, SimDeadlock, SimTimeout
from .faults import Fault, FaultSchedule, random_faults
from .log import PartitionLog, StoredBatch
from .vloop import EPOCH, SimTransport, VLoop, leftover_empty, now_ms, run, virtual_time

__all__ = [
    "SimCluster",
    "SimNode",
    "SimBug",
    "SimDeadlock",
    "SimTimeout",
    "Fault",
    "FaultSchedule",
    "random_faults",
    "PartitionLog",
    "StoredBatch",
    "EPOCH",
    "SimTransport",
    "VLoop",
    "leftover_empty",
    "now_ms",
    "run",
    "virtual_time",
]
