"""Exceptions of the simulator (kept in their own module so every file can import them)."""


class SimBug(Exception):
    """The simulator itself is wrong (or was used wrongly).  Never a finding about aiokafka.

    Raised loudly: an exception inside a broker callback, an undecodable request, a
    response the real client failed to decode, a missing response field, ...
    """


class SimTimeout(Exception):
    """Virtual time exceeded ``max_vt`` while the main coroutine was not done (a hang)."""


class SimDeadlock(SimBug):
    """The loop has nothing ready and no timer, but the main coroutine is not done."""
