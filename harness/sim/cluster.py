"""In-memory simulated Kafka cluster for the real aiokafka clients (see SPEC.md).

README - the public API workloads may rely on
=============================================

Running
-------
    from sim import SimCluster, Fault, random_faults, run, now_ms, leftover_empty, SimTimeout, SimBug
    cluster = SimCluster(nodes=2, topics={"t": 3}, seed=7)
    result  = run(main(cluster), cluster, max_vt=600.0)   # main uses AIOKafkaProducer(bootstrap_servers="b0:9092,b1:9092") ...
    cluster.trace            # the event list
    cluster.leftover         # {"tasks": [...], "timers": [...], "transports": [...], "errors": [...]}
                             # taken right after main() finished;  leftover_empty(cluster.leftover) -> bool

``run(coro, cluster, *, max_vt=3600.0, grace=120.0)`` creates a ``VLoop`` bound to the cluster, patches
``time.monotonic`` / ``time.time`` (= 1_600_000_000 + virtual seconds), seeds the global ``random`` module
(aiokafka picks nodes with it) from ``cluster.seed``, runs ``coro`` and returns its result.
  * ``SimTimeout``: virtual time passed ``max_vt`` (relative to the start of this run) and ``coro`` was not
    done - a hang.  ``exc.where`` / the message name the await chain it was stuck in; ``cluster.leftover``
    lists the tasks still alive with the line they wait at.
  * ``SimBug`` (``SimDeadlock``): the simulator failed (exception in a broker callback, reply the client
    could not decode, undecodable request, livelock of the loop, ...).  Never a finding about aiokafka.
  * A cluster may be ``run`` several times: clock, logs, groups, transactions and timers carry over,
    connections do not.
Determinism: same seed + same workload => same trace, provided (1) ``PYTHONHASHSEED`` is fixed (aiokafka
iterates over sets of strings; ``sim.selftest`` re-executes itself with ``PYTHONHASHSEED=0``) and (2) the
workload passes ``timestamp_ms=now_ms()`` (or any explicit value) to ``producer.send``: the compiled record
builder stamps records with C ``gettimeofday()``, which no Python patch reaches.
Virtual clock: values lie on a 2**-20 s grid; when the only thing left to do is a zero-length timer
(``wait(timeout=0)``) one tick passes, because library code such as ``if now > deadline`` relies on real
clocks moving.  The broker handles one request per connection at a time (Kafka mutes a channel while a
request is in flight): a parked JoinGroup or a long-polling Fetch delays whatever is queued behind it on
the same connection, exactly as with a real broker.

Constructor
-----------
``SimCluster(nodes=1, topics={"t": 3}, seed=0, api_versions=None, auto_create=False, *,
             jitter=0.0, default_partitions=1)``
  node ``i`` listens on ``("b{i}", 9092)``; partition ``p`` of a topic is led by node ``p % nodes``
  (topics created later continue round-robin).  ``api_versions={api_key_or_name: (min, max)}``
  overrides the advertised ranges (default: Kafka 2.x clamped to what aiokafka has classes for:
  Produce 0-8, Fetch 0-11, ListOffsets 0-5, Metadata 0-5, OffsetCommit 0-3, OffsetFetch 0-3,
  FindCoordinator 0-1, JoinGroup 0-5, Heartbeat 0-1, LeaveGroup 0-1, SyncGroup 0-3, ApiVersions 0-2,
  InitProducerId / AddPartitionsToTxn / AddOffsetsToTxn / EndTxn / TxnOffsetCommit 0).
  ``jitter`` > 0 adds ``rng.random()*jitter`` seconds to every one-way latency (default 1 ms) so that
  replies of different brokers arrive in seed-dependent order.

Tunables (plain attributes)
---------------------------
  ``connect_delay=0.001``  ``base_latency=0.001``  ``txn_completion_delay=0.0``
  ``group_initial_rebalance_delay=0.0``  ``coordinator_load_time=0.0`` (COORDINATOR_LOAD_IN_PROGRESS
  window after a stateless coordinator move)  ``enforce_txn_timeout=False``
  ``paranoid=False`` (re-decode every reply and every stored batch)  ``trace_enabled=True``
  ``topic_config[name] = {"log_append_time": True}``
  ``latency(node_id, rng) -> seconds`` and ``fetch_cut(tp, n_available, rng) -> 1..n`` may be replaced by
  assignment (``cluster.fetch_cut = lambda tp, n, rng: n``).

Topology / environment steps (call them from the workload or from a ``Fault(kind="call")``)
--------------------------------------------------------------------------------------------
  ``add_topic(name, n)``  ``add_partitions(name, n_total)``  ``set_leader(tp, node_or_-1)``
  ``kill_node(i, migrate_leaders=False)``  ``revive_node(i)``  ``stale_metadata(n)``
  ``coordinator_for(kind, key) -> node id``   (kind = "group" | "txn"; default node 0)
  ``move_coordinator(kind, key, node, keep_state=True)``
  ``deny_topic(t)  deny_group(g)  deny_txn_id(x)``  (``allow_*`` undo them)
  ``delete_records(tp, before_offset)``   (moves log_start: provokes OFFSET_OUT_OF_RANGE)
  ``abort_client(client_id)``             (broker side closes all connections of that client; to "kill a
                                           member" also cancel its tasks in the workload)
  ``endpoint(host, port) -> SimNode | None``,  ``now() -> virtual seconds``,  ``leaders()``
  ``tp`` is always a ``(topic, partition)`` tuple (an aiokafka ``TopicPartition`` is accepted too).
  A dead node disappears from Metadata; partitions it leads are reported leader=-1 / LEADER_NOT_AVAILABLE
  until ``set_leader`` (or ``migrate_leaders=True``) moves them.  Logs are cluster-wide: no data is lost.

Faults  (``from sim import Fault, random_faults``; full description in faults.py)
--------------------------------------------------------------------------------
  ``cluster.faults.add(Fault(kind, *, api=None, node=None, nth=None, client=None, count=1,
                             code=None, tp=None, seconds=None, fn=None, label=None))``
  kind in ``drop_before | drop_after | lose_reply | error | delay | call``;  ``api`` = key or name;
  ``nth`` = 0-based ordinal among the requests matching (api, node, client[, tp]);  ``count=None`` = for ever.
  ``call``: ``fn(cluster, rq)`` runs before the request is handled (``rq.api, rq.client, rq.node.id, rq.req``).
  ``random_faults(rng, p, kinds, apis, *, horizon=200, codes=None, seconds=(0.05, 2.0)) -> [Fault]``
  (add them with ``cluster.faults.extend(...)``).

Ground truth
------------
  ``log(tp) -> PartitionLog``  (``.batches .log_start .leo .hw .lso() .aborted_index .open_txns .producers
                                .seed_producer(pid, epoch, last_seq)``, see log.py)
  ``read_committed(tp)`` / ``read_uncommitted(tp)`` -> ``[(offset, key, value, ts, headers)]``
  ``committed(group) -> {(topic, partition): offset}``
  ``group(group) -> dict``: state, generation, protocol, leader, members{id: {client, protocols,
      assignment (hex), assigned [(topic, partition)]}}, pending_members, committed,
      pending_txn_offsets, history [{generation, vt, protocol, leader, members, assignments, assigned}]
  ``txn_state() -> {txid: {pid, epoch, state, partitions, groups}}``

Trace  (``cluster.trace``: list of dicts in program order; every dict has ``vt`` (virtual ms, int) and ``ev``)
---------------------------------------------------------------------------------------------------------
  ``connect``   client, node, conn                      (written when the first request reveals the client id)
  ``conn_lost`` client, node, conn, by  (``client | drop_before | drop_after | kill | abort``; once per connection)
  ``request``   client, node, conn, corr, api (name), version, fields
  ``reply``     client, node, conn, corr, api, version, fields  [+ fault=``drop_after|lose_reply`` (applied,
                nothing sent) | undelivered=True (connection already gone)]; acks=0 Produce: no reply event
  ``apply``     node, tp, pid, epoch, seq, n, outcome (``append | duplicate | error | commit_marker |
                abort_marker``), error (code), base_offset, client, corr
  ``txn``       txid, op (``init | add_partitions | add_offsets | end | fence_abort | timeout_abort |
                complete``), outcome (error code / state), pid, epoch, ...            (txn.py)
  ``group``     group, op (``join | sync | heartbeat | leave | commit | fetch_offsets | txn_commit |
                txn_offsets_commit | txn_offsets_abort | prepare_rebalance | generation | stable | expire |
                evict | expire_pending | reset``), member, generation, outcome (error code, ``"parked"`` =
                reply withheld), ...                                              (group.py)
  ``metadata``  node, client, stale, leaders=[[topic, partition, leader], ...]
  ``fault``     the fired fault (kind, api, nth, code, ...) + client, node, conn, corr
  ``env``       op (``set_leader | kill_node | revive_node | add_topic | add_partitions |
                move_coordinator | stale_metadata | delete_records | deny | allow``) + arguments
  ``fields`` of requests / replies are the library's decoded struct rendered by schema field names
  (bytes as hex), except the two bulky ones:
    Produce request  ``{acks, timeout, txid, partitions: [{topic, partition, magic, pid, epoch, base_seq,
                       is_txn, n, nbatches, records: [latin-1 str], keys: [...], timestamps: [...]}]}``
    Produce reply    ``{partitions: [{topic, partition, error, offset, timestamp, log_start}]}``
    Fetch request    ``{max_wait, min_bytes, max_bytes, isolation, partitions: [{topic, partition,
                       offset, max_bytes}]}``
    Fetch reply      ``{partitions: [{topic, partition, error, hw, lso, log_start, aborted:
                       [[pid, first_offset]], batches: [[base_offset, last_offset]], nbytes}]}``

Broker semantics where SPEC.md / Appendix F left a choice (all follow Kafka 2.x)
-------------------------------------------------------------------------------
  * OffsetCommit from a known member of the current generation is accepted in Stable *and*
    PreparingRebalance (that is what makes "commit before rejoin" work), refused with 27 only in
    CompletingRebalance;  generation -1 + empty member id is always accepted.
  * Heartbeat answers 27 in PreparingRebalance and CompletingRebalance (and refreshes the session).
  * A member re-joining with unchanged metadata gets the current generation again (followers in Stable,
    anyone in CompletingRebalance); changed metadata, or the leader re-joining in Stable, starts a rebalance.
  * Session expiry is suspended while the member's JoinGroup / SyncGroup is parked.
  * EndTxn repeated after it was applied (same result) succeeds; EndTxn with nothing ongoing otherwise -> 48.
  * InitProducerId on an id with an ongoing transaction: epoch+1, abort markers, (51 while completing), epoch+1.
  * Markers are written at the instant EndTxn is applied, whatever the state of the partition leaders.
  * Legacy (magic 0/1) produce payloads are up-converted to one v2 batch; fetches are never down-converted.
  * Static membership (group_instance_id) is ignored.
"""

from __future__ import annotations

import random

from .errors import SimBug
from .faults import FaultSchedule
from .group import Group
from .log import (
    CTRL_COMMIT,
    PartitionLog,
    split_payload,
)
from .proto import (
    API_NAMES,
    api_key_of,
    decode_request,
    default_api_versions,
    encode_response,
    make_response,
    render_struct,
    text,
)
from .txn import TxnCoordinator
from .vloop import EPOCH

__all__ = ["SimCluster", "SimNode"]

E_OFFSET_OUT_OF_RANGE = 1
E_CORRUPT_MESSAGE = 2
E_UNKNOWN_TOPIC_OR_PARTITION = 3
E_LEADER_NOT_AVAILABLE = 5
E_NOT_LEADER = 6
E_COORDINATOR_LOAD_IN_PROGRESS = 14
E_COORDINATOR_NOT_AVAILABLE = 15
E_NOT_COORDINATOR = 16
E_GROUP_AUTHORIZATION_FAILED = 30
E_TRANSACTIONAL_ID_AUTHORIZATION_FAILED = 53


def _tp(tp):
    return (tp[0], tp[1])


class SimNode:
    __slots__ = ("id", "host", "port", "up", "conns")

    def __init__(self, node_id):
        self.id = node_id
        self.host = f"b{node_id}"
        self.port = 9092
        self.up = True
        self.conns = []

    def __repr__(self):
        return f"<SimNode {self.id} {'up' if self.up else 'DOWN'} conns={len(self.conns)}>"


class SimTimer:
    """A simulator timer that survives re-binding the cluster to a new loop."""

    __slots__ = ("cluster", "when", "fn", "args", "handle", "active")

    def __init__(self, cluster, when, fn, args):
        self.cluster = cluster
        self.when = when
        self.fn = fn
        self.args = args
        self.handle = None
        self.active = True

    def arm(self, loop):
        self.handle = loop.sim_call_at(self.when, self._fire)

    def _fire(self):
        if not self.active:
            return
        self.active = False
        self.cluster._timers.pop(id(self), None)
        self.fn(*self.args)

    def cancel(self):
        if self.active:
            self.active = False
            self.cluster._timers.pop(id(self), None)
            if self.handle is not None:
                self.handle.cancel()


class Rq:
    """One request being handled."""

    __slots__ = (
        "conn",
        "node",
        "api_key",
        "api",
        "version",
        "corr",
        "client",
        "req",
        "cls",
        "inject",
        "delay",
        "mode",
        "done",
        "parsed",
    )

    def __repr__(self):
        return (
            f"<Rq {self.api} v{self.version} corr={self.corr} client={self.client!r} "
            f"node={self.node.id}>"
        )


class PendingFetch:
    __slots__ = ("rq", "parts", "isolation", "deadline", "logs", "timer", "scheduled")


class SimCluster:
    def __init__(
        self,
        nodes=1,
        topics=None,
        seed=0,
        api_versions=None,
        auto_create=False,
        *,
        jitter=0.0,
        default_partitions=1,
    ):
        if topics is None:
            topics = {"t": 3}
        self.seed = seed
        self.rng = random.Random(f"sim/{seed}")
        self.rng_latency = random.Random(f"sim/{seed}/latency")
        self.rng_fetch = random.Random(f"sim/{seed}/fetch")
        self.nodes = [SimNode(i) for i in range(nodes)]
        self._endpoints = {(n.host, n.port): n for n in self.nodes}
        self.auto_create = auto_create
        self.default_partitions = default_partitions
        self.jitter = jitter

        self.api_versions = default_api_versions()
        for k, rng_ in (api_versions or {}).items():
            self.api_versions[api_key_of(k)] = (int(rng_[0]), int(rng_[1]))

        # tunables
        self.connect_delay = 0.001
        self.base_latency = 0.001
        self.txn_completion_delay = 0.0
        self.group_initial_rebalance_delay = 0.0
        self.coordinator_load_time = 0.0
        self.enforce_txn_timeout = False
        self.paranoid = False
        self.trace_enabled = True
        self.topic_config = {}

        # state
        self.topics = {}  # name -> number of partitions
        self.logs = {}  # (topic, partition) -> PartitionLog
        self._leaders = {}  # (topic, partition) -> node id or -1
        self._prev_leaders = None  # leader map before the latest change (stale metadata)
        self._stale_left = 0
        self._rr = 0  # round-robin cursor for leader assignment
        self._coordinators = {}  # (kind, key) -> node id
        self._loading_until = {}  # (kind, key) -> vt until which LOAD_IN_PROGRESS is answered
        self.groups = {}
        self.txn = TxnCoordinator(self)
        self.denied_topics = set()
        self.denied_groups = set()
        self.denied_txn_ids = set()
        self.faults = FaultSchedule()
        self.trace = []
        self.leftover = None
        self.loop = None
        self.last_vt = 0.0
        self.runs = 0
        self._timers = {}
        self._conn_seq = 0
        self._member_seq = 0
        self.n_requests = 0

        self._handlers = {
            0: self._h_produce,
            1: self._h_fetch,
            2: self._h_list_offsets,
            3: self._h_metadata,
            8: self._h_offset_commit,
            9: self._h_offset_fetch,
            10: self._h_find_coordinator,
            11: self._h_join_group,
            12: self._h_heartbeat,
            13: self._h_leave_group,
            14: self._h_sync_group,
            18: self._h_api_versions,
            22: self.txn.init_producer_id,
            24: self.txn.add_partitions,
            25: self.txn.add_offsets,
            26: self.txn.end_txn,
            28: self._h_txn_offset_commit,
        }
        for name, n in topics.items():
            self._create_topic(name, n)

    # ======================================================================================
    # time, timers, loop binding
    # ======================================================================================
    def now(self):
        loop = self.loop
        return loop._vt if loop is not None else self.last_vt

    def _vt_ms(self):
        return int(self.now() * 1000 + 0.5)

    def bind(self, loop):
        if self.loop is not None:
            raise SimBug("cluster is already bound to a running loop")
        self.loop = loop
        self.runs += 1
        self.leftover = None
        for t in list(self._timers.values()):
            if t.active:
                if t.when < loop._vt:
                    t.when = loop._vt
                t.arm(loop)

    def unbind(self):
        loop = self.loop
        if loop is None:
            return
        self.last_vt = loop._vt
        for node in self.nodes:
            for conn in node.conns:
                conn.detach()
                if conn.current is not None:
                    conn.current.done = True
            node.conns = []
        for conn in list(loop.transports):
            conn.detach()
        for t in self._timers.values():
            if t.handle is not None:
                t.handle.cancel()
                t.handle = None
        self.loop = None

    def _timer(self, delay, fn, *args):
        t = SimTimer(self, self.now() + delay, fn, args)
        self._timers[id(t)] = t
        if self.loop is not None:
            t.arm(self.loop)
        return t

    def latency(self, node_id, rng):
        """One-way network latency in virtual seconds (replace by assignment to customise)."""
        if self.jitter:
            return self.base_latency + rng.random() * self.jitter
        return self.base_latency

    def fetch_cut(self, tp, n_available, rng):
        """How many of the ``n_available`` visible batches a Fetch returns (1..n)."""
        return rng.randint(1, n_available)

    # ======================================================================================
    # trace
    # ======================================================================================
    def _ev(self, ev, **kw):
        if not self.trace_enabled:
            return
        d = {"vt": int(self.now() * 1000 + 0.5), "ev": ev}
        d.update(kw)
        self.trace.append(d)

    # ======================================================================================
    # topology / environment steps
    # ======================================================================================
    def endpoint(self, host, port):
        return self._endpoints.get((host, port))

    def _create_topic(self, name, n):
        if name in self.topics:
            raise SimBug(f"topic {name!r} exists")
        self.topics[name] = 0
        self._grow_topic(name, n)

    def _grow_topic(self, name, n_total):
        have = self.topics[name]
        alive = [n.id for n in self.nodes]
        for p in range(have, n_total):
            tp = (name, p)
            self.logs[tp] = PartitionLog(name, p)
            self._leaders[tp] = alive[self._rr % len(alive)]
            self._rr += 1
        self.topics[name] = max(have, n_total)

    def add_topic(self, name, n):
        self._snapshot_leaders()
        self._create_topic(name, n)
        self._ev("env", op="add_topic", topic=name, partitions=n)

    def add_partitions(self, name, n_total):
        if name not in self.topics:
            raise SimBug(f"unknown topic {name!r}")
        self._snapshot_leaders()
        self._grow_topic(name, n_total)
        self._ev("env", op="add_partitions", topic=name, partitions=n_total)

    def _snapshot_leaders(self):
        self._prev_leaders = (dict(self._leaders), dict(self.topics))

    def leaders(self):
        return dict(self._leaders)

    def set_leader(self, tp, node):
        tp = _tp(tp)
        if tp not in self._leaders:
            raise SimBug(f"unknown partition {tp}")
        if node != -1 and not (0 <= node < len(self.nodes)):
            raise SimBug(f"unknown node {node}")
        self._snapshot_leaders()
        self._leaders[tp] = node
        self._ev("env", op="set_leader", tp=tp, leader=node)
        self._wake(self.logs[tp])

    def kill_node(self, i, migrate_leaders=False):
        node = self.nodes[i]
        if not node.up:
            return
        node.up = False
        self._ev("env", op="kill_node", node=i)
        for conn in list(node.conns):
            conn.server_close("kill", self.latency(node.id, self.rng_latency))
        if migrate_leaders:
            alive = [n.id for n in self.nodes if n.up]
            if alive:
                k = 0
                for tp, leader in list(self._leaders.items()):
                    if leader == i:
                        self.set_leader(tp, alive[k % len(alive)])
                        k += 1

    def revive_node(self, i):
        node = self.nodes[i]
        if node.up:
            return
        node.up = True
        self._ev("env", op="revive_node", node=i)

    def stale_metadata(self, n):
        """Serve the leader map as it was before the latest change for the next ``n``
        Metadata requests."""
        self._stale_left = n
        self._ev("env", op="stale_metadata", n=n)

    def coordinator_for(self, kind, key):
        return self._coordinators.get((kind, key), 0)

    def move_coordinator(self, kind, key, node, keep_state=True):
        if kind not in ("group", "txn"):
            raise SimBug("kind must be 'group' or 'txn'")
        old = self.coordinator_for(kind, key)
        self._coordinators[(kind, key)] = node
        self._ev(
            "env", op="move_coordinator", kind=kind, key=key, node=node, keep_state=keep_state,
            old=old,
        )
        if kind == "group":
            g = self.groups.get(key)
            if g is not None:
                if keep_state:
                    g.fail_parked(E_NOT_COORDINATOR)
                else:
                    g.reset_members(E_NOT_COORDINATOR)
        elif not keep_state:
            self.txn.drop(key)
        if not keep_state and self.coordinator_load_time > 0:
            self._loading_until[(kind, key)] = self.now() + self.coordinator_load_time

    def deny_topic(self, t):
        self.denied_topics.add(t)
        self._ev("env", op="deny", what="topic", name=t)

    def deny_group(self, g):
        self.denied_groups.add(g)
        self._ev("env", op="deny", what="group", name=g)

    def deny_txn_id(self, x):
        self.denied_txn_ids.add(x)
        self._ev("env", op="deny", what="txn_id", name=x)

    def allow_topic(self, t):
        self.denied_topics.discard(t)
        self._ev("env", op="allow", what="topic", name=t)

    def allow_group(self, g):
        self.denied_groups.discard(g)
        self._ev("env", op="allow", what="group", name=g)

    def allow_txn_id(self, x):
        self.denied_txn_ids.discard(x)
        self._ev("env", op="allow", what="txn_id", name=x)

    def delete_records(self, tp, before_offset):
        tp = _tp(tp)
        self.logs[tp].delete_records_before(before_offset)
        self._ev("env", op="delete_records", tp=tp, log_start=before_offset)

    def abort_client(self, client_id):
        """Broker side of 'the member was killed': every connection of that client is closed."""
        for node in self.nodes:
            for conn in list(node.conns):
                if conn.client_id == client_id:
                    conn.server_close("abort", self.latency(node.id, self.rng_latency))

    # ======================================================================================
    # ground truth accessors
    # ======================================================================================
    def log(self, tp):
        return self.logs[_tp(tp)]

    def read_committed(self, tp):
        return self.logs[_tp(tp)].read_committed()

    def read_uncommitted(self, tp):
        return self.logs[_tp(tp)].read_uncommitted()

    def committed(self, group):
        g = self.groups.get(group)
        if g is None:
            return {}
        return {tp: off for tp, (off, _m) in g.committed.items()}

    def group(self, group):
        return self._group_obj(group).snapshot()

    def txn_state(self):
        return self.txn.snapshot()

    def _group_obj(self, group_id):
        g = self.groups.get(group_id)
        if g is None:
            g = self.groups[group_id] = Group(self, group_id)
        return g

    def _new_member_id(self, client):
        self._member_seq += 1
        return f"{client}-m{self._member_seq}"

    # ======================================================================================
    # connections
    # ======================================================================================
    def _conn_open(self, conn):
        self._conn_seq += 1
        conn.cid = self._conn_seq
        conn.node.conns.append(conn)

    def _conn_closed(self, conn, by):
        try:
            conn.node.conns.remove(conn)
        except ValueError:
            pass
        if not conn.lost_traced:
            # one event per connection, naming whoever closed first
            conn.lost_traced = True
            self._ev("conn_lost", client=conn.client_id, node=conn.node.id, conn=conn.cid, by=by)

    def _frame_sent(self, conn, frame):
        loop = self.loop
        t = loop._vt + self.latency(conn.node.id, self.rng_latency)
        if t < conn.last_arrival:
            t = conn.last_arrival
        conn.last_arrival = t
        conn.arriving.append(frame)
        loop.sim_call_at(t, self._arrive, conn)

    def _arrive(self, conn):
        if not conn.arriving:
            return
        frame = conn.arriving.popleft()
        if conn.server_closed or not conn.node.up:
            return
        conn.inbox.append((frame, self.now()))
        if not conn.busy:
            self._next(conn)

    def _next(self, conn):
        inbox = conn.inbox
        while inbox and not conn.busy and not conn.blackholed and not conn.server_closed:
            frame, arrived = inbox.popleft()
            self._handle(conn, frame, arrived)

    def _finish(self, rq):
        """The broker is done with ``rq``: its connection may handle the next request."""
        conn = rq.conn
        if conn.current is rq:
            conn.current = None
            conn.busy = False
            if conn.inbox and not conn.blackholed and not conn.server_closed:
                self.loop.sim_call_soon(self._next, conn)

    # ======================================================================================
    # request pipeline
    # ======================================================================================
    def _handle(self, conn, frame, arrived=None):
        api_key, version, corr, client_id, req = decode_request(frame)
        if conn.client_id is None:
            conn.client_id = client_id
            self._ev("connect", client=client_id, node=conn.node.id, conn=conn.cid)
        handler = self._handlers.get(api_key)
        if handler is None:
            raise SimBug(f"API {api_key} v{version} is not implemented by the simulator")
        lo_hi = self.api_versions.get(api_key)
        if lo_hi is None or not (lo_hi[0] <= version <= lo_hi[1]):
            if api_key != 18:
                raise SimBug(
                    f"client used {API_NAMES.get(api_key, api_key)} v{version} outside the "
                    f"advertised range {lo_hi}"
                )
        rq = Rq()
        rq.conn = conn
        rq.node = conn.node
        rq.api_key = api_key
        rq.api = API_NAMES[api_key]
        rq.version = version
        rq.corr = corr
        rq.client = client_id
        rq.req = req
        rq.cls = type(req)
        rq.inject = None
        rq.delay = 0.0
        rq.mode = None
        rq.done = False
        rq.parsed = None
        self.n_requests += 1
        conn.busy = True
        conn.current = rq
        if self.trace_enabled:
            self._ev(
                "request",
                client=client_id,
                node=conn.node.id,
                conn=conn.cid,
                corr=corr,
                api=rq.api,
                version=version,
                fields=self._request_fields(rq),
                # when the bytes reached the broker (a request can wait behind a parked one)
                arrived=int((self.now() if arrived is None else arrived) * 1000 + 0.5),
            )
        faults = self.faults
        if faults.active:
            fault = faults.match(api_key, conn.node.id, client_id, self._request_tps(rq))
            if fault is not None:
                info = fault.describe()
                info.update(client=client_id, node=conn.node.id, conn=conn.cid, corr=corr, api=rq.api)
                self._ev("fault", **info)
                kind = fault.kind
                if kind == "call":
                    fault.fn(self, rq)
                    if conn.server_closed or not conn.node.up:
                        rq.done = True
                        return
                elif kind == "drop_before":
                    rq.done = True
                    conn.server_close("drop_before", self.latency(conn.node.id, self.rng_latency))
                    return
                elif kind == "error":
                    rq.inject = (fault.code, fault.tp)
                elif kind == "delay":
                    rq.delay = fault.seconds
                else:
                    rq.mode = kind
        handler(rq)
        if rq.mode == "drop_after":
            if not rq.done:
                rq.done = True
                self._trace_reply(rq, None, fault="drop_after")
            conn.server_close("drop_after", self.latency(conn.node.id, self.rng_latency))
        elif rq.mode == "lose_reply":
            if not rq.done:
                rq.done = True
                self._trace_reply(rq, None, fault="lose_reply")
            conn.blackholed = True

    def reply(self, rq, **fields):
        """Answer ``rq`` (now or, for parked requests, later)."""
        if rq.done:
            return
        rq.done = True
        resp = make_response(rq.cls, fields)
        if rq.mode is not None:
            # the request was applied, the reply is suppressed by a fault
            self._trace_reply(rq, resp, fault=rq.mode)
            return
        if rq.delay:
            self._timer(rq.delay, self._send, rq, resp)
        else:
            self._send(rq, resp)

    def _send(self, rq, resp):
        conn = rq.conn
        if conn.closing or conn.server_closed or self.loop is None:
            self._trace_reply(rq, resp, undelivered=True)
            self._finish(rq)
            return
        data = encode_response(rq.cls, rq.corr, resp)
        if self.paranoid:
            try:
                again = rq.cls.RESPONSE_TYPE.decode(data[4:])
            except Exception as exc:  # noqa: BLE001
                raise SimBug(f"reply {resp!r} does not decode: {exc!r}") from exc
            if again.encode() != data[4:]:
                raise SimBug(f"reply {resp!r} does not round-trip")
        self._trace_reply(rq, resp)
        if conn.closing or conn.server_closed:
            # closed while the reply was being traced (an environment step run re-entrantly):
            # nothing may be queued behind the EOF
            self._finish(rq)
            return
        loop = self.loop
        t = loop._vt + self.latency(conn.node.id, self.rng_latency)
        if t < conn.last_deliver:
            t = conn.last_deliver
        conn.last_deliver = t
        conn.outbox.append(len(data).to_bytes(4, "big") + data)
        loop.sim_call_at(t, conn.deliver)
        self._finish(rq)

    def no_reply(self, rq):
        """acks=0: nothing is sent back."""
        if rq.done:
            return
        rq.done = True
        self._finish(rq)

    def abandon(self, rq):
        """A parked request will never be answered (its callback was overwritten)."""
        rq.done = True

    def _trace_reply(self, rq, resp, **extra):
        if not self.trace_enabled:
            return
        d = {
            "client": rq.client,
            "node": rq.node.id,
            "conn": rq.conn.cid,
            "corr": rq.corr,
            "api": rq.api,
            "version": rq.version,
        }
        if resp is not None:
            d["fields"] = self._reply_fields(rq, resp)
        d.update(extra)
        self._ev("reply", **d)

    # -- canonical fields ---------------------------------------------------------------------
    def _parse_produce(self, rq):
        parsed = rq.parsed
        if parsed is None:
            parsed = rq.parsed = {}
            for topic, parts in rq.req.topics:
                for partition, data in parts:
                    tp = (topic, partition)
                    if tp in parsed:
                        raise SimBug(f"partition {tp} twice in one ProduceRequest")
                    parsed[tp] = split_payload(data)
        return parsed

    def _request_fields(self, rq):
        k = rq.api_key
        req = rq.req
        if k == 0:
            parts = []
            for tp, batches in self._parse_produce(rq).items():
                b0 = batches[0]
                recs = [r for b in batches for r in b.records()]
                parts.append(
                    {
                        "topic": tp[0],
                        "partition": tp[1],
                        "magic": b0.magic,
                        "pid": b0.pid,
                        "epoch": b0.epoch,
                        "base_seq": b0.base_seq,
                        "is_txn": b0.is_txn,
                        "n": len(recs),
                        "nbatches": len(batches),
                        "records": [text(r[3]) for r in recs],
                        "keys": [text(r[2]) for r in recs],
                        "timestamps": [r[1] for r in recs],
                    }
                )
            return {
                "acks": req.required_acks,
                "timeout": req.timeout,
                "txid": req.transactional_id if rq.version >= 3 else None,
                "partitions": parts,
            }
        if k == 1:
            return {
                "max_wait": req.max_wait_time,
                "min_bytes": req.min_bytes,
                "max_bytes": req.max_bytes if rq.version >= 3 else None,
                "isolation": req.isolation_level if rq.version >= 4 else 0,
                "partitions": [
                    {"topic": tp[0], "partition": tp[1], "offset": off, "max_bytes": mb}
                    for tp, off, mb in self._fetch_parts(rq)
                ],
            }
        return render_struct(req)

    def _reply_fields(self, rq, resp):
        k = rq.api_key
        if k == 0:
            parts = []
            for topic, plist in resp.topics:
                for p in plist:
                    parts.append(
                        {
                            "topic": topic,
                            "partition": p[0],
                            "error": p[1],
                            "offset": p[2],
                            "timestamp": p[3] if len(p) > 3 else None,
                            "log_start": p[4] if len(p) > 4 else None,
                        }
                    )
            return {"partitions": parts}
        if k == 1:
            v = rq.version
            parts = []
            for topic, plist in resp.topics:
                for p in plist:
                    data = p[-1] or b""
                    d = {
                        "topic": topic,
                        "partition": p[0],
                        "error": p[1],
                        "hw": p[2],
                        "lso": p[3] if v >= 4 else None,
                        "log_start": p[4] if v >= 5 else None,
                        "aborted": (
                            [list(a) for a in (p[5] if v >= 5 else p[4]) or []]
                            if v >= 4
                            else None
                        ),
                        "batches": _batch_spans(data),
                        "nbytes": len(data),
                    }
                    parts.append(d)
            return {"partitions": parts}
        return render_struct(resp)

    def _fetch_parts(self, rq):
        """[(tp, fetch_offset, max_bytes)] whatever the request version."""
        v = rq.version
        out = []
        for topic, parts in rq.req.topics:
            for p in parts:
                if v >= 9:
                    out.append(((topic, p[0]), p[2], p[4]))
                elif v >= 5:
                    out.append(((topic, p[0]), p[1], p[3]))
                else:
                    out.append(((topic, p[0]), p[1], p[2]))
        return out

    def _request_tps(self, rq):
        """Partitions named by the request (for faults with a tp filter)."""
        k = rq.api_key
        req = rq.req
        try:
            if k in (0, 1, 2, 8, 28):
                return {(t, p[0]) for t, parts in req.topics for p in parts}
            if k in (9, 24):
                return {(t, p) for t, parts in (req.topics or []) for p in parts}
        except (TypeError, IndexError):
            pass
        return ()

    # ======================================================================================
    # ApiVersions / Metadata / FindCoordinator
    # ======================================================================================
    def _h_api_versions(self, rq):
        code = rq.inject[0] if rq.inject is not None else 0
        versions = [(k, lo, hi) for k, (lo, hi) in sorted(self.api_versions.items())]
        self.reply(rq, error_code=code, api_versions=versions)

    def _h_metadata(self, rq):
        req = rq.req
        v = rq.version
        stale = False
        leaders, topics = self._leaders, self.topics
        if self._stale_left > 0:
            self._stale_left -= 1
            if self._prev_leaders is not None:
                leaders, topics = self._prev_leaders
                stale = True
        if req.topics is None or (v == 0 and not req.topics):
            names = list(topics)
        else:
            names = list(req.topics)
        allow_create = self.auto_create and (v < 4 or bool(req.allow_auto_topic_creation))
        inj = rq.inject
        tout = []
        seen = []
        for name in names:
            if inj is not None and (inj[1] is None or inj[1][0] == name):
                tout.append((inj[0], name, False, []))
                continue
            if name not in topics:
                if allow_create and name not in self.topics:
                    self.add_topic(name, self.default_partitions)
                    tout.append((E_LEADER_NOT_AVAILABLE, name, False, []))
                else:
                    tout.append((E_UNKNOWN_TOPIC_OR_PARTITION, name, False, []))
                continue
            plist = []
            for p in range(topics[name]):
                leader = leaders.get((name, p), -1)
                if leader >= 0 and not self.nodes[leader].up:
                    leader = -1
                err = 0 if leader >= 0 else E_LEADER_NOT_AVAILABLE
                reps = [leader] if leader >= 0 else []
                if v >= 5:
                    plist.append((err, p, leader, reps, reps, []))
                else:
                    plist.append((err, p, leader, reps, reps))
                seen.append([name, p, leader])
            tout.append((0, name, False, plist))
        if v == 0:
            tout = [(e, n, pl) for e, n, _i, pl in tout]
            brokers = [(n.id, n.host, n.port) for n in self.nodes if n.up]
        else:
            brokers = [(n.id, n.host, n.port, None) for n in self.nodes if n.up]
        fields = {"brokers": brokers, "topics": tout}
        if v >= 1:
            fields["controller_id"] = min((n.id for n in self.nodes if n.up), default=-1)
        if v >= 2:
            fields["cluster_id"] = "sim-cluster"
        self._ev("metadata", node=rq.node.id, client=rq.client, stale=stale, leaders=seen)
        self.reply(rq, **fields)

    def _h_find_coordinator(self, rq):
        req = rq.req
        if rq.version >= 1:
            key, ctype = req.coordinator_key, req.coordinator_type
        else:
            key, ctype = req.consumer_group, 0
        kind = "txn" if ctype == 1 else "group"
        code = 0
        if rq.inject is not None:
            code = rq.inject[0]
        elif kind == "txn" and key in self.denied_txn_ids:
            code = E_TRANSACTIONAL_ID_AUTHORIZATION_FAILED
        node_id = self.coordinator_for(kind, key)
        if not code and not self.nodes[node_id].up:
            code = E_COORDINATOR_NOT_AVAILABLE
        if code:
            fields = {"error_code": code, "coordinator_id": -1, "host": "", "port": -1}
        else:
            n = self.nodes[node_id]
            fields = {"error_code": 0, "coordinator_id": n.id, "host": n.host, "port": n.port}
        if rq.version >= 1:
            fields["error_message"] = None
        self.reply(rq, **fields)

    # ======================================================================================
    # Produce
    # ======================================================================================
    def _h_produce(self, rq):
        req = rq.req
        v = rq.version
        parsed = self._parse_produce(rq)
        out = []
        for topic, parts in req.topics:
            po = []
            for partition, _data in parts:
                tp = (topic, partition)
                code, offset, ts, log_start = self._produce_partition(rq, tp, parsed[tp])
                if v >= 8:
                    po.append((partition, code, offset, ts, log_start, [], None))
                elif v >= 5:
                    po.append((partition, code, offset, ts, log_start))
                elif v >= 2:
                    po.append((partition, code, offset, ts))
                else:
                    po.append((partition, code, offset))
            out.append((topic, po))
        if req.required_acks == 0:
            self.no_reply(rq)
        else:
            self.reply(rq, topics=out)

    def _apply_ev(self, rq, tp, b, outcome, error, base_offset):
        self._ev(
            "apply",
            node=rq.node.id,
            tp=tp,
            pid=b.pid,
            epoch=b.epoch,
            seq=b.base_seq,
            n=b.count,
            outcome=outcome,
            error=error,
            base_offset=base_offset,
            client=rq.client,
            corr=rq.corr,
        )

    def _produce_partition(self, rq, tp, batches):
        """-> (error, base_offset, timestamp, log_start_offset)"""
        inj = rq.inject
        if inj is not None and (inj[1] is None or inj[1] == tp):
            for b in batches:
                self._apply_ev(rq, tp, b, "error", inj[0], -1)
            return inj[0], -1, -1, -1
        log = self.logs.get(tp)
        if log is None:
            for b in batches:
                self._apply_ev(rq, tp, b, "error", E_UNKNOWN_TOPIC_OR_PARTITION, -1)
            return E_UNKNOWN_TOPIC_OR_PARTITION, -1, -1, -1
        if self._leaders[tp] != rq.node.id:
            for b in batches:
                self._apply_ev(rq, tp, b, "error", E_NOT_LEADER, -1)
            return E_NOT_LEADER, -1, -1, -1
        now = self.now()
        append_ts = None
        if self.topic_config.get(tp[0], {}).get("log_append_time"):
            append_ts = int(now * 1000 + 0.5) + EPOCH * 1000
        first_offset = None
        first_ts = -1
        appended = False
        for b in batches:
            code = 0
            if not b.crc_ok:
                code = E_CORRUPT_MESSAGE
            elif b.is_control:
                code = 87  # INVALID_RECORD: clients must not send control batches
            elif b.pid >= 0:
                if b.is_txn:
                    code = self.txn.check_produce(b.pid, b.epoch, tp)
                if not code:
                    kind, info = log.check_sequence(b.pid, b.epoch, b.base_seq, b.last_seq)
                    if kind == "error":
                        code = info
                    elif kind == "duplicate":
                        self._apply_ev(rq, tp, b, "duplicate", 0, info[0])
                        if first_offset is None:
                            first_offset, first_ts = info
                        continue
            if code:
                self._apply_ev(rq, tp, b, "error", code, -1)
                if appended:
                    self._wake(log)
                return code, -1, -1, -1
            sb = log.append(b, now, append_ts, verify=self.paranoid)
            appended = True
            self._apply_ev(rq, tp, b, "append", 0, sb.base_offset)
            if first_offset is None:
                first_offset = sb.base_offset
                first_ts = append_ts if append_ts is not None else -1
        if appended:
            self._wake(log)
        return 0, first_offset, first_ts, log.log_start

    def _append_marker(self, tp, pid, epoch, ctrl_type):
        log = self.logs[tp]
        now = self.now()
        sb = log.append_marker(pid, epoch, ctrl_type, int(now * 1000 + 0.5) + EPOCH * 1000, now)
        self._ev(
            "apply",
            node=self._leaders.get(tp, -1),
            tp=tp,
            pid=pid,
            epoch=epoch,
            seq=-1,
            n=1,
            outcome="commit_marker" if ctrl_type == CTRL_COMMIT else "abort_marker",
            error=0,
            base_offset=sb.base_offset,
            client=None,
            corr=None,
        )
        self._wake(log)

    # ======================================================================================
    # Fetch
    # ======================================================================================
    def _h_fetch(self, rq):
        req = rq.req
        pf = PendingFetch()
        pf.rq = rq
        pf.parts = self._fetch_parts(rq)
        pf.isolation = req.isolation_level if rq.version >= 4 else 0
        pf.deadline = self.now() + max(req.max_wait_time, 0) / 1000.0
        pf.logs = []
        pf.timer = None
        pf.scheduled = False
        wait = req.max_wait_time > 0 and req.min_bytes > 0 and rq.inject is None
        if not self._fetch_try(pf, final=not wait):
            # nothing to return yet: park until data arrives or max_wait elapses
            for tp, _off, _mb in pf.parts:
                log = self.logs.get(tp)
                if log is not None:
                    log.waiters.append(pf)
                    pf.logs.append(log)
            pf.timer = self._timer(pf.deadline - self.now(), self._fetch_timeout, pf)

    def _fetch_unpark(self, pf):
        for log in pf.logs:
            try:
                log.waiters.remove(pf)
            except ValueError:
                pass
        pf.logs = []
        if pf.timer is not None:
            pf.timer.cancel()
            pf.timer = None

    def _fetch_timeout(self, pf):
        pf.timer = None
        if pf.rq.done:
            self._fetch_unpark(pf)
            return
        self._fetch_try(pf, final=True)

    def _fetch_retry(self, pf):
        pf.scheduled = False
        if pf.rq.done:
            self._fetch_unpark(pf)
            return
        self._fetch_try(pf, final=self.now() >= pf.deadline)

    def _wake(self, log):
        """Something changed in ``log``: re-evaluate the fetches parked on it."""
        if not log.waiters:
            return
        for pf in log.waiters:
            if not pf.scheduled:
                pf.scheduled = True
                self.loop.sim_call_soon(self._fetch_retry, pf)

    def _fetch_try(self, pf, final):
        """Build the response; send it when it carries data or an error or when ``final``.
        Returns True when the request was answered."""
        rq = pf.rq
        v = rq.version
        inj = rq.inject
        node_id = rq.node.id
        committed_only = pf.isolation == 1
        rows = []  # (tp, error, hw, lso, log_start, aborted, visible batches, max_bytes)
        ready = False
        for tp, offset, max_bytes in pf.parts:
            if inj is not None and (inj[1] is None or inj[1] == tp):
                rows.append((tp, inj[0], -1, -1, -1, None, None, max_bytes))
                ready = True
                continue
            log = self.logs.get(tp)
            if log is None:
                rows.append((tp, E_UNKNOWN_TOPIC_OR_PARTITION, -1, -1, -1, None, None, max_bytes))
                ready = True
                continue
            if self._leaders[tp] != node_id:
                rows.append((tp, E_NOT_LEADER, -1, -1, -1, None, None, max_bytes))
                ready = True
                continue
            if offset < log.log_start or offset > log.leo:
                rows.append(
                    (tp, E_OFFSET_OUT_OF_RANGE, log.leo, log.lso(), log.log_start, None, None, max_bytes)
                )
                ready = True
                continue
            lso = log.lso()
            upper = lso if committed_only else log.leo
            visible = log.visible_batches(offset, upper)
            if visible:
                ready = True
            rows.append((tp, 0, log.leo, lso, log.log_start, offset, visible, max_bytes))
        if not ready and not final:
            return False
        self._fetch_unpark(pf)
        by_topic = {}
        for tp, err, hw, lso, log_start, offset, visible, max_bytes in rows:
            data = b""
            aborted = None
            if err == 0:
                if visible:
                    k = self.fetch_cut(tp, len(visible), self.rng_fetch)
                    if not 1 <= k <= len(visible):
                        raise SimBug(f"fetch_cut returned {k} for {len(visible)} batches")
                    chosen = [visible[0]]
                    size = len(visible[0].raw)
                    for b in visible[1:k]:
                        if size + len(b.raw) > max_bytes:
                            break
                        chosen.append(b)
                        size += len(b.raw)
                    data = b"".join(b.raw for b in chosen)
                    if committed_only:
                        aborted = self.logs[tp].aborted_for(offset, chosen[-1].last_offset + 1)
                elif committed_only:
                    aborted = []
            if v >= 11:
                row = (tp[1], err, hw, lso, log_start, aborted, -1, data)
            elif v >= 5:
                row = (tp[1], err, hw, lso, log_start, aborted, data)
            elif v >= 4:
                row = (tp[1], err, hw, lso, aborted, data)
            else:
                row = (tp[1], err, hw, data)
            by_topic.setdefault(tp[0], []).append(row)
        fields = {"topics": list(by_topic.items())}
        if v >= 7:
            fields["error_code"] = 0
            fields["session_id"] = 0
        self.reply(rq, **fields)
        return True

    # ======================================================================================
    # ListOffsets
    # ======================================================================================
    def _h_list_offsets(self, rq):
        req = rq.req
        v = rq.version
        isolation = req.isolation_level if v >= 2 else 0
        inj = rq.inject
        out = []
        for topic, parts in req.topics:
            po = []
            for p in parts:
                partition = p[0]
                ts = p[2] if v >= 4 else p[1]
                tp = (topic, partition)
                log = self.logs.get(tp)
                code, rts, off = 0, -1, -1
                if inj is not None and (inj[1] is None or inj[1] == tp):
                    code = inj[0]
                elif log is None:
                    code = E_UNKNOWN_TOPIC_OR_PARTITION
                elif self._leaders[tp] != rq.node.id:
                    code = E_NOT_LEADER
                else:
                    upper = log.lso() if isolation == 1 else log.leo
                    if ts == -2:
                        off = log.log_start
                    elif ts == -1:
                        off = upper
                    else:
                        found = log.offset_for_timestamp(ts, upper)
                        if found is not None:
                            rts, off = found
                if v == 0:
                    po.append((partition, code, [off] if code == 0 and off >= 0 else []))
                elif v >= 4:
                    po.append((partition, code, rts, off, -1))
                else:
                    po.append((partition, code, rts, off))
            out.append((topic, po))
        self.reply(rq, topics=out)

    # ======================================================================================
    # group coordinator plumbing
    # ======================================================================================
    def _coordinator_gate(self, rq, kind, key):
        """Error code when this node cannot act as coordinator for (kind, key), else 0."""
        if rq.inject is not None and rq.inject[1] is None:
            return rq.inject[0]
        if self.coordinator_for(kind, key) != rq.node.id:
            return E_NOT_COORDINATOR
        until = self._loading_until.get((kind, key))
        if until is not None:
            if self.now() < until:
                return E_COORDINATOR_LOAD_IN_PROGRESS
            del self._loading_until[(kind, key)]
        return 0

    def _txn_gate(self, rq, txid):
        if txid in self.denied_txn_ids:
            return E_TRANSACTIONAL_ID_AUTHORIZATION_FAILED
        return self._coordinator_gate(rq, "txn", txid)

    def _h_join_group(self, rq):
        code = self._coordinator_gate(rq, "group", rq.req.group)
        g = self._group_obj(rq.req.group)
        if code:
            g._ev("join", rq.req.member_id, code)
            return self.reply(
                rq,
                error_code=code,
                generation_id=-1,
                group_protocol="",
                leader_id="",
                member_id=rq.req.member_id or "",
                members=[],
            )
        g.handle_join(rq)

    def _h_sync_group(self, rq):
        code = self._coordinator_gate(rq, "group", rq.req.group)
        g = self._group_obj(rq.req.group)
        if code:
            g._ev("sync", rq.req.member_id, code)
            return self.reply(rq, error_code=code, member_assignment=b"")
        g.handle_sync(rq)

    def _h_heartbeat(self, rq):
        code = self._coordinator_gate(rq, "group", rq.req.group)
        g = self._group_obj(rq.req.group)
        if code:
            g._ev("heartbeat", rq.req.member_id, code)
            return self.reply(rq, error_code=code)
        g.handle_heartbeat(rq)

    def _h_leave_group(self, rq):
        code = self._coordinator_gate(rq, "group", rq.req.group)
        g = self._group_obj(rq.req.group)
        if code:
            g._ev("leave", rq.req.member_id, code)
            return self.reply(rq, error_code=code)
        g.handle_leave(rq)

    def _h_offset_commit(self, rq):
        req = rq.req
        code = self._coordinator_gate(rq, "group", req.consumer_group)
        g = self._group_obj(req.consumer_group)
        if code:
            g._ev("commit", getattr(req, "consumer_id", None), code)
            return self.reply(
                rq, topics=[(t, [(p[0], code) for p in parts]) for t, parts in req.topics]
            )
        g.handle_offset_commit(rq)

    def _h_offset_fetch(self, rq):
        req = rq.req
        code = self._coordinator_gate(rq, "group", req.consumer_group)
        g = self._group_obj(req.consumer_group)
        if code:
            g._ev("fetch_offsets", None, code)
            if rq.version >= 2:
                # a group-level error of OffsetFetch v2+ is reported in the top-level field ONLY, with no
                # partition entries (Kafka: OffsetFetchRequest.getErrorResponse fills partitions for v0/v1 only)
                fields = {"topics": [], "error_code": code}
            else:
                fields = {
                    "topics": [
                        (t, [(p, -1, "", code) for p in parts]) for t, parts in (req.topics or [])
                    ]
                }
            return self.reply(rq, **fields)
        g.handle_offset_fetch(rq)

    def _h_txn_offset_commit(self, rq):
        req = rq.req
        code = 0
        if req.transactional_id in self.denied_txn_ids:
            code = E_TRANSACTIONAL_ID_AUTHORIZATION_FAILED
        elif req.group_id in self.denied_groups:
            code = E_GROUP_AUTHORIZATION_FAILED
        if not code:
            code = self._coordinator_gate(rq, "group", req.group_id)
        if not code:
            code = self.txn.check_epoch(req.producer_id, req.producer_epoch)
        self._group_obj(req.group_id).handle_txn_offset_commit(rq, code)


def _batch_spans(data):
    """[[base_offset, last_offset]] of the v2 batches in a fetch payload."""
    out = []
    pos = 0
    n = len(data)
    while n - pos >= 61:
        base = int.from_bytes(data[pos : pos + 8], "big", signed=True)
        length = int.from_bytes(data[pos + 8 : pos + 12], "big", signed=True)
        delta = int.from_bytes(data[pos + 23 : pos + 27], "big", signed=True)
        out.append([base, base + delta])
        pos += 12 + length
    return out
