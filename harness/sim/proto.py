"""Wire helpers: request registry (the library's own Struct classes), header decoding,
default ApiVersions ranges, canonical (JSON-able) rendering of structs for the trace."""

from __future__ import annotations

import io
import struct

# import every protocol module so that all RequestStruct subclasses exist
import aiokafka.protocol.admin  # noqa: F401
import aiokafka.protocol.commit  # noqa: F401
import aiokafka.protocol.coordination  # noqa: F401
import aiokafka.protocol.fetch  # noqa: F401
import aiokafka.protocol.group  # noqa: F401
import aiokafka.protocol.metadata  # noqa: F401
import aiokafka.protocol.offset  # noqa: F401
import aiokafka.protocol.produce  # noqa: F401
import aiokafka.protocol.transaction  # noqa: F401
from aiokafka.protocol.api import RequestStruct
from aiokafka.protocol.types import Array, Schema, TaggedFields

from .errors import SimBug

API_NAMES = {
    0: "Produce",
    1: "Fetch",
    2: "ListOffsets",
    3: "Metadata",
    8: "OffsetCommit",
    9: "OffsetFetch",
    10: "FindCoordinator",
    11: "JoinGroup",
    12: "Heartbeat",
    13: "LeaveGroup",
    14: "SyncGroup",
    18: "ApiVersions",
    22: "InitProducerId",
    24: "AddPartitionsToTxn",
    25: "AddOffsetsToTxn",
    26: "EndTxn",
    28: "TxnOffsetCommit",
}
API_KEYS = {v: k for k, v in API_NAMES.items()}

# what a Kafka 2.4-ish broker offers for the APIs the simulator implements
KAFKA_2X_RANGES = {
    0: (0, 8),
    1: (0, 11),
    2: (0, 5),
    3: (0, 9),
    8: (0, 8),
    9: (0, 6),
    10: (0, 3),
    11: (0, 6),
    12: (0, 4),
    13: (0, 4),
    14: (0, 4),
    18: (0, 3),
    22: (0, 2),
    24: (0, 1),
    25: (0, 1),
    26: (0, 1),
    28: (0, 2),
}


def api_key_of(api):
    """Accept an api key (int) or name (str, case-insensitive)."""
    if api is None or isinstance(api, int):
        return api
    for name, key in API_KEYS.items():
        if name.lower() == str(api).lower():
            return key
    raise SimBug(f"unknown API name {api!r}")


def _all_subclasses(c):
    for s in c.__subclasses__():
        yield s
        yield from _all_subclasses(s)


def _build_registry():
    reg = {}
    for c in _all_subclasses(RequestStruct):
        key = getattr(c, "API_KEY", None)
        ver = getattr(c, "API_VERSION", None)
        if key is None or ver is None:
            continue
        # the library has one mislabelled class (ListGroupsRequest_v2 says version 1); keep
        # the class whose name agrees with its version
        prev = reg.get((key, ver))
        if prev is not None and prev.__name__.endswith(f"_v{ver}"):
            continue
        reg[(key, ver)] = c
    return reg


REQUESTS = _build_registry()


def default_api_versions():
    """Kafka 2.x ranges clamped to the versions the library has request classes for."""
    out = {}
    for key, (lo, hi) in KAFKA_2X_RANGES.items():
        have = [v for (k, v) in REQUESTS if k == key]
        if not have:
            continue
        out[key] = (max(lo, min(have)), min(hi, max(have)))
    return out


_HDR = struct.Struct(">hhih")


def decode_request(frame):
    """-> (api_key, api_version, correlation_id, client_id, request_struct)."""
    if len(frame) < 10:
        raise SimBug(f"request frame too short: {frame!r}")
    api_key, version, corr, cid_len = _HDR.unpack_from(frame)
    pos = 10
    if cid_len >= 0:
        client_id = frame[pos : pos + cid_len].decode("utf-8")
        pos += cid_len
    else:
        client_id = None
    cls = REQUESTS.get((api_key, version))
    if cls is None:
        raise SimBug(f"no request class for api {api_key} version {version}")
    buf = io.BytesIO(frame)
    buf.seek(pos)
    if cls.FLEXIBLE_VERSION:
        TaggedFields.decode(buf)
    try:
        req = cls.decode(buf)
    except Exception as exc:  # noqa: BLE001
        raise SimBug(f"cannot decode {cls.__name__}: {exc!r}") from exc
    rest = buf.read()
    if rest:
        raise SimBug(f"{len(rest)} trailing bytes after {cls.__name__}")
    return api_key, version, corr, client_id, req


def make_response(cls, fields):
    """Build ``cls.RESPONSE_TYPE`` from a dict; ``throttle_time_ms`` defaults to 0, every
    other schema field must be given."""
    rtype = cls.RESPONSE_TYPE
    args = []
    for name in rtype.SCHEMA.names:
        if name in fields:
            args.append(fields[name])
        elif name == "throttle_time_ms":
            args.append(0)
        else:
            raise SimBug(f"{rtype.__name__}: field {name!r} not provided")
    extra = set(fields) - set(rtype.SCHEMA.names)
    if extra:
        raise SimBug(f"{rtype.__name__}: unknown fields {sorted(extra)}")
    return rtype(*args)


def encode_response(cls, corr, resp):
    body = resp.encode()
    if cls.FLEXIBLE_VERSION:
        return struct.pack(">i", corr) + b"\x00" + body
    return struct.pack(">i", corr) + body


# -- canonical rendering ----------------------------------------------------------------------


def _plain(v):
    if isinstance(v, (bytes, bytearray, memoryview)):
        return bytes(v).hex()
    if isinstance(v, tuple):
        return [_plain(x) for x in v]
    if isinstance(v, list):
        return [_plain(x) for x in v]
    if isinstance(v, dict):
        return {str(k): _plain(x) for k, x in v.items()}
    return v


def _render(schema, values):
    out = {}
    for name, ftype, val in zip(schema.names, schema.fields, values, strict=False):
        out[name] = _render_value(ftype, val)
    return out


def _render_value(ftype, val):
    if val is None:
        return None
    if isinstance(ftype, Schema):
        return _render(ftype, val)
    if isinstance(ftype, Array):
        inner = ftype.array_of
        if isinstance(inner, Schema):
            return [_render(inner, x) for x in val]
        return [_plain(x) for x in val]
    return _plain(val)


def render_struct(obj):
    """Struct -> nested dict/list of JSON-able values (bytes as hex), keyed by schema names."""
    schema = obj.SCHEMA
    return _render(schema, [obj.__dict__[n] for n in schema.names])


def text(b):
    """bytes -> latin-1 str (None stays None): record keys / values in the trace."""
    return None if b is None else bytes(b).decode("latin-1")
