"""Fault injection: ``Fault`` descriptions, the ``FaultSchedule`` held by a cluster, and the
``random_faults`` helper drawing a seeded schedule.

A fault is matched against every request in arrival order.  A request "matches" when ``api``,
``node``, ``client`` (and, for ``kind="error"`` with a ``tp`` filter, the partition) agree; each
fault counts its own matches.  With ``nth=None`` it fires on its first ``count`` matches, with
``nth=k`` on matches ``k .. k+count-1`` (0-based).  ``count=None`` = unlimited.  At most one fault
fires per request: the first one (in ``add`` order) that wants to.

kinds
  ``drop_before``  close the connection; the request is NOT applied
  ``drop_after``   apply the request, then close the connection without replying
  ``lose_reply``   apply, never answer; the broker stops reading that connection (the client
                   runs into its request timeout)
  ``error``        ``code=<int>``, optional ``tp=(topic, partition)``: the request (or only that
                   partition of it) is NOT applied and is answered with that error code in the
                   proper place of the proper response struct
  ``delay``        ``seconds=<float>``: apply now, reply that much later (in addition to latency)
  ``call``         ``fn(cluster, request_info)`` is called before the request is handled, which
                   then proceeds normally (use it to migrate a leader / kill a node / move a
                   coordinator "at the n-th Produce")
"""

from __future__ import annotations

from .errors import SimBug
from .proto import API_NAMES, api_key_of

KINDS = ("drop_before", "drop_after", "lose_reply", "error", "delay", "call")


class Fault:
    __slots__ = (
        "kind",
        "api",
        "node",
        "nth",
        "client",
        "count",
        "code",
        "tp",
        "seconds",
        "fn",
        "seen",
        "fired",
        "label",
    )

    def __init__(
        self,
        kind,
        *,
        api=None,
        node=None,
        nth=None,
        client=None,
        count=1,
        code=None,
        tp=None,
        seconds=None,
        fn=None,
        label=None,
    ):
        if kind not in KINDS:
            raise SimBug(f"unknown fault kind {kind!r}")
        if kind == "error" and code is None:
            raise SimBug("Fault(kind='error') needs code=")
        if kind == "delay" and seconds is None:
            raise SimBug("Fault(kind='delay') needs seconds=")
        if kind == "call" and fn is None:
            raise SimBug("Fault(kind='call') needs fn=")
        self.kind = kind
        self.api = api_key_of(api)
        self.node = node
        self.nth = nth
        self.client = client
        self.count = count
        self.code = code
        self.tp = tuple(tp) if tp is not None else None
        self.seconds = seconds
        self.fn = fn
        self.seen = 0
        self.fired = 0
        self.label = label

    def exhausted(self):
        return self.count is not None and self.fired >= self.count

    def describe(self):
        d = {"kind": self.kind}
        if self.api is not None:
            d["api"] = API_NAMES.get(self.api, self.api)
        for k in ("node", "nth", "client", "count", "code", "seconds", "label"):
            v = getattr(self, k)
            if v is not None:
                d[k] = v
        if self.tp is not None:
            d["tp"] = list(self.tp)
        return d

    def __repr__(self):
        return f"Fault({self.describe()})"


class FaultSchedule:
    def __init__(self):
        self.active = []
        self.done = []

    def add(self, fault):
        if not isinstance(fault, Fault):
            raise SimBug("faults.add() wants a Fault")
        self.active.append(fault)
        return fault

    def extend(self, faults):
        for f in faults:
            self.add(f)

    def clear(self):
        self.done.extend(self.active)
        self.active = []

    def match(self, api_key, node_id, client_id, tps):
        """Return the fault firing for this request, or None.  ``tps`` = set of
        (topic, partition) named by the request (may be empty)."""
        if not self.active:
            return None
        hit = None
        stale = None
        for f in self.active:
            if f.api is not None and f.api != api_key:
                continue
            if f.node is not None and f.node != node_id:
                continue
            if f.client is not None and f.client != client_id:
                continue
            if f.tp is not None and f.tp not in tps:
                continue
            idx = f.seen
            f.seen += 1
            start = 0 if f.nth is None else f.nth
            if f.count is not None and idx >= start + f.count:
                # its window has passed (another fault fired on those requests)
                if stale is None:
                    stale = []
                stale.append(f)
                continue
            if hit is not None or idx < start:
                continue
            f.fired += 1
            hit = f
        if hit is not None and hit.exhausted():
            self.active.remove(hit)
            self.done.append(hit)
        if stale:
            for f in stale:
                self.active.remove(f)
                self.done.append(f)
        return hit


def random_faults(rng, p, kinds, apis, *, horizon=200, codes=None, seconds=(0.05, 2.0), node=None, client=None):
    """Draw a seeded schedule: for every api in ``apis`` and every request ordinal
    ``0..horizon-1`` of that api, with probability ``p`` one fault of a kind drawn from
    ``kinds``.  ``codes`` = {api: [error codes]} for ``error`` faults (default: a retriable code
    fitting the API), ``seconds`` = (lo, hi) range for ``delay``.  Returns a list of Faults."""
    default_codes = {
        0: [6, 7, 5],  # NOT_LEADER, REQUEST_TIMED_OUT, LEADER_NOT_AVAILABLE
        1: [6],
        2: [6],
        3: [5],
        8: [14, 16],
        9: [14, 16],
        10: [15],
        11: [14, 16],
        12: [16],
        13: [16],
        14: [16],
        22: [14, 15],
        24: [14, 51],
        25: [14, 51],
        26: [14, 51],
        28: [14],
    }
    out = []
    for api in apis:
        key = api_key_of(api)
        for i in range(horizon):
            if rng.random() >= p:
                continue
            kind = kinds[rng.randrange(len(kinds))]
            kw = {}
            if kind == "error":
                pool = (codes or {}).get(api) or (codes or {}).get(key) or default_codes.get(key)
                if not pool:
                    continue
                kw["code"] = pool[rng.randrange(len(pool))]
            elif kind == "delay":
                kw["seconds"] = round(rng.uniform(*seconds), 3)
            elif kind == "call":
                continue
            out.append(Fault(kind, api=key, nth=i, node=node, client=client, **kw))
    return out
