"""Virtual-time asyncio event loop + in-memory transport for the simulated Kafka cluster.

Public names
------------
``VLoop(cluster=None, start=0.0)``
    ``asyncio.SelectorEventLoop`` whose ``time()`` is a virtual clock.  When nothing is ready the
    clock jumps to the next timer (rounded up to a 2**-20 s grid; a zero-length timer lets one
    tick pass).  It never touches the network: the selector is a stub (a loop with nothing to do
    raises ``SimDeadlock`` instead of sleeping for ever), ``run_in_executor`` runs inline and
    ``create_connection`` returns a :class:`SimTransport` wired to ``cluster`` or raises
    ``ConnectionRefusedError`` when the node is down / unknown.
    ``loop.leftover()`` -> ``{"tasks": [...], "timers": [...], "transports": [...], "errors": [...]}``
    what the code under test left behind: pending tasks (``name:coroutine @ innermost await``),
    live timer handles, transports the client never closed, and whatever reached the loop's
    exception handler ("Task exception was never retrieved", ...).  Simulator-owned handles are
    not listed.  ``loop.max_spin`` iterations without clock progress raise ``SimBug`` (livelock).
``virtual_time(loop)``
    context manager patching ``time.monotonic`` / ``time.time`` (= ``EPOCH`` + virtual seconds).
``run(coro, cluster, *, max_vt=3600.0, grace=120.0)``
    run ``coro`` on a fresh VLoop bound to ``cluster`` under virtual time; returns its result.
    Raises :class:`SimTimeout` (with ``.where`` = await chain) when virtual time passes ``max_vt``
    first - the coroutine is then cancelled and, if its cleanup hangs too, the loop is stopped
    after ``grace`` more virtual seconds - and :class:`SimBug` on a simulator fault.  Afterwards
    ``cluster.leftover`` holds the ``loop.leftover()`` report taken right after the coroutine
    finished; after a SimTimeout it is the report taken at the moment the hang was declared.
``now_ms()`` virtual wall-clock milliseconds, for ``producer.send(..., timestamp_ms=now_ms())``.
``await_chain(task)`` -> list of "function (file:line)" from the task's coroutine inwards.
``leftover_empty(report)`` -> bool.
"""

from __future__ import annotations

import asyncio
import contextlib
import errno
import heapq
import logging
import math
import random
import selectors
import time
from collections import deque

from .errors import SimBug, SimDeadlock, SimTimeout

__all__ = [
    "VLoop",
    "SimTransport",
    "virtual_time",
    "run",
    "leftover_empty",
    "now_ms",
    "await_chain",
    "EPOCH",
]

EPOCH = 1_600_000_000  # time.time() == EPOCH + loop.time() under virtual_time()
_GRID = float(1 << 20)  # clock ticks per virtual second


class _NullSelector(selectors.BaseSelector):
    """Selector that never reports an event and never blocks."""

    def __init__(self):
        self._map = {}

    def register(self, fileobj, events, data=None):
        fd = fileobj if isinstance(fileobj, int) else fileobj.fileno()
        if fileobj in self._map:
            raise KeyError(f"{fileobj!r} is already registered")
        key = selectors.SelectorKey(fileobj, fd, events, data)
        self._map[fileobj] = key
        return key

    def unregister(self, fileobj):
        return self._map.pop(fileobj)

    def select(self, timeout=None):
        if timeout is None:
            # nothing ready, no timer: a real loop would sleep forever here
            raise SimDeadlock(
                "event loop has nothing ready and no timer while the main "
                "coroutine is not finished"
            )
        return []

    def get_map(self):
        return self._map

    def close(self):
        self._map = {}


class SimCall:
    """Callback wrapper marking a handle as owned by the simulator.

    * such handles are not reported by ``loop.leftover()``;
    * an exception escaping the callback is a simulator bug and stops the run loudly.
    """

    __slots__ = ("fn", "loop")

    def __init__(self, loop, fn):
        self.fn = fn
        self.loop = loop

    def __call__(self, *args):
        try:
            self.fn(*args)
        except BaseException as exc:  # noqa: BLE001 - we really want everything
            if isinstance(exc, (KeyboardInterrupt, SystemExit)):
                raise
            self.loop._fatal(exc)

    def __repr__(self):
        return f"<SimCall {getattr(self.fn, '__qualname__', self.fn)!r}>"


class VLoop(asyncio.SelectorEventLoop):
    def __init__(self, cluster=None, start=0.0):
        super().__init__(selector=_NullSelector())
        self._vt = float(start)
        self.cluster = cluster
        self.transports = []  # SimTransports the client side has not closed yet
        self.fatal = None  # first simulator failure (exception instance)
        self.unhandled = []  # what reached the loop's exception handler
        self.max_spin = 2_000_000  # loop iterations without clock progress
        self._spin = 0
        self._spin_vt = -1.0
        self.set_exception_handler(VLoop._on_exception)

    # -- clock ---------------------------------------------------------------------------
    def time(self):
        return self._vt

    def _run_once(self):
        if not self._ready:
            sched = self._scheduled
            while sched and sched[0]._cancelled:
                self._timer_cancelled_count -= 1
                handle = heapq.heappop(sched)
                handle._scheduled = False
            if sched:
                when = sched[0]._when
                if when > self._vt:
                    # The clock only takes values on a 2**-20 s grid (rounded up).  Library
                    # code computes "remaining = timeout - (now - start)" and sleeps for it;
                    # with an arbitrary float clock "now + remaining" can round to just below
                    # "start + timeout".  On the grid "now - start" is exact and the wake-up
                    # lands at or after the deadline.
                    self._vt = math.ceil(when * _GRID) / _GRID
                else:
                    # A zero-length timer (``wait(timeout=0)``, ``call_later(0)``) is all that
                    # is left to do.  A real clock moves while code runs, and library code
                    # relies on it ("if now > deadline: ... else: sleep(max(0, deadline -
                    # now))" spins at now == deadline), so let one tick (~1 us) pass.
                    self._vt += 1.0 / _GRID
        if self._vt == self._spin_vt:
            self._spin += 1
            if self._spin > self.max_spin:
                raise SimBug(
                    f"livelock: {self._spin} loop iterations at virtual time "
                    f"{self._vt} without progress"
                )
        else:
            self._spin_vt = self._vt
            self._spin = 0
        super()._run_once()

    # -- simulator-owned callbacks -------------------------------------------------------
    def sim_call_at(self, when, fn, *args):
        return self.call_at(when, SimCall(self, fn), *args)

    def sim_call_later(self, delay, fn, *args):
        return self.call_at(self._vt + delay, SimCall(self, fn), *args)

    def sim_call_soon(self, fn, *args):
        return self.call_soon(SimCall(self, fn), *args)

    def _fatal(self, exc):
        if self.fatal is None:
            self.fatal = exc
        self.stop()

    def _on_exception(self, context):
        exc = context.get("exception")
        msg = context.get("message", "")
        self.unhandled.append(f"{msg}: {exc!r}" if exc is not None else msg)

    # -- no threads, no DNS --------------------------------------------------------------
    def run_in_executor(self, executor, func, *args):
        fut = self.create_future()
        try:
            fut.set_result(func(*args))
        except Exception as exc:  # noqa: BLE001
            fut.set_exception(exc)
        return fut

    async def getaddrinfo(self, host, port, **kw):
        raise SimBug("getaddrinfo() called on the virtual loop")

    async def create_connection(self, protocol_factory, host=None, port=None, **kw):
        cluster = self.cluster
        if cluster is None:
            raise SimBug("VLoop.create_connection without a cluster")
        if kw.get("ssl"):
            raise SimBug("the simulated cluster speaks PLAINTEXT only")
        await asyncio.sleep(cluster.connect_delay)
        node = cluster.endpoint(host, port)
        if node is None or not node.up:
            raise ConnectionRefusedError(
                errno.ECONNREFUSED, f"Connect call failed ({host!r}, {port})"
            )
        proto = protocol_factory()
        tr = SimTransport(self, proto, node)
        self.transports.append(tr)
        cluster._conn_open(tr)
        proto.connection_made(tr)
        return tr, proto

    # -- report --------------------------------------------------------------------------
    def leftover(self):
        """What the code under test left behind (simulator-owned handles excluded)."""
        try:
            current = asyncio.current_task(self)
        except RuntimeError:
            current = None
        tasks = []
        for t in asyncio.all_tasks(self):
            if t is current or t.done():
                continue
            coro = t.get_coro()
            chain = [c for c in await_chain(coro) if not c.startswith("[")]
            tasks.append(
                f"{t.get_name()}:{getattr(coro, '__qualname__', coro)!s}"
                + (f" @ {chain[-1]}" if chain else "")
            )
        tasks.sort()
        timers = []
        for h in list(self._scheduled) + list(self._ready):
            if h._cancelled or isinstance(h._callback, SimCall):
                continue
            cb = h._callback
            owner = getattr(cb, "__self__", None)
            if current is not None and owner is current:
                continue
            when = getattr(h, "_when", None)
            timers.append(
                f"{getattr(cb, '__qualname__', cb)!s}"
                + (f"@{when:.3f}" if when is not None else "@ready")
            )
        timers.sort()
        transports = [repr(t) for t in self.transports if not t.closing]
        return {
            "tasks": tasks,
            "timers": timers,
            "transports": transports,
            "errors": list(self.unhandled),
        }


def leftover_empty(report):
    return not any(report[k] for k in ("tasks", "timers", "transports", "errors"))


class SimTransport(asyncio.Transport):
    """Client end of an in-memory connection to a simulated broker.

    The broker end is the same object (``inbox`` / ``busy`` / ``outbox`` are used by
    ``SimCluster``).  Frames are delivered in order in both directions; the broker handles one
    request per connection at a time (like Kafka, which mutes a channel while a request is in
    flight), so a delayed reply delays everything behind it on that connection.
    """

    def __init__(self, loop, proto, node):
        super().__init__()
        self.loop = loop
        self.proto = proto
        self.node = node
        self.cid = -1  # connection number, assigned by the cluster
        self.client_id = None  # learnt from the first request header
        self.closing = False  # the client closed / aborted
        self.server_closed = False  # the broker closed (client sees EOF)
        self.blackholed = False  # broker stopped reading (lose_reply)
        self.lost_traced = False  # a conn_lost event was written for this connection
        self.eof_delivered = False  # the client has read the EOF of a broker-side close
        self._lost_called = False
        self._buf = bytearray()
        # broker side
        self.arriving = deque()  # frames on the wire towards the broker
        self.last_arrival = 0.0
        self.inbox = deque()  # frames received, not yet handled
        self.busy = False  # a request is being handled / awaiting its reply
        self.current = None  # the request being handled
        self.outbox = deque()  # replies on the wire towards the client
        self.last_deliver = 0.0

    def __repr__(self):
        return (
            f"<SimTransport #{self.cid} client={self.client_id!r} node={self.node.id}"
            f"{' closing' if self.closing else ''}"
            f"{' server_closed' if self.server_closed else ''}>"
        )

    # -- asyncio.Transport API -------------------------------------------------------------
    def get_extra_info(self, name, default=None):
        if name == "peername":
            return (self.node.host, self.node.port)
        return default

    def is_closing(self):
        return self.closing

    def set_protocol(self, protocol):
        self.proto = protocol

    def get_protocol(self):
        return self.proto

    def is_reading(self):
        return not self.closing

    def pause_reading(self):
        pass

    def resume_reading(self):
        pass

    def set_write_buffer_limits(self, high=None, low=None):
        pass

    def get_write_buffer_size(self):
        return 0

    def get_write_buffer_limits(self):
        return (0, 0)

    def can_write_eof(self):
        return False

    def write(self, data):
        if self.closing or self.server_closed:
            return
        buf = self._buf
        buf += data
        while len(buf) >= 4:
            n = int.from_bytes(buf[:4], "big", signed=True)
            if n < 0:
                raise SimBug(f"negative frame size {n} written by the client")
            if len(buf) < 4 + n:
                break
            frame = bytes(buf[4 : 4 + n])
            del buf[: 4 + n]
            self.loop.cluster._frame_sent(self, frame)

    def writelines(self, list_of_data):
        for d in list_of_data:
            self.write(d)

    def close(self):
        if self.closing:
            return
        self.closing = True
        if self.loop.is_closed():
            return
        self.loop.cluster._conn_closed(self, "client")
        self.loop.call_soon(self._connection_lost, None)

    def abort(self):
        self.close()

    # -- used by the cluster -------------------------------------------------------------
    def _connection_lost(self, exc):
        if self._lost_called:
            return
        self._lost_called = True
        try:
            self.loop.transports.remove(self)
        except ValueError:
            pass
        self.proto.connection_lost(exc)

    def deliver(self):
        """Timer callback: hand the oldest item on the wire (a reply, or the EOF marker of a
        broker-side close) to the client.  One callback is scheduled per item and each pops the
        FIFO head, so the order on the wire is kept even when deadlines are equal (the heap
        order of equal deadlines is arbitrary)."""
        if not self.outbox:
            return
        data = self.outbox.popleft()
        if self.closing or self.eof_delivered:
            return
        if data is None:
            self._eof()
        else:
            self.proto.data_received(data)

    def server_close(self, by, delay=0.0):
        """The broker closes the connection: the client reads EOF after ``delay`` - but never
        before the replies that were sent earlier (TCP delivers data before FIN)."""
        if self.server_closed or self.closing:
            return
        self.server_closed = True
        self.inbox.clear()
        self.arriving.clear()
        loop = self.loop
        loop.cluster._conn_closed(self, by)
        t = loop._vt + delay
        if t < self.last_deliver:
            t = self.last_deliver
        self.last_deliver = t
        self.outbox.append(None)  # in-band EOF marker
        loop.sim_call_at(t, self.deliver)

    def _eof(self):
        if self.closing or self.eof_delivered:
            return
        self.eof_delivered = True
        self.outbox.clear()  # nothing may follow an EOF
        keep_open = self.proto.eof_received()
        if not keep_open and not self.closing:
            self.closing = True
            self._connection_lost(None)

    def detach(self):
        """The loop goes away: forget the connection without any callback."""
        self.closing = True
        self.server_closed = True
        self._lost_called = True


@contextlib.contextmanager
def virtual_time(loop):
    """Patch ``time.monotonic`` and ``time.time`` to the virtual clock of ``loop``."""
    real_monotonic, real_time = time.monotonic, time.time
    time.monotonic = loop.time
    time.time = lambda: EPOCH + loop.time()
    try:
        yield loop
    finally:
        time.monotonic, time.time = real_monotonic, real_time


def now_ms():
    """Virtual wall-clock milliseconds (``time.time()`` under ``virtual_time``).  Pass it as
    ``timestamp_ms=`` to ``producer.send``: the compiled record builder stamps records through
    C ``gettimeofday()``, which no Python patch reaches, so default timestamps are real time."""
    return int(time.time() * 1000)


class _ConnLogHook(logging.Handler):
    """aiokafka swallows unexpected exceptions of its socket reader task (it logs them and
    drops the connection).  Such an exception means our reply could not be decoded - a
    simulator bug - so turn it into a loud failure."""

    def __init__(self, loop):
        super().__init__(level=logging.ERROR)
        self.loop = loop

    def emit(self, record):
        try:
            msg = record.getMessage()
        except Exception:  # noqa: BLE001
            return
        if "Unexpected exception in AIOKafkaConnection" in msg:
            exc = record.exc_info[1] if record.exc_info else None
            bug = SimBug(f"the client could not process a simulator reply: {exc!r}")
            bug.__cause__ = exc
            self.loop._fatal(bug)


def await_chain(task_or_coro, limit=25):
    """Where a task is suspended: ``["outer (file:line)", ..., "innermost (file:line)"]``.
    Follows ``await other_task`` and describes the pending children of ``asyncio.gather``."""
    out = []
    task = task_or_coro if hasattr(task_or_coro, "get_coro") else None
    obj = task.get_coro() if task is not None else task_or_coro
    while obj is not None and len(out) < limit:
        frame = getattr(obj, "cr_frame", None) or getattr(obj, "gi_frame", None)
        if frame is not None:
            name = getattr(obj, "__qualname__", type(obj).__name__)
            fname = frame.f_code.co_filename.rsplit("/", 1)[-1]
            out.append(f"{name} ({fname}:{frame.f_lineno})")
        nxt = getattr(obj, "cr_await", None)
        if nxt is None:
            nxt = getattr(obj, "gi_yieldfrom", None)
        if not (hasattr(nxt, "cr_frame") or hasattr(nxt, "gi_frame")):
            break
        obj = nxt
    # the future the task is finally blocked on
    waiter = getattr(task, "_fut_waiter", None) if task is not None else None
    if waiter is not None and len(out) < limit:
        children = getattr(waiter, "_children", None)
        if children:
            for ch in children:
                if not ch.done():
                    sub = await_chain(ch, limit=limit)
                    name = ch.get_name() if hasattr(ch, "get_name") else "future"
                    out.append(f"[gather child {name}: {' > '.join(sub[-4:])}]")
        elif hasattr(waiter, "get_coro"):
            out.append(f"[task {waiter.get_name()}]")
            out.extend(await_chain(waiter, limit=limit - len(out)))
    return out


async def _settle(n=10):
    # let callbacks that are already queued (connection_lost, future wake-ups) run; the clock
    # does not move because the ready queue is never empty while we do this
    for _ in range(n):
        await asyncio.sleep(0)


def run(coro, cluster, *, max_vt=3600.0, grace=120.0):
    """Run ``coro`` to completion on a new virtual loop bound to ``cluster``.

    ``max_vt`` is relative to the virtual time at which this run starts (a cluster that is
    run several times keeps its clock).  The global ``random`` module (used by aiokafka for
    node choice) is seeded from ``cluster.seed`` for the duration of the run and restored.
    """
    loop = VLoop(cluster, start=cluster.now())
    deadline = loop.time() + max_vt
    state = {"timed_out": False, "task": None}
    hook = _ConnLogHook(loop)
    conn_logger = logging.getLogger("aiokafka.conn")
    rnd_state = random.getstate()
    random.seed(f"aiokafka-sim/{cluster.seed}/{cluster.runs}")

    def on_timeout():
        state["timed_out"] = True
        state["where"] = await_chain(state["task"])
        state["leftover"] = loop.leftover()  # what was alive when the hang was declared
        if state["task"] is not None and not state["task"].done():
            state["task"].cancel()
        # the cancelled coroutine may hang in its own cleanup: hard stop after a grace period
        loop.sim_call_later(grace, loop.stop)

    async def main():
        task = state["task"] = asyncio.ensure_future(coro)
        watchdog = loop.sim_call_at(deadline, on_timeout)
        try:
            return await task
        finally:
            watchdog.cancel()
            await _settle()
            cluster.leftover = state.get("leftover") or loop.leftover()

    result = None
    error = None
    conn_logger.addHandler(hook)
    try:
        with virtual_time(loop):
            cluster.bind(loop)
            try:
                result = loop.run_until_complete(main())
            except BaseException as exc:  # noqa: BLE001
                error = exc
            # -- tear down whatever is left so that the next run starts clean ---------------
            cluster.last_vt = loop.time()
            if cluster.leftover is None:
                try:
                    cluster.leftover = loop.leftover()
                except Exception:  # noqa: BLE001
                    pass
            try:
                _cancel_all(loop, drain=loop.fatal is None and not isinstance(error, SimBug))
            except BaseException as exc:  # noqa: BLE001
                if error is None and not isinstance(exc, RuntimeError):
                    error = exc
            cluster.unbind()
    finally:
        conn_logger.removeHandler(hook)
        random.setstate(rnd_state)
        try:
            loop.close()
        except Exception:  # noqa: BLE001
            pass

    if loop.fatal is not None:
        exc = loop.fatal
        if isinstance(exc, SimBug):
            raise exc
        raise SimBug(f"exception inside the simulator: {exc!r}") from exc
    if state["timed_out"]:
        exc = SimTimeout(
            f"virtual time passed {deadline:.3f}s and the main coroutine was not done; "
            f"it was waiting in: {' <- '.join(reversed(state.get('where') or ['?']))}"
        )
        exc.where = state.get("where")
        raise exc from (error if isinstance(error, Exception) else None)
    if error is not None:
        raise error
    return result


def _cancel_all(loop, drain=True):
    pending = [t for t in asyncio.all_tasks(loop) if not t.done()]
    if not pending:
        return
    if not drain:
        for t in pending:
            t._log_destroy_pending = False
        return
    for t in pending:
        t.cancel()
    loop._spin = 0

    async def _drain():
        # bounded: a task that refuses to die is abandoned
        for _ in range(200):
            if all(t.done() for t in pending):
                return
            await asyncio.sleep(0)

    loop._stopping = False
    loop.run_until_complete(_drain())
    for t in pending:
        if not t.done():
            t._log_destroy_pending = False
        elif not t.cancelled():
            t.exception()  # mark retrieved
