"""Partition log of the simulated broker: real v2 record batches with offsets assigned.

``PartitionLog`` fields (ground truth, read them freely from workloads):
  ``topic, partition, batches: [StoredBatch], log_start, leo`` (``hw == leo``), ``lso()``,
  ``aborted_index: [(pid, first_offset, marker_offset)]``, ``open_txns: {pid: first_offset}``,
  ``producers: {pid: ProducerState(epoch, last_seq, recent=[(base_seq, last_seq, base_offset, ts)])}``.
``StoredBatch`` fields:
  ``base_offset, last_offset, raw (bytes), records [(offset, ts, key, value, headers)], pid,
  epoch, base_seq, last_seq, is_txn, is_control, ctrl_type (0 abort / 1 commit / None), max_ts,
  append_vt``.
"""

from __future__ import annotations

import struct
from collections import deque

from aiokafka.record.default_records import DefaultRecordBatch, DefaultRecordBatchBuilder
from aiokafka.record.memory_records import MemoryRecords
from aiokafka.record.util import calc_crc32c

from .errors import SimBug

# v2 batch header: see aiokafka/record/default_records.py
HEADER = struct.Struct(">qiibIhiqqqhii")
HEADER_SIZE = HEADER.size  # 61
LOG_OVERHEAD = 12  # base offset (8) + length (4)
MAGIC_OFFSET = 16
CRC_OFFSET = 17
ATTR_OFFSET = 21
MAX_TS_OFFSET = 35

ATTR_TS_TYPE = 0x08
ATTR_TXN = 0x10
ATTR_CONTROL = 0x20

CTRL_ABORT = 0
CTRL_COMMIT = 1

SEQ_MOD = 1 << 31

# error codes used here
E_NONE = 0
E_CORRUPT = 2
E_OUT_OF_ORDER_SEQ = 45
E_DUPLICATE_SEQ = 46
E_INVALID_EPOCH = 47


def seq_next(seq):
    """Kafka's successor on sequence numbers: 0..2^31-1, successor of 2^31-1 is 0."""
    return 0 if seq == SEQ_MOD - 1 else seq + 1


def seq_add(seq, delta):
    return (seq + delta) % SEQ_MOD if seq >= 0 else seq + delta


class StoredBatch:
    __slots__ = (
        "base_offset",
        "last_offset",
        "raw",
        "records",
        "pid",
        "epoch",
        "base_seq",
        "last_seq",
        "is_txn",
        "is_control",
        "ctrl_type",
        "max_ts",
        "append_vt",
    )

    def __repr__(self):
        kind = "ctrl" if self.is_control else ("txn" if self.is_txn else "data")
        return (
            f"<Batch {self.base_offset}..{self.last_offset} {kind} pid={self.pid} "
            f"epoch={self.epoch} seq={self.base_seq} n={len(self.records)}>"
        )

    def as_dict(self):
        return {k: getattr(self, k) for k in self.__slots__}


class ProducerState:
    __slots__ = ("epoch", "last_seq", "recent")

    def __init__(self, epoch, last_seq):
        self.epoch = epoch
        self.last_seq = last_seq
        self.recent = deque(maxlen=5)  # (base_seq, last_seq, base_offset, timestamp)

    def __repr__(self):
        return f"<ProducerState epoch={self.epoch} last_seq={self.last_seq} recent={list(self.recent)}>"


class ParsedBatch:
    """One batch of a produce payload, header fields decoded (records not yet)."""

    __slots__ = (
        "raw",
        "magic",
        "attrs",
        "last_offset_delta",
        "first_ts",
        "max_ts",
        "pid",
        "epoch",
        "base_seq",
        "count",
        "crc_ok",
        "client_base",
        "_records",
    )

    @property
    def is_txn(self):
        return bool(self.attrs & ATTR_TXN)

    @property
    def is_control(self):
        return bool(self.attrs & ATTR_CONTROL)

    @property
    def last_seq(self):
        return seq_add(self.base_seq, self.last_offset_delta)

    def records(self):
        """[(offset_delta, ts, key, value, headers)] decoded once with the library decoder."""
        recs = self._records
        if recs is None:
            base = self.client_base
            recs = self._records = [
                (r.offset - base, r.timestamp, r.key, r.value, list(r.headers))
                for r in DefaultRecordBatch(self.raw)
            ]
            if len(recs) != self.count:
                raise SimBug(
                    f"batch header says {self.count} records, decoder found {len(recs)}"
                )
        return recs


def split_payload(data):
    """Split a produce payload into ParsedBatch objects (v2) - legacy message sets are
    up-converted into one v2 batch.  Raises SimBug on a truncated payload."""
    data = bytes(data)
    if len(data) < LOG_OVERHEAD + 5:
        raise SimBug(f"produce payload too short ({len(data)} bytes)")
    magic = data[MAGIC_OFFSET]
    if magic < 2:
        return [_upconvert_legacy(data)]
    out = []
    pos = 0
    n = len(data)
    while pos < n:
        if n - pos < HEADER_SIZE:
            raise SimBug("truncated record batch header in produce payload")
        (length,) = struct.unpack_from(">i", data, pos + 8)
        end = pos + LOG_OVERHEAD + length
        if end > n or length < HEADER_SIZE - LOG_OVERHEAD:
            raise SimBug("bad record batch length in produce payload")
        raw = data[pos:end]
        out.append(_parse_v2(raw))
        pos = end
    return out


def _parse_v2(raw):
    (
        client_base,
        _length,
        _leader_epoch,
        magic,
        crc,
        attrs,
        last_offset_delta,
        first_ts,
        max_ts,
        pid,
        epoch,
        base_seq,
        count,
    ) = HEADER.unpack_from(raw)
    if magic != 2:
        raise SimBug(f"unexpected magic {magic} inside a v2 payload")
    b = ParsedBatch()
    b.raw = raw
    b.magic = magic
    b.attrs = attrs
    b.last_offset_delta = last_offset_delta
    b.first_ts = first_ts
    b.max_ts = max_ts
    b.pid = pid
    b.epoch = epoch
    b.base_seq = base_seq
    b.count = count
    b.crc_ok = calc_crc32c(raw[ATTR_OFFSET:]) == crc
    b.client_base = client_base
    b._records = None
    return b


def _upconvert_legacy(data):
    """magic 0/1 message set -> one v2 batch holding the same records (CreateTime kept)."""
    recs = []
    mr = MemoryRecords(data)
    crc_ok = True
    while mr.has_next():
        lb = mr.next_batch()
        if not lb.validate_crc():
            crc_ok = False
        for r in lb:
            recs.append((r.timestamp if r.timestamp is not None else -1, r.key, r.value))
    if not recs:
        raise SimBug("empty legacy message set in produce payload")
    builder = DefaultRecordBatchBuilder(2, 0, 0, -1, -1, -1, 1 << 30)
    for i, (ts, key, value) in enumerate(recs):
        if builder.append(i, ts, key, value, []) is None:
            raise SimBug("could not up-convert legacy message set")
    b = _parse_v2(bytes(builder.build()))
    b.crc_ok = crc_ok
    return b


def _patch(raw, base_offset, log_append_ts=None, extra_attrs=0):
    """Return ``raw`` with the base offset replaced; optionally LogAppendTime / attribute bits
    patched in and the CRC-32C recomputed."""
    buf = bytearray(raw)
    struct.pack_into(">q", buf, 0, base_offset)
    if log_append_ts is not None or extra_attrs:
        (attrs,) = struct.unpack_from(">h", buf, ATTR_OFFSET)
        attrs |= extra_attrs
        if log_append_ts is not None:
            attrs |= ATTR_TS_TYPE
            struct.pack_into(">q", buf, MAX_TS_OFFSET, log_append_ts)
        struct.pack_into(">h", buf, ATTR_OFFSET, attrs)
        struct.pack_into(">I", buf, CRC_OFFSET, calc_crc32c(bytes(buf[ATTR_OFFSET:])))
    return bytes(buf)


def build_control_batch(pid, epoch, ctrl_type, ts_ms, coordinator_epoch=0):
    """A real v2 control batch (offset 0; the log patches the base offset in)."""
    builder = DefaultRecordBatchBuilder(2, 0, 1, pid, epoch, -1, 1 << 20)
    key = struct.pack(">hh", 0, ctrl_type)
    value = struct.pack(">hi", 0, coordinator_epoch)
    if builder.append(0, ts_ms, key, value, []) is None:
        raise SimBug("could not build control batch")
    return _patch(bytes(builder.build()), 0, extra_attrs=ATTR_CONTROL)


class PartitionLog:
    def __init__(self, topic, partition):
        self.topic = topic
        self.partition = partition
        self.batches = []
        self.log_start = 0
        self.leo = 0
        self.producers = {}
        self.open_txns = {}  # pid -> first offset of its open transaction (insertion order)
        self.aborted_index = []  # (pid, first_offset, marker_offset)
        self.waiters = []  # pending fetches to wake on append (managed by the cluster)

    def __repr__(self):
        return (
            f"<PartitionLog {self.topic}-{self.partition} start={self.log_start} "
            f"leo={self.leo} lso={self.lso()} batches={len(self.batches)}>"
        )

    # -- watermarks ------------------------------------------------------------------------
    @property
    def hw(self):
        return self.leo

    def lso(self):
        if self.open_txns:
            return min(self.open_txns.values())
        return self.leo

    # -- idempotent producer state -----------------------------------------------------------
    def seed_producer(self, pid, epoch, last_seq):
        """Pretend ``pid`` already wrote up to sequence ``last_seq`` with ``epoch``."""
        self.producers[pid] = ProducerState(epoch, last_seq)

    def check_sequence(self, pid, epoch, base_seq, last_seq):
        """Kafka's rule.  Returns ("append", None) | ("duplicate", (offset, ts)) |
        ("error", code)."""
        st = self.producers.get(pid)
        if st is None:
            if base_seq != 0:
                return "error", E_OUT_OF_ORDER_SEQ
            return "append", None
        if epoch < st.epoch:
            return "error", E_INVALID_EPOCH
        if epoch > st.epoch:
            if base_seq != 0:
                return "error", E_OUT_OF_ORDER_SEQ
            return "append", None
        for bs, ls, off, ts in st.recent:
            if bs == base_seq and ls == last_seq:
                return "duplicate", (off, ts)
        if st.last_seq < 0:
            # state created by a control marker only (no data yet for this epoch)
            expected = 0
        else:
            expected = seq_next(st.last_seq)
        if base_seq == expected:
            return "append", None
        if st.recent and 0 <= last_seq < st.recent[0][0]:
            return "error", E_DUPLICATE_SEQ
        return "error", E_OUT_OF_ORDER_SEQ

    # -- appends -----------------------------------------------------------------------------
    def append(self, parsed, now_vt, log_append_ts=None, verify=False):
        """Append a client batch (already validated).  Returns the StoredBatch.
        ``verify`` re-decodes the stored bytes and compares (self-check of the patching)."""
        base = self.leo
        raw = _patch(parsed.raw, base, log_append_ts)
        sb = StoredBatch()
        sb.base_offset = base
        sb.last_offset = base + parsed.last_offset_delta
        sb.raw = raw
        sb.pid = parsed.pid
        sb.epoch = parsed.epoch
        sb.base_seq = parsed.base_seq
        sb.last_seq = parsed.last_seq
        sb.is_txn = parsed.is_txn
        sb.is_control = False
        sb.ctrl_type = None
        sb.max_ts = log_append_ts if log_append_ts is not None else parsed.max_ts
        sb.append_vt = now_vt
        if log_append_ts is None:
            sb.records = [
                (base + d, ts, key, value, headers)
                for d, ts, key, value, headers in parsed.records()
            ]
        else:
            sb.records = [
                (base + d, log_append_ts, key, value, headers)
                for d, _ts, key, value, headers in parsed.records()
            ]
        if verify:
            stored = DefaultRecordBatch(raw)
            if not stored.validate_crc():
                raise SimBug("stored batch fails its CRC")
            again = [
                (r.offset, r.timestamp, r.key, r.value, list(r.headers)) for r in stored
            ]
            if again != sb.records:
                raise SimBug(f"stored batch decodes differently: {again} != {sb.records}")
        self.batches.append(sb)
        self.leo = sb.last_offset + 1
        if parsed.pid >= 0:
            st = self.producers.get(parsed.pid)
            if st is None or parsed.epoch > st.epoch:
                st = self.producers[parsed.pid] = ProducerState(parsed.epoch, -1)
            st.last_seq = sb.last_seq
            st.recent.append((sb.base_seq, sb.last_seq, base, sb.max_ts if log_append_ts is not None else -1))
            if sb.is_txn and parsed.pid not in self.open_txns:
                self.open_txns[parsed.pid] = base
        return sb

    def append_marker(self, pid, epoch, ctrl_type, ts_ms, now_vt, coordinator_epoch=0):
        """Append a COMMIT / ABORT control batch for ``pid``.  Returns the StoredBatch."""
        base = self.leo
        raw = _patch(build_control_batch(pid, epoch, ctrl_type, ts_ms, coordinator_epoch), base)
        sb = StoredBatch()
        sb.base_offset = sb.last_offset = base
        sb.raw = raw
        sb.pid = pid
        sb.epoch = epoch
        sb.base_seq = -1
        sb.last_seq = -1
        sb.is_txn = True
        sb.is_control = True
        sb.ctrl_type = ctrl_type
        sb.max_ts = ts_ms
        sb.append_vt = now_vt
        sb.records = [
            (r.offset, r.timestamp, r.key, r.value, list(r.headers))
            for r in DefaultRecordBatch(raw)
        ]
        self.batches.append(sb)
        self.leo = base + 1
        first = self.open_txns.pop(pid, None)
        if ctrl_type == CTRL_ABORT and first is not None:
            self.aborted_index.append((pid, first, base))
        st = self.producers.get(pid)
        if st is None:
            self.producers[pid] = ProducerState(epoch, -1)
        elif epoch > st.epoch:
            # a bumped epoch fences the old one; sequences restart at 0
            self.producers[pid] = ProducerState(epoch, -1)
        return sb

    # -- reads -------------------------------------------------------------------------------
    def visible_batches(self, fetch_offset, upper):
        """Stored batches with last_offset >= fetch_offset and base_offset < upper."""
        batches = self.batches
        # binary search for the first batch whose last offset >= fetch_offset
        lo, hi = 0, len(batches)
        while lo < hi:
            mid = (lo + hi) // 2
            if batches[mid].last_offset < fetch_offset:
                lo = mid + 1
            else:
                hi = mid
        out = []
        for i in range(lo, len(batches)):
            b = batches[i]
            if b.base_offset >= upper:
                break
            out.append(b)
        return out

    def aborted_for(self, fetch_offset, end_offset):
        """(pid, first_offset) of aborted txns with marker >= fetch_offset and first < end."""
        return [
            (pid, first)
            for pid, first, marker in self.aborted_index
            if marker >= fetch_offset and first < end_offset
        ]

    def offset_for_timestamp(self, ts, upper):
        """First (timestamp, offset) with record timestamp >= ts below ``upper``, else None."""
        for b in self.batches:
            if b.is_control:
                continue
            if b.base_offset >= upper:
                break
            if b.max_ts < ts:
                continue
            for off, rts, *_ in b.records:
                if rts >= ts and self.log_start <= off < upper:
                    return rts, off
        return None

    def delete_records_before(self, offset):
        """Retention step: move log_start to ``offset`` and drop batches entirely below it."""
        if offset > self.leo:
            raise SimBug("delete_records_before beyond the log end")
        if offset <= self.log_start:
            return
        self.log_start = offset
        self.batches = [b for b in self.batches if b.last_offset >= offset]

    # -- ground truth (independent of aborted_index / lso bookkeeping) --------------------------
    def read_uncommitted(self):
        out = []
        for b in self.batches:
            if b.is_control:
                continue
            for off, ts, key, value, headers in b.records:
                if off >= self.log_start:
                    out.append((off, key, value, ts, headers))
        return out

    def read_committed(self):
        """What an ideal read_committed reader sees: non-transactional data and data of
        committed transactions, up to the first offset of the earliest still-open
        transaction.  Decided from the markers alone."""
        batches = self.batches
        # outcome of every transactional data batch = type of the next marker of its pid
        outcome = [None] * len(batches)
        pending = {}  # pid -> [indices of data batches waiting for a marker]
        for i, b in enumerate(batches):
            if b.is_control:
                for j in pending.pop(b.pid, ()):
                    outcome[j] = b.ctrl_type
            elif b.is_txn:
                pending.setdefault(b.pid, []).append(i)
        stable_end = self.leo
        for idxs in pending.values():
            stable_end = min(stable_end, batches[idxs[0]].base_offset)
        out = []
        for i, b in enumerate(batches):
            if b.base_offset >= stable_end:
                break
            if b.is_control:
                continue
            if b.is_txn and outcome[i] != CTRL_COMMIT:
                continue
            for off, ts, key, value, headers in b.records:
                if off >= self.log_start:
                    out.append((off, key, value, ts, headers))
        return out
