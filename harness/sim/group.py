"""Group coordinator of the simulated cluster (one ``Group`` object per group id).

Follows DESIGN.md Appendix F / Kafka 2.x ``GroupCoordinator``:
states ``Empty -> PreparingRebalance -> CompletingRebalance -> Stable``; join barrier with
rebalance timeout; MEMBER_ID_REQUIRED for JoinGroup >= v4; SyncGroup barrier; session expiry by
virtual time (suspended while a member's JoinGroup / SyncGroup is parked, as in Kafka);
committed offsets validated by generation / member; pending transactional offsets.

Every decision is traced as a ``group`` event:
``{"ev": "group", "group", "op", "member", "generation", "outcome", ...}`` with ``op`` in
``join, sync, heartbeat, leave, commit, fetch_offsets, txn_commit`` (requests; ``outcome`` = error
code, 0 = ok, ``"parked"`` = reply withheld) and ``prepare_rebalance, generation, stable, expire,
evict, expire_pending, reset`` (coordinator transitions).
"""

from __future__ import annotations

from .errors import SimBug

EMPTY = "Empty"
PREPARING = "PreparingRebalance"
COMPLETING = "CompletingRebalance"
STABLE = "Stable"

E_NONE = 0
E_UNKNOWN_TOPIC_OR_PARTITION = 3
E_ILLEGAL_GENERATION = 22
E_INCONSISTENT_GROUP_PROTOCOL = 23
E_UNKNOWN_MEMBER_ID = 25
E_REBALANCE_IN_PROGRESS = 27
E_INVALID_PRODUCER_EPOCH = 47
E_MEMBER_ID_REQUIRED = 79


class Member:
    __slots__ = (
        "id",
        "client",
        "session_timeout",
        "rebalance_timeout",
        "protocols",
        "join_rq",
        "sync_rq",
        "assignment",
        "session_timer",
        "instance_id",
    )

    def __init__(self, member_id, client):
        self.id = member_id
        self.client = client
        self.session_timeout = 10.0
        self.rebalance_timeout = 10.0
        self.protocols = []
        self.join_rq = None
        self.sync_rq = None
        self.assignment = b""
        self.session_timer = None
        self.instance_id = None


class Group:
    def __init__(self, cluster, group_id):
        self.cluster = cluster
        self.id = group_id
        self.state = EMPTY
        self.generation = 0
        self.protocol_type = None
        self.protocol = None
        self.leader = None
        self.members = {}  # member id -> Member, insertion order = join order
        self.pending_members = {}  # member id handed out with MEMBER_ID_REQUIRED -> timer
        self.rebalance_timer = None
        self.hold_until = 0.0
        self.committed = {}  # (topic, partition) -> (offset, metadata)
        self.pending_txn_offsets = {}  # pid -> {(topic, partition): (offset, metadata)}
        self.history = []  # one dict per generation

    # -- helpers ---------------------------------------------------------------------------
    def _ev(self, op, member=None, outcome=None, **kw):
        self.cluster._ev(
            "group",
            group=self.id,
            op=op,
            member=member,
            generation=self.generation,
            outcome=outcome,
            **kw,
        )

    def _now(self):
        return self.cluster.now()

    def _touch(self, m):
        if m.session_timer is not None:
            m.session_timer.cancel()
        m.session_timer = self.cluster._timer(m.session_timeout, self._on_session_expired, m.id)

    def _common_protocols(self, extra=None):
        """Protocol names supported by every member (and by ``extra`` when given), in the
        order of the first member's list."""
        lists = [[n for n, _ in m.protocols] for m in self.members.values()]
        if extra is not None:
            lists.append([n for n, _ in extra])
        if not lists:
            return []
        return [n for n in lists[0] if all(n in other for other in lists[1:])]

    # -- JoinGroup ---------------------------------------------------------------------------
    def _join_reply(self, rq, error, member_id, members=()):
        fields = {
            "error_code": error,
            "generation_id": self.generation if error == 0 else -1,
            "group_protocol": (self.protocol or "") if error == 0 else "",
            "leader_id": (self.leader or "") if error == 0 else "",
            "member_id": member_id,
            "members": list(members),
        }
        self.cluster.reply(rq, **fields)

    def _join_success(self, m, rq):
        if m.id == self.leader:
            members = []
            for mm in self.members.values():
                meta = dict(mm.protocols)[self.protocol]
                if rq.version >= 5:
                    members.append((mm.id, mm.instance_id, meta))
                else:
                    members.append((mm.id, meta))
        else:
            members = []
        self._join_reply(rq, 0, m.id, members)

    def handle_join(self, rq):
        req = rq.req
        v = rq.version
        member_id = req.member_id or ""
        protocols = [(n, bytes(md)) for n, md in (req.group_protocols or [])]
        if not protocols:
            self._ev("join", member_id, E_INCONSISTENT_GROUP_PROTOCOL)
            return self._join_reply(rq, E_INCONSISTENT_GROUP_PROTOCOL, member_id)
        if self.members and (
            req.protocol_type != self.protocol_type
            or not self._common_protocols_for_join(member_id, protocols)
        ):
            self._ev("join", member_id, E_INCONSISTENT_GROUP_PROTOCOL)
            return self._join_reply(rq, E_INCONSISTENT_GROUP_PROTOCOL, member_id)

        if member_id == "":
            new_id = self.cluster._new_member_id(rq.client)
            if v >= 4:
                session = req.session_timeout / 1000.0
                self.pending_members[new_id] = self.cluster._timer(
                    session, self._expire_pending, new_id
                )
                self._ev("join", new_id, E_MEMBER_ID_REQUIRED)
                return self._join_reply(rq, E_MEMBER_ID_REQUIRED, new_id)
            m = Member(new_id, rq.client)
            self._update_member(m, rq, protocols)
            return self._add_member_and_rebalance(m)

        m = self.members.get(member_id)
        if m is None:
            timer = self.pending_members.pop(member_id, None)
            if timer is None:
                self._ev("join", member_id, E_UNKNOWN_MEMBER_ID)
                return self._join_reply(rq, E_UNKNOWN_MEMBER_ID, member_id)
            timer.cancel()
            m = Member(member_id, rq.client)
            self._update_member(m, rq, protocols)
            return self._add_member_and_rebalance(m)

        # known member re-joining
        old_rq = m.join_rq
        if old_rq is not None and old_rq is not rq:
            self.cluster.abandon(old_rq)  # Kafka overwrites the parked callback
        if self.state == PREPARING:
            self._update_member(m, rq, protocols)
            self._ev("join", m.id, "parked")
            self._maybe_complete_join()
        elif self.state == COMPLETING:
            if m.protocols == protocols:
                # same metadata: hand out the current generation again
                self._ev("join", m.id, 0, note="current_generation")
                self._join_success(m, rq)
            else:
                self._update_member(m, rq, protocols)
                self._ev("join", m.id, "parked")
                self._prepare_rebalance()
                self._maybe_complete_join()
        elif self.state == STABLE:
            if m.id == self.leader or m.protocols != protocols:
                self._update_member(m, rq, protocols)
                self._ev("join", m.id, "parked")
                self._prepare_rebalance()
                self._maybe_complete_join()
            else:
                self._ev("join", m.id, 0, note="current_generation")
                self._join_success(m, rq)
        else:
            raise SimBug(f"group {self.id}: member {m.id} present in state {self.state}")

    def _common_protocols_for_join(self, member_id, protocols):
        names = [n for n, _ in protocols]
        for m in self.members.values():
            if m.id == member_id:
                continue
            names = [n for n in names if n in [x for x, _ in m.protocols]]
        return names

    def _update_member(self, m, rq, protocols):
        req = rq.req
        m.client = rq.client
        m.session_timeout = req.session_timeout / 1000.0
        if rq.version >= 1:
            m.rebalance_timeout = req.rebalance_timeout / 1000.0
        else:
            m.rebalance_timeout = m.session_timeout
        m.instance_id = getattr(req, "group_instance_id", None)
        m.protocols = protocols
        m.join_rq = rq
        if not self.members:
            self.protocol_type = req.protocol_type

    def _add_member_and_rebalance(self, m):
        if not self.members:
            self.protocol_type = m.join_rq.req.protocol_type
        self.members[m.id] = m
        if self.leader is None:
            self.leader = m.id
        self._ev("join", m.id, "parked", note="new_member")
        if self.state != PREPARING:
            self._prepare_rebalance()
        self._maybe_complete_join()

    def _prepare_rebalance(self):
        prev = self.state
        if prev == COMPLETING:
            for m in self.members.values():
                if m.sync_rq is not None:
                    rq, m.sync_rq = m.sync_rq, None
                    self._sync_reply(rq, E_REBALANCE_IN_PROGRESS, b"")
        self.state = PREPARING
        if self.rebalance_timer is not None:
            self.rebalance_timer.cancel()
        timeout = max((m.rebalance_timeout for m in self.members.values()), default=0.0)
        self.rebalance_timer = self.cluster._timer(timeout, self._on_rebalance_timeout)
        delay = self.cluster.group_initial_rebalance_delay
        if prev == EMPTY and delay > 0:
            self.hold_until = self._now() + delay
            self.cluster._timer(delay, self._maybe_complete_join)
        else:
            self.hold_until = 0.0
        self._ev("prepare_rebalance", None, prev)

    def _maybe_complete_join(self):
        if self.state != PREPARING:
            return
        if self._now() < self.hold_until:
            return
        if all(m.join_rq is not None for m in self.members.values()):
            self._complete_join()

    def _on_rebalance_timeout(self):
        self.rebalance_timer = None
        if self.state != PREPARING:
            return
        for m in [m for m in self.members.values() if m.join_rq is None]:
            del self.members[m.id]
            if m.session_timer is not None:
                m.session_timer.cancel()
            if m.sync_rq is not None:
                rq, m.sync_rq = m.sync_rq, None
                self._sync_reply(rq, E_UNKNOWN_MEMBER_ID, b"")
            self._ev("evict", m.id, "rebalance_timeout")
        self._complete_join()

    def _complete_join(self):
        if self.rebalance_timer is not None:
            self.rebalance_timer.cancel()
            self.rebalance_timer = None
        self.generation += 1
        if not self.members:
            self.state = EMPTY
            self.protocol = None
            self.leader = None
            self._ev("generation", None, EMPTY, members=[])
            return
        common = self._common_protocols()
        if not common:
            raise SimBug(f"group {self.id}: no common protocol at generation end")
        self.protocol = common[0]
        if self.leader not in self.members:
            self.leader = next(iter(self.members))
        self.state = COMPLETING
        for m in self.members.values():
            m.assignment = b""
        self.history.append(
            {
                "generation": self.generation,
                "vt": self.cluster._vt_ms(),
                "protocol": self.protocol,
                "leader": self.leader,
                "members": list(self.members),
                "assignments": None,
            }
        )
        self._ev(
            "generation",
            self.leader,
            COMPLETING,
            members=list(self.members),
            protocol=self.protocol,
        )
        for m in list(self.members.values()):
            rq, m.join_rq = m.join_rq, None
            self._join_success(m, rq)
            self._touch(m)

    def _expire_pending(self, member_id):
        if self.pending_members.pop(member_id, None) is not None:
            self._ev("expire_pending", member_id, None)

    # -- SyncGroup ---------------------------------------------------------------------------
    def _sync_reply(self, rq, error, assignment):
        self.cluster.reply(rq, error_code=error, member_assignment=assignment)

    def handle_sync(self, rq):
        req = rq.req
        m = self.members.get(req.member_id)
        if self.state == EMPTY or m is None:
            self._ev("sync", req.member_id, E_UNKNOWN_MEMBER_ID)
            return self._sync_reply(rq, E_UNKNOWN_MEMBER_ID, b"")
        if req.generation_id != self.generation:
            self._ev("sync", m.id, E_ILLEGAL_GENERATION, request_generation=req.generation_id)
            return self._sync_reply(rq, E_ILLEGAL_GENERATION, b"")
        if self.state == PREPARING:
            self._ev("sync", m.id, E_REBALANCE_IN_PROGRESS)
            return self._sync_reply(rq, E_REBALANCE_IN_PROGRESS, b"")
        if self.state == COMPLETING:
            if m.sync_rq is not None and m.sync_rq is not rq:
                self.cluster.abandon(m.sync_rq)
            m.sync_rq = rq
            if m.id != self.leader:
                self._ev("sync", m.id, "parked")
                return None
            given = {mid: bytes(a) for mid, a in (req.group_assignment or [])}
            for mm in self.members.values():
                mm.assignment = given.get(mm.id, b"")
            self.history[-1]["assignments"] = {
                mm.id: mm.assignment.hex() for mm in self.members.values()
            }
            self.state = STABLE
            self._ev(
                "stable",
                m.id,
                0,
                assignments={mm.id: mm.assignment.hex() for mm in self.members.values()},
            )
            for mm in list(self.members.values()):
                if mm.sync_rq is not None:
                    srq, mm.sync_rq = mm.sync_rq, None
                    self._ev("sync", mm.id, 0)
                    self._sync_reply(srq, 0, mm.assignment)
                    self._touch(mm)
            return None
        # Stable
        self._ev("sync", m.id, 0)
        self._touch(m)
        return self._sync_reply(rq, 0, m.assignment)

    # -- Heartbeat / Leave / expiry --------------------------------------------------------------
    def handle_heartbeat(self, rq):
        req = rq.req
        m = self.members.get(req.member_id)
        if self.state == EMPTY or m is None:
            code = E_UNKNOWN_MEMBER_ID
        elif req.generation_id != self.generation:
            code = E_ILLEGAL_GENERATION
        elif self.state in (PREPARING, COMPLETING):
            self._touch(m)
            code = E_REBALANCE_IN_PROGRESS
        else:
            self._touch(m)
            code = 0
        self._ev("heartbeat", req.member_id, code)
        self.cluster.reply(rq, error_code=code)

    def handle_leave(self, rq):
        req = rq.req
        m = self.members.get(req.member_id)
        if m is None:
            timer = self.pending_members.pop(req.member_id, None)
            if timer is not None:
                timer.cancel()
                code = 0
            else:
                code = E_UNKNOWN_MEMBER_ID
            self._ev("leave", req.member_id, code)
            return self.cluster.reply(rq, error_code=code)
        self._ev("leave", m.id, 0)
        self.cluster.reply(rq, error_code=0)
        self._remove_member(m)

    def _on_session_expired(self, member_id):
        m = self.members.get(member_id)
        if m is None:
            return
        m.session_timer = None
        if m.join_rq is not None or m.sync_rq is not None:
            # Kafka keeps a member alive while its JoinGroup / SyncGroup is parked
            self._touch(m)
            return
        self._ev("expire", m.id, "session_timeout")
        self._remove_member(m)

    def _remove_member(self, m):
        del self.members[m.id]
        if m.session_timer is not None:
            m.session_timer.cancel()
            m.session_timer = None
        if m.join_rq is not None:
            rq, m.join_rq = m.join_rq, None
            self._join_reply(rq, E_UNKNOWN_MEMBER_ID, m.id)
        if m.sync_rq is not None:
            rq, m.sync_rq = m.sync_rq, None
            self._sync_reply(rq, E_UNKNOWN_MEMBER_ID, b"")
        if self.leader == m.id:
            self.leader = next(iter(self.members), None)
        if self.state in (STABLE, COMPLETING):
            self._prepare_rebalance()
            self._maybe_complete_join()
        elif self.state == PREPARING:
            self._maybe_complete_join()

    # -- offsets -----------------------------------------------------------------------------
    def _commit_check(self, generation, member_id):
        """Error code for a commit carrying (generation, member)."""
        if generation < 0 and not member_id:
            return 0  # simple consumer
        if member_id not in self.members:
            return E_UNKNOWN_MEMBER_ID
        if generation != self.generation:
            return E_ILLEGAL_GENERATION
        if self.state == COMPLETING:
            return E_REBALANCE_IN_PROGRESS
        return 0

    def handle_offset_commit(self, rq):
        req = rq.req
        v = rq.version
        if v >= 1:
            generation = req.consumer_group_generation_id
            member_id = req.consumer_id or ""
        else:
            generation, member_id = -1, ""
        code = self._commit_check(generation, member_id)
        if code == 0 and member_id in self.members:
            self._touch(self.members[member_id])
        inj = rq.inject
        out = []
        stored = []
        for topic, parts in req.topics:
            po = []
            for p in parts:
                partition, offset, metadata = p[0], p[1], p[-1]
                tp = (topic, partition)
                if inj is not None and (inj[1] is None or inj[1] == tp):
                    pc = inj[0]
                elif code:
                    pc = code
                elif tp not in self.cluster.logs:
                    pc = E_UNKNOWN_TOPIC_OR_PARTITION
                else:
                    pc = 0
                    self.committed[tp] = (offset, metadata)
                    stored.append((topic, partition, offset))
                po.append((partition, pc))
            out.append((topic, po))
        self._ev(
            "commit",
            member_id,
            code,
            request_generation=generation,
            offsets=stored,
        )
        self.cluster.reply(rq, topics=out)

    def handle_offset_fetch(self, rq):
        req = rq.req
        v = rq.version
        inj = rq.inject
        if req.topics is None:
            wanted = {}
            for (t, p) in self.committed:
                wanted.setdefault(t, []).append(p)
            topics = [(t, sorted(ps)) for t, ps in wanted.items()]
        else:
            topics = req.topics
        out = []
        got = []
        if inj is not None and inj[1] is None and v >= 2:
            # an error injected for the whole request is a group-level error: v2+ reports it in the top-level
            # field only, with no partition entries (as a real broker does)
            self._ev("fetch_offsets", None, inj[0])
            self.cluster.reply(rq, topics=[], error_code=inj[0])
            return
        for topic, parts in topics:
            po = []
            for partition in parts:
                tp = (topic, partition)
                if inj is not None and (inj[1] is None or inj[1] == tp):
                    po.append((partition, -1, "", inj[0]))
                    continue
                entry = self.committed.get(tp)
                if entry is None:
                    po.append((partition, -1, "", 0))
                else:
                    po.append((partition, entry[0], entry[1], 0))
                    got.append((topic, partition, entry[0]))
            out.append((topic, po))
        self._ev("fetch_offsets", None, 0, offsets=got)
        fields = {"topics": out}
        if v >= 2:
            fields["error_code"] = inj[0] if inj is not None and inj[1] is None else 0
        self.cluster.reply(rq, **fields)

    def handle_txn_offset_commit(self, rq, code):
        """``code`` != 0: refuse everything with that code (decided by the cluster)."""
        req = rq.req
        inj = rq.inject
        out = []
        stored = []
        pending = None
        for topic, parts in req.topics:
            po = []
            for partition, offset, metadata in parts:
                tp = (topic, partition)
                if inj is not None and (inj[1] is None or inj[1] == tp):
                    pc = inj[0]
                elif code:
                    pc = code
                elif tp not in self.cluster.logs:
                    pc = E_UNKNOWN_TOPIC_OR_PARTITION
                else:
                    pc = 0
                    if pending is None:
                        pending = self.pending_txn_offsets.setdefault(req.producer_id, {})
                    pending[tp] = (offset, metadata)
                    stored.append((topic, partition, offset))
                po.append((partition, pc))
            out.append((topic, po))
        self._ev(
            "txn_commit",
            None,
            code,
            pid=req.producer_id,
            epoch=req.producer_epoch,
            txid=req.transactional_id,
            offsets=stored,
        )
        self.cluster.reply(rq, errors=out)

    def complete_txn(self, pid, commit):
        """EndTxn reached this group: materialise or drop the pending offsets of ``pid``."""
        pending = self.pending_txn_offsets.pop(pid, None)
        if not pending:
            return []
        if commit:
            self.committed.update(pending)
        return [(t, p, o) for (t, p), (o, _m) in pending.items()]

    # -- failover / inspection ---------------------------------------------------------------
    def reset_members(self, error=16):
        """Coordinator moved without state: members and generation bookkeeping are lost,
        committed offsets (which live in ``__consumer_offsets``) survive."""
        for m in list(self.members.values()):
            if m.session_timer is not None:
                m.session_timer.cancel()
            if m.join_rq is not None:
                rq, m.join_rq = m.join_rq, None
                self._join_reply(rq, error, m.id)
            if m.sync_rq is not None:
                rq, m.sync_rq = m.sync_rq, None
                self._sync_reply(rq, error, b"")
        for t in self.pending_members.values():
            t.cancel()
        self.pending_members = {}
        self.members = {}
        if self.rebalance_timer is not None:
            self.rebalance_timer.cancel()
            self.rebalance_timer = None
        self.state = EMPTY
        self.leader = None
        self.protocol = None
        self._ev("reset", None, None)

    def fail_parked(self, error=16):
        """Coordinator moved with state: parked requests on the old node are answered
        NOT_COORDINATOR, everything else stays."""
        for m in self.members.values():
            if m.join_rq is not None:
                rq, m.join_rq = m.join_rq, None
                self._join_reply(rq, error, m.id)
            if m.sync_rq is not None:
                rq, m.sync_rq = m.sync_rq, None
                self._sync_reply(rq, error, b"")

    def snapshot(self):
        return {
            "group": self.id,
            "state": self.state,
            "generation": self.generation,
            "protocol_type": self.protocol_type,
            "protocol": self.protocol,
            "leader": self.leader,
            "members": {
                m.id: {
                    "client": m.client,
                    "session_timeout": m.session_timeout,
                    "rebalance_timeout": m.rebalance_timeout,
                    "protocols": [n for n, _ in m.protocols],
                    "assignment": m.assignment.hex(),
                    "assigned": decode_assignment(m.assignment),
                }
                for m in self.members.values()
            },
            "pending_members": list(self.pending_members),
            "committed": {tp: off for tp, (off, _m) in self.committed.items()},
            "pending_txn_offsets": {
                pid: {tp: off for tp, (off, _m) in d.items()}
                for pid, d in self.pending_txn_offsets.items()
            },
            "history": [
                dict(
                    h,
                    assigned=(
                        {
                            mid: decode_assignment(bytes.fromhex(a))
                            for mid, a in h["assignments"].items()
                        }
                        if h["assignments"] is not None
                        else None
                    ),
                )
                for h in self.history
            ],
        }


def decode_assignment(data):
    """ConsumerProtocol MemberAssignment bytes -> sorted [(topic, partition)] (None if not
    decodable / empty)."""
    if not data:
        return []
    try:
        from aiokafka.protocol.group import MemberAssignment

        ma = MemberAssignment.decode(bytes(data))
        return sorted((t, p) for t, ps in ma.assignment for p in ps)
    except Exception:  # noqa: BLE001
        return None
