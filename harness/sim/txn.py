"""Transaction coordinator of the simulated cluster (KIP-98, DESIGN.md Appendix F).

Per transactional id a ``TxnEntry`` with states
``Empty -> Ongoing -> PrepareCommit|PrepareAbort -> CompleteCommit|CompleteAbort -> Ongoing ...``.
Markers are written to every registered partition at the instant EndTxn is applied; the entry
then stays in ``Prepare*`` for ``cluster.txn_completion_delay`` virtual seconds, during which
every request for that id is answered CONCURRENT_TRANSACTIONS (51) (the KAFKA-5477 window).

Every decision is traced as ``{"ev": "txn", "txid", "op", "outcome", "pid", "epoch", ...}`` with
``op`` in ``init, add_partitions, add_offsets, end, fence_abort, timeout_abort, complete``.
"""

from __future__ import annotations

from .log import CTRL_ABORT, CTRL_COMMIT

S_EMPTY = "Empty"
S_ONGOING = "Ongoing"
S_PREPARE_COMMIT = "PrepareCommit"
S_PREPARE_ABORT = "PrepareAbort"
S_COMPLETE_COMMIT = "CompleteCommit"
S_COMPLETE_ABORT = "CompleteAbort"

E_UNKNOWN_TOPIC_OR_PARTITION = 3
E_INVALID_PRODUCER_EPOCH = 47
E_INVALID_TXN_STATE = 48
E_INVALID_PRODUCER_ID_MAPPING = 49
E_CONCURRENT_TRANSACTIONS = 51
E_TRANSACTIONAL_ID_AUTHORIZATION_FAILED = 53
E_OPERATION_NOT_ATTEMPTED = 55
E_TOPIC_AUTHORIZATION_FAILED = 29
E_GROUP_AUTHORIZATION_FAILED = 30


class TxnEntry:
    __slots__ = (
        "txid",
        "pid",
        "epoch",
        "state",
        "partitions",
        "groups",
        "timeout",
        "completing_timer",
        "timeout_timer",
        "txn_no",
    )

    def __init__(self, txid, pid):
        self.txid = txid
        self.pid = pid
        self.epoch = -1
        self.state = S_EMPTY
        self.partitions = []  # registered (topic, partition), in registration order
        self.groups = []  # registered consumer groups
        self.timeout = 60.0
        self.completing_timer = None
        self.timeout_timer = None
        self.txn_no = 0  # counts transactions begun (for the timeout timer)

    def snapshot(self):
        return {
            "txid": self.txid,
            "pid": self.pid,
            "epoch": self.epoch,
            "state": self.state,
            "partitions": list(self.partitions),
            "groups": list(self.groups),
        }


class TxnCoordinator:
    def __init__(self, cluster):
        self.cluster = cluster
        self.entries = {}  # transactional id -> TxnEntry
        self.by_pid = {}  # pid -> TxnEntry (transactional producers only)
        self.next_pid = 1

    def _ev(self, entry_or_txid, op, outcome, **kw):
        if isinstance(entry_or_txid, TxnEntry):
            e = entry_or_txid
            self.cluster._ev(
                "txn", txid=e.txid, op=op, outcome=outcome, pid=e.pid, epoch=e.epoch, **kw
            )
        else:
            self.cluster._ev("txn", txid=entry_or_txid, op=op, outcome=outcome, **kw)

    def alloc_pid(self):
        pid = self.next_pid
        self.next_pid += 1
        return pid

    # -- InitProducerId ----------------------------------------------------------------------
    def init_producer_id(self, rq):
        req = rq.req
        txid = req.transactional_id
        cluster = self.cluster
        if rq.inject is not None:
            self._ev(txid, "init", rq.inject[0], injected=True)
            return cluster.reply(
                rq, error_code=rq.inject[0], producer_id=-1, producer_epoch=-1
            )
        if txid is None:
            # idempotent-only producer: a fresh pid from any broker
            pid = self.alloc_pid()
            self._ev(None, "init", 0, pid=pid, epoch=0)
            return cluster.reply(rq, error_code=0, producer_id=pid, producer_epoch=0)
        code = cluster._txn_gate(rq, txid)
        if code:
            self._ev(txid, "init", code)
            return cluster.reply(rq, error_code=code, producer_id=-1, producer_epoch=-1)
        e = self.entries.get(txid)
        if e is None:
            e = self.entries[txid] = TxnEntry(txid, self.alloc_pid())
            self.by_pid[e.pid] = e
        if e.state in (S_PREPARE_COMMIT, S_PREPARE_ABORT):
            self._ev(e, "init", E_CONCURRENT_TRANSACTIONS)
            return cluster.reply(
                rq, error_code=E_CONCURRENT_TRANSACTIONS, producer_id=-1, producer_epoch=-1
            )
        if e.state == S_ONGOING:
            # fence the old incarnation first: bump the epoch, abort with markers
            e.epoch += 1
            self._ev(e, "fence_abort", 0, partitions=list(e.partitions), groups=list(e.groups))
            self._end(e, commit=False)
            if e.state == S_PREPARE_ABORT:
                self._ev(e, "init", E_CONCURRENT_TRANSACTIONS)
                return cluster.reply(
                    rq,
                    error_code=E_CONCURRENT_TRANSACTIONS,
                    producer_id=-1,
                    producer_epoch=-1,
                )
        e.epoch += 1
        e.timeout = (req.transaction_timeout_ms or 60000) / 1000.0
        e.state = S_EMPTY
        self._ev(e, "init", 0)
        cluster.reply(rq, error_code=0, producer_id=e.pid, producer_epoch=e.epoch)

    # -- validation shared by the other requests ------------------------------------------------
    def _check(self, rq, txid, pid, epoch):
        """-> (entry, 0) or (None/entry, error code)."""
        code = self.cluster._txn_gate(rq, txid)
        if code:
            return None, code
        e = self.entries.get(txid)
        if e is None or e.pid != pid:
            return e, E_INVALID_PRODUCER_ID_MAPPING
        if epoch != e.epoch:
            return e, E_INVALID_PRODUCER_EPOCH
        if e.state in (S_PREPARE_COMMIT, S_PREPARE_ABORT):
            return e, E_CONCURRENT_TRANSACTIONS
        return e, 0

    def _begin_if_needed(self, e):
        if e.state != S_ONGOING:
            e.state = S_ONGOING
            e.partitions = []
            e.groups = []
            e.txn_no += 1
            if self.cluster.enforce_txn_timeout:
                if e.timeout_timer is not None:
                    e.timeout_timer.cancel()
                e.timeout_timer = self.cluster._timer(
                    e.timeout, self._on_txn_timeout, e, e.txn_no
                )

    # -- AddPartitionsToTxn --------------------------------------------------------------------
    def add_partitions(self, rq):
        req = rq.req
        cluster = self.cluster
        tps = [(t, p) for t, ps in req.topics for p in ps]
        e, code = self._check(rq, req.transactional_id, req.producer_id, req.producer_epoch)
        per = {}
        if rq.inject is not None:
            icode, itp = rq.inject
            if itp is None:
                code = icode
            else:
                # one partition refused, the others not attempted (nothing registered)
                per = {tp: (icode if tp == itp else E_OPERATION_NOT_ATTEMPTED) for tp in tps}
        if not code and not per:
            bad = {}
            for tp in tps:
                if tp[0] in cluster.denied_topics:
                    bad[tp] = E_TOPIC_AUTHORIZATION_FAILED
                elif tp not in cluster.logs:
                    bad[tp] = E_UNKNOWN_TOPIC_OR_PARTITION
            if bad:
                per = {tp: bad.get(tp, E_OPERATION_NOT_ATTEMPTED) for tp in tps}
        if code:
            per = {tp: code for tp in tps}
        if not per:
            self._begin_if_needed(e)
            for tp in tps:
                if tp not in e.partitions:
                    e.partitions.append(tp)
            per = {tp: 0 for tp in tps}
        outcome = code or next((c for c in per.values() if c), 0)
        self._ev(
            e if e is not None else req.transactional_id,
            "add_partitions",
            outcome,
            partitions=tps,
            request_pid=req.producer_id,
            request_epoch=req.producer_epoch,
        )
        cluster.reply(
            rq, errors=[(t, [(p, per[(t, p)]) for p in ps]) for t, ps in req.topics]
        )

    # -- AddOffsetsToTxn -----------------------------------------------------------------------
    def add_offsets(self, rq):
        req = rq.req
        cluster = self.cluster
        e, code = self._check(rq, req.transactional_id, req.producer_id, req.producer_epoch)
        if rq.inject is not None:
            code = rq.inject[0]
        elif not code and req.group_id in cluster.denied_groups:
            code = E_GROUP_AUTHORIZATION_FAILED
        if not code:
            self._begin_if_needed(e)
            if req.group_id not in e.groups:
                e.groups.append(req.group_id)
        self._ev(
            e if e is not None else req.transactional_id,
            "add_offsets",
            code,
            group=req.group_id,
            request_pid=req.producer_id,
            request_epoch=req.producer_epoch,
        )
        cluster.reply(rq, error_code=code)

    # -- EndTxn --------------------------------------------------------------------------------
    def end_txn(self, rq):
        req = rq.req
        commit = bool(req.transaction_result)
        e, code = self._check(rq, req.transactional_id, req.producer_id, req.producer_epoch)
        parts, groups = [], []
        if rq.inject is not None:
            code = rq.inject[0]
        elif not code:
            if e.state == S_ONGOING:
                parts, groups = list(e.partitions), list(e.groups)
                self._end(e, commit)
            elif e.state == S_COMPLETE_COMMIT and commit:
                pass  # retry of a commit that was applied: success
            elif e.state == S_COMPLETE_ABORT and not commit:
                pass  # retry of an abort that was applied: success
            else:
                code = E_INVALID_TXN_STATE
        self._ev(
            e if e is not None else req.transactional_id,
            "end",
            code,
            result="commit" if commit else "abort",
            partitions=parts,
            groups=groups,
            request_pid=req.producer_id,
            request_epoch=req.producer_epoch,
        )
        self.cluster.reply(rq, error_code=code)

    def _end(self, e, commit):
        """Write the markers now, materialise / drop pending offsets, enter Prepare*."""
        cluster = self.cluster
        ctrl = CTRL_COMMIT if commit else CTRL_ABORT
        for tp in e.partitions:
            cluster._append_marker(tp, e.pid, e.epoch, ctrl)
        for g in e.groups:
            offs = cluster._group_obj(g).complete_txn(e.pid, commit)
            cluster._ev(
                "group",
                group=g,
                op="txn_offsets_commit" if commit else "txn_offsets_abort",
                member=None,
                generation=None,
                outcome=0,
                pid=e.pid,
                offsets=offs,
            )
        if e.timeout_timer is not None:
            e.timeout_timer.cancel()
            e.timeout_timer = None
        e.partitions = []
        e.groups = []
        delay = cluster.txn_completion_delay
        if delay > 0:
            e.state = S_PREPARE_COMMIT if commit else S_PREPARE_ABORT
            e.completing_timer = cluster._timer(delay, self._complete, e)
        else:
            e.state = S_COMPLETE_COMMIT if commit else S_COMPLETE_ABORT

    def _complete(self, e):
        e.completing_timer = None
        if e.state == S_PREPARE_COMMIT:
            e.state = S_COMPLETE_COMMIT
        elif e.state == S_PREPARE_ABORT:
            e.state = S_COMPLETE_ABORT
        self._ev(e, "complete", e.state)

    def _on_txn_timeout(self, e, txn_no):
        e.timeout_timer = None
        if e.state != S_ONGOING or e.txn_no != txn_no:
            return
        e.epoch += 1  # fences the producer
        self._ev(e, "timeout_abort", 0, partitions=list(e.partitions), groups=list(e.groups))
        self._end(e, commit=False)

    # -- used by the produce path / group coordinator ----------------------------------------------
    def check_produce(self, pid, epoch, tp):
        """Error code for a transactional batch (pid, epoch) on ``tp`` (0 = accept)."""
        e = self.by_pid.get(pid)
        if e is None:
            return E_INVALID_TXN_STATE
        if epoch < e.epoch:
            return E_INVALID_PRODUCER_EPOCH
        if e.state != S_ONGOING or tp not in e.partitions or epoch != e.epoch:
            return E_INVALID_TXN_STATE
        return 0

    def check_epoch(self, pid, epoch):
        e = self.by_pid.get(pid)
        if e is not None and epoch < e.epoch:
            return E_INVALID_PRODUCER_EPOCH
        return 0

    def drop(self, txid):
        """Coordinator moved without state: abort what is ongoing, forget the id."""
        e = self.entries.pop(txid, None)
        if e is None:
            return
        if e.state == S_ONGOING:
            e.epoch += 1
            self._ev(e, "fence_abort", 0, partitions=list(e.partitions), groups=list(e.groups))
            self._end(e, commit=False)
        if e.completing_timer is not None:
            e.completing_timer.cancel()
        # the pid stays known as fenced: its epoch can never be current again
        e.epoch += 1
        e.state = S_EMPTY

    def snapshot(self):
        return {txid: e.snapshot() for txid, e in self.entries.items()}
