"""Self-test of the simulator: ``cd /verif/harness && python -m sim.selftest [-v] [name ...]``.

Runs the real AIOKafkaProducer / AIOKafkaConsumer against SimCluster under virtual time and
prints ``OK <name>`` per scenario (exit status 1 if one fails).
"""

from __future__ import annotations

import asyncio
import json
import logging
import os
import sys
import time
import traceback

from aiokafka import AIOKafkaConsumer, AIOKafkaProducer
from aiokafka.coordinator.assignors.range import RangePartitionAssignor
from aiokafka.coordinator.assignors.roundrobin import RoundRobinPartitionAssignor
from aiokafka.errors import KafkaError, NoOffsetForPartitionError, OffsetOutOfRangeError
from aiokafka.structs import TopicPartition

from . import Fault, SimCluster, leftover_empty, now_ms, run

BOOT = "b0:9092,b1:9092"


def check(cond, msg):
    if not cond:
        raise AssertionError(msg)


# ---------------------------------------------------------------------------------------------
# 1. producer under faults
# ---------------------------------------------------------------------------------------------
def _producer_cluster(seed):
    c = SimCluster(nodes=2, topics={"t": 3}, seed=seed, jitter=0.0005)
    c.paranoid = True
    f = c.faults
    f.add(Fault("drop_before", api="Produce", nth=3))
    f.add(Fault("drop_after", api="Produce", nth=7))
    f.add(Fault("lose_reply", api="Produce", nth=40))
    f.add(Fault("error", api="Produce", nth=11, code=6))  # NOT_LEADER_FOR_PARTITION
    f.add(Fault("error", api="Produce", nth=6, code=7, tp=("t", 1)))  # REQUEST_TIMED_OUT
    f.add(Fault("delay", api="Produce", nth=17, seconds=0.2))
    # leader migration: partition 0 moves to node 1 while produce requests are in flight
    f.add(
        Fault(
            "call",
            api="Produce",
            nth=20,
            fn=lambda cl, rq: cl.set_leader(("t", 0), 1),
            label="migrate t-0 -> 1",
        )
    )
    f.add(
        Fault(
            "call",
            api="Produce",
            nth=28,
            fn=lambda cl, rq: (cl.stale_metadata(2), cl.set_leader(("t", 2), 1)),
            label="migrate t-2 -> 1 with stale metadata",
        )
    )
    f.add(Fault("drop_before", api="Metadata", nth=4))
    return c


async def _producer_workload(idempotent):
    p = AIOKafkaProducer(
        bootstrap_servers=BOOT,
        client_id="prod",
        enable_idempotence=idempotent,
        acks="all" if idempotent else 1,
        linger_ms=0,
        request_timeout_ms=5000,
        retry_backoff_ms=50,
    )
    await p.start()
    acked = []  # (task, i, partition, value, offset)
    failed = []

    async def task(k, n):
        futs = []
        for i in range(n):
            part = (i + k) % 3
            value = b"%d-%d" % (k, i)
            fut = await p.send("t", value, partition=part, key=b"k%d" % k, timestamp_ms=now_ms())
            futs.append((i, part, value, fut))
            await asyncio.sleep(0.005 * (1 + (i + k) % 3))
        for i, part, value, fut in futs:
            try:
                md = await fut
            except KafkaError as exc:
                failed.append((k, i, part, value, repr(exc)))
            else:
                check(md.partition == part, "ack for another partition")
                acked.append((k, i, part, value, md.offset))

    await asyncio.gather(task(0, 67), task(1, 67), task(2, 66))
    await p.stop()
    return acked, failed


def _check_producer(cluster, acked, failed, idempotent):
    check(len(acked) + len(failed) == 200, "some send future never resolved")
    logs = {p: cluster.read_uncommitted(("t", p)) for p in range(3)}
    by_offset = {p: {off: value for off, _k, value, _ts, _h in logs[p]} for p in range(3)}
    for k, i, part, value, offset in acked:
        check(
            by_offset[part].get(offset) == value,
            f"acknowledged record {value!r} not at t-{part}@{offset}: "
            f"{by_offset[part].get(offset)!r}",
        )
    if idempotent:
        check(not failed, f"idempotent producer failed sends: {failed[:3]}")
        for part in range(3):
            values = [v for _o, _k, v, _ts, _h in logs[part]]
            check(len(values) == len(set(values)), f"duplicates in t-{part}")
            for k in range(3):
                seq = [int(v.split(b"-")[1]) for v in values if v.startswith(b"%d-" % k)]
                check(seq == sorted(seq), f"task {k} out of order in t-{part}: {seq}")
        total = sum(len(v) for v in logs.values())
        check(total == 200, f"log holds {total} records, expected 200")
    fired = [e for e in cluster.trace if e["ev"] == "fault"]
    check(len(fired) >= 8, f"only {len(fired)} faults fired")
    check(leftover_empty(cluster.leftover), f"leftover: {cluster.leftover}")


def scenario_producer():
    for idempotent in (False, True):
        c = _producer_cluster(seed=11)
        t0 = time.perf_counter()
        acked, failed = run(_producer_workload(idempotent), c, max_vt=600)
        wall = time.perf_counter() - t0
        _check_producer(c, acked, failed, idempotent)
        # determinism: the same seed gives the same trace
        c2 = _producer_cluster(seed=11)
        run(_producer_workload(idempotent), c2, max_vt=600)
        a = json.dumps(c.trace, default=str)
        b = json.dumps(c2.trace, default=str)
        check(a == b, "two runs with the same seed produced different traces")
        dup = sum(1 for e in c.trace if e["ev"] == "apply" and e["outcome"] == "duplicate")
        stored = sum(len(c.read_uncommitted(("t", part))) for part in range(3))
        fired = [e["kind"] for e in c.trace if e["ev"] == "fault"]
        yield (
            f"idempotent={idempotent}: acked={len(acked)} failed={len(failed)} stored={stored} "
            f"requests={c.n_requests} faults fired={len(fired)} broker-side dedup={dup} "
            f"vt={c.now():.2f}s wall={wall:.2f}s"
        )


# ---------------------------------------------------------------------------------------------
# 2. consumer group
# ---------------------------------------------------------------------------------------------
class NotStable(Exception):
    pass


async def _group_workload(cluster, assignors):
    def consumer(cid):
        return AIOKafkaConsumer(
            "t",
            bootstrap_servers=BOOT,
            client_id=cid,
            group_id="g",
            enable_auto_commit=False,
            auto_offset_reset="earliest",
            partition_assignment_strategy=assignors,
            session_timeout_ms=10000,
            heartbeat_interval_ms=1000,
        )

    c1, c2 = consumer("c1"), consumer("c2")
    await asyncio.gather(c1.start(), c2.start())
    # wait until both are in one stable generation
    for _ in range(200):
        g = cluster.group("g")
        if g["state"] == "Stable" and len(g["members"]) == 2 and c1.assignment() and c2.assignment():
            if not (c1.assignment() & c2.assignment()) and len(c1.assignment() | c2.assignment()) == 3:
                break
        await asyncio.sleep(0.1)
    else:
        gen = cluster.group("g")["generation"]
        await asyncio.gather(c1.stop(), c2.stop())
        raise NotStable(f"no stable two-member generation after 20 s ({gen} generations)")
    stable = cluster.group("g")

    p = AIOKafkaProducer(bootstrap_servers=BOOT, client_id="gp")
    await p.start()
    for i in range(100):
        await p.send("t", b"r%d" % i, partition=i % 3, timestamp_ms=now_ms())
    await p.flush()

    got = {"c1": [], "c2": []}

    async def consume(name, c, want_total):
        while sum(len(v) for v in got.values()) < want_total:
            batch = await c.getmany(timeout_ms=200)
            for tp, msgs in batch.items():
                for m in msgs:
                    got[name].append((tp.partition, m.offset, m.value))

    await asyncio.gather(consume("c1", c1, 100), consume("c2", c2, 100))
    await c1.commit()
    await c2.commit()
    committed_before = cluster.committed("g")
    owned_by_c2 = sorted(tp.partition for tp in c2.assignment())
    await c2.stop()  # leaves the group
    # c1 learns about the rebalance with its next heartbeat; wait until it owns everything
    # (records consumed in between would legitimately be re-delivered: nothing committed them)
    for _ in range(200):
        g = cluster.group("g")
        if g["state"] == "Stable" and len(g["members"]) == 1 and len(c1.assignment()) == 3:
            break
        await asyncio.sleep(0.1)
    else:
        raise AssertionError(f"survivor did not take over: {cluster.group('g')}")

    for i in range(100, 130):
        await p.send("t", b"r%d" % i, partition=i % 3, timestamp_ms=now_ms())
    await p.flush()
    await p.stop()

    await consume("c1", c1, 130)
    # nothing more may arrive
    extra = await c1.getmany(timeout_ms=1000)
    check(not extra, f"unexpected extra records {extra}")
    final_assignment = sorted(tp.partition for tp in c1.assignment())
    await c1.commit()
    await c1.stop()
    return got, committed_before, owned_by_c2, final_assignment, stable


def _group_case(assignors):
    c = SimCluster(nodes=2, topics={"t": 3}, seed=5)
    c.paranoid = True
    t0 = time.perf_counter()
    got, committed_before, owned_by_c2, final_assignment, stable = run(
        _group_workload(c, assignors), c, max_vt=600
    )
    wall = time.perf_counter() - t0
    everything = got["c1"] + got["c2"]
    check(len(everything) == 130, f"consumed {len(everything)} records, expected 130")
    check(len(set(everything)) == 130, "a record was delivered twice")
    values = sorted(int(v[1:]) for _p, _o, v in everything)
    check(values == list(range(130)), "not every record was delivered")
    check(got["c2"], "second member consumed nothing")
    check(
        committed_before == {("t", 0): 34, ("t", 1): 33, ("t", 2): 33},
        f"committed offsets before the leave: {committed_before}",
    )
    check(final_assignment == [0, 1, 2], f"survivor owns {final_assignment}")
    # the survivor continued the departed member's partitions from the committed offsets
    for part in owned_by_c2:
        offs = sorted(o for p, o, _v in got["c1"] if p == part)
        check(offs and offs[0] == committed_before[("t", part)], f"t-{part} resumed at {offs[:1]}")
    check(c.committed("g") == {("t", 0): 44, ("t", 1): 43, ("t", 2): 43}, f"{c.committed('g')}")
    snap = c.group("g")
    check(snap["state"] == "Empty" and not snap["members"], f"group not empty: {snap['state']}")
    two = [h for h in snap["history"] if len(h["members"]) == 2 and h["assigned"]]
    check(two, "no generation with two members")
    last_two = two[-1]
    owned = [tp for tps in last_two["assigned"].values() for tp in tps]
    check(sorted(owned) == [("t", 0), ("t", 1), ("t", 2)], f"bad assignment {last_two}")
    check(last_two["protocol"] == stable["protocol"], last_two["protocol"])
    check(leftover_empty(c.leftover), f"leftover: {c.leftover}")
    joins = sum(1 for e in c.trace if e["ev"] == "request" and e["api"] == "JoinGroup")
    return (
        f"protocol={stable['protocol']}: c1={len(got['c1'])} c2={len(got['c2'])} "
        f"generations={snap['generation']} JoinGroup requests={joins} "
        f"vt={c.now():.2f}s wall={wall:.2f}s"
    )


def scenario_group():
    yield _group_case((RangePartitionAssignor,))
    yield _group_case((RoundRobinPartitionAssignor,))
    # Both assignors in one member's list.  On the unchanged library every member sends two
    # JoinGroups per join (first protocol only, then both: group_coordinator.perform_group_join
    # has the retry loop nested inside "for assignor"), and each second JoinGroup changes the
    # member's metadata, so a two-member group never settles.  That is a finding about the
    # library, not about the simulator: report it, do not fail on it.
    try:
        yield _group_case((RangePartitionAssignor, RoundRobinPartitionAssignor))
    except NotStable as exc:
        yield f"NOTE both assignors listed by each member: {exc} [library defect, see report]"


# ---------------------------------------------------------------------------------------------
# 3. transactions
# ---------------------------------------------------------------------------------------------
async def _txn_workload(cluster):
    p = AIOKafkaProducer(bootstrap_servers=BOOT, client_id="tp", transactional_id="tx1")
    plain = AIOKafkaProducer(bootstrap_servers=BOOT, client_id="np")
    await p.start()
    await plain.start()

    await p.begin_transaction()
    for i in range(5):
        await p.send_and_wait("t", b"A%d" % i, partition=i % 2)
    await plain.send_and_wait("t", b"N0", partition=0)
    await p.commit_transaction()

    await p.begin_transaction()
    for i in range(5):
        await p.send_and_wait("t", b"B%d" % i, partition=i % 2)
    await plain.send_and_wait("t", b"N1", partition=1)
    await p.abort_transaction()

    await p.begin_transaction()
    for i in range(3):
        await p.send_and_wait("t", b"C%d" % i, partition=i % 2)
    await p.send_offsets_to_transaction({TopicPartition("t", 2): 5}, "g-tx")
    pending = cluster.committed("g-tx")
    await p.commit_transaction()

    # an open transaction: its records (and everything behind them) are unstable
    await p.begin_transaction()
    await p.send_and_wait("t", b"D0", partition=0)
    await plain.send_and_wait("t", b"N2", partition=0)

    async def read_all(isolation, expect):
        c = AIOKafkaConsumer(
            bootstrap_servers=BOOT,
            client_id="rc-" + isolation,
            isolation_level=isolation,
            auto_offset_reset="earliest",
            enable_auto_commit=False,
        )
        await c.start()
        c.assign([TopicPartition("t", 0), TopicPartition("t", 1)])
        out = {0: [], 1: []}
        n = 0
        while n < expect:
            batch = await c.getmany(timeout_ms=500)
            for tp, msgs in batch.items():
                for m in msgs:
                    out[tp.partition].append((m.offset, m.value))
                    n += 1
        extra = await c.getmany(timeout_ms=1500)
        check(not extra, f"{isolation}: unexpected extra records {extra}")
        await c.stop()
        return out

    truth_c = {part: [(o, v) for o, _k, v, _t, _h in cluster.read_committed(("t", part))] for part in (0, 1)}
    truth_u = {part: [(o, v) for o, _k, v, _t, _h in cluster.read_uncommitted(("t", part))] for part in (0, 1)}
    seen_c = await read_all("read_committed", sum(len(v) for v in truth_c.values()))
    seen_u = await read_all("read_uncommitted", sum(len(v) for v in truth_u.values()))

    await p.abort_transaction()
    await p.stop()
    await plain.stop()
    return pending, truth_c, truth_u, seen_c, seen_u


def scenario_txn():
    c = SimCluster(nodes=2, topics={"t": 3}, seed=3)
    c.paranoid = True
    c.txn_completion_delay = 0.03
    t0 = time.perf_counter()
    pending, truth_c, truth_u, seen_c, seen_u = run(_txn_workload(c), c, max_vt=600)
    wall = time.perf_counter() - t0
    check(pending == {}, f"transactional offsets visible before commit: {pending}")
    check(c.committed("g-tx") == {("t", 2): 5}, f"{c.committed('g-tx')}")
    vals_c = sorted(v for part in truth_c.values() for _o, v in part)
    check(
        vals_c == sorted([b"A0", b"A1", b"A2", b"A3", b"A4", b"N0", b"N1", b"C0", b"C1", b"C2"]),
        f"read_committed ground truth at that time: {vals_c}",
    )
    vals_u = sorted(v for part in truth_u.values() for _o, v in part)
    check(len(vals_u) == 17 and b"B3" in vals_u and b"D0" in vals_u, f"read_uncommitted: {vals_u}")
    check(seen_c == truth_c, f"read_committed consumer saw {seen_c}, truth {truth_c}")
    check(seen_u == truth_u, f"read_uncommitted consumer saw {seen_u}, truth {truth_u}")
    # after the final abort: D0 gone, N2 visible
    final = sorted(v for part in (0, 1) for _o, _k, v, _t, _h in c.read_committed(("t", part)))
    check(b"N2" in final and b"D0" not in final and b"B0" not in final, f"final: {final}")
    log0 = c.log(("t", 0))
    check(log0.lso() == log0.leo, "LSO did not catch up after the last abort")
    check(len(log0.aborted_index) == 2, f"aborted index: {log0.aborted_index}")
    ends = [e for e in c.trace if e["ev"] == "txn" and e["op"] == "end"]
    check([e["result"] for e in ends if e["outcome"] == 0] == ["commit", "abort", "commit", "abort"], f"{ends}")
    conc = sum(1 for e in c.trace if e["ev"] == "txn" and e["outcome"] == 51)
    check(leftover_empty(c.leftover), f"leftover: {c.leftover}")
    yield (
        f"committed={len(vals_c)} uncommitted={len(vals_u)} CONCURRENT_TRANSACTIONS replies={conc} "
        f"vt={c.now():.2f}s wall={wall:.2f}s"
    )


# ---------------------------------------------------------------------------------------------
# 4. group-less consumer: seek / pause / offset reset policies / OFFSET_OUT_OF_RANGE
# ---------------------------------------------------------------------------------------------
async def _simple_workload(cluster):
    tp = TopicPartition("t", 0)
    p = AIOKafkaProducer(bootstrap_servers=BOOT, client_id="sp")
    await p.start()
    for i in range(20):
        await p.send_and_wait("t", b"m%d" % i, partition=0)
    res = {}

    def consumer(cid, reset):
        return AIOKafkaConsumer(
            bootstrap_servers=BOOT,
            client_id=cid,
            auto_offset_reset=reset,
            enable_auto_commit=False,
            fetch_max_wait_ms=100,
        )

    # earliest + seek + pause/resume
    c = consumer("ce", "earliest")
    await c.start()
    c.assign([tp])
    m = await c.getone()
    res["earliest_first"] = m.offset
    c.seek(tp, 10)
    m = await c.getone()
    res["after_seek"] = (m.offset, m.value)
    c.pause(tp)
    res["paused"] = await c.getmany(timeout_ms=400)
    c.resume(tp)
    m = await c.getone()
    res["after_resume"] = m.offset
    # OFFSET_OUT_OF_RANGE with a reset policy: retention removes offsets < 5
    cluster.delete_records(("t", 0), 5)
    c.seek(tp, 2)
    m = await c.getone()
    res["reset_after_oor"] = m.offset
    await c.seek_to_end(tp)
    res["seek_to_end"] = await c.position(tp)
    await c.stop()

    # latest
    c = consumer("cl", "latest")
    await c.start()
    c.assign([tp])
    res["latest_position"] = await c.position(tp)
    res["latest_idle"] = await c.getmany(timeout_ms=300)
    await p.send_and_wait("t", b"m20", partition=0)
    m = await c.getone()
    res["latest_next"] = (m.offset, m.value)
    await c.stop()

    # none
    c = consumer("cn", "none")
    await c.start()
    c.assign([tp])
    try:
        await asyncio.wait_for(c.getone(), 5)
        res["none_no_offset"] = "returned"
    except NoOffsetForPartitionError:
        res["none_no_offset"] = "NoOffsetForPartitionError"
    c.seek(tp, 3)  # below log start
    try:
        await asyncio.wait_for(c.getone(), 5)
        res["none_oor"] = "returned"
    except OffsetOutOfRangeError as exc:
        res["none_oor"] = ("OffsetOutOfRangeError", dict(exc.args[0]))
    c.seek(tp, 7)
    m = await c.getone()
    res["none_after_seek"] = m.offset
    c.seek(tp, 500)  # beyond the log end
    try:
        await asyncio.wait_for(c.getone(), 5)
        res["none_oor_high"] = "returned"
    except OffsetOutOfRangeError:
        res["none_oor_high"] = "OffsetOutOfRangeError"
    await c.stop()
    await p.stop()
    return res


def scenario_simple_consumer():
    c = SimCluster(nodes=2, topics={"t": 3}, seed=9)
    c.paranoid = True
    t0 = time.perf_counter()
    res = run(_simple_workload(c), c, max_vt=600)
    wall = time.perf_counter() - t0
    expect = {
        "earliest_first": 0,
        "after_seek": (10, b"m10"),
        "paused": {},
        "after_resume": 11,
        "reset_after_oor": 5,
        "seek_to_end": 20,
        "latest_position": 20,
        "latest_idle": {},
        "latest_next": (20, b"m20"),
        "none_no_offset": "NoOffsetForPartitionError",
        "none_oor": ("OffsetOutOfRangeError", {TopicPartition("t", 0): 3}),
        "none_after_seek": 7,
        "none_oor_high": "OffsetOutOfRangeError",
    }
    for k, v in expect.items():
        check(res.get(k) == v, f"{k}: got {res.get(k)!r}, expected {v!r}")
    oor = sum(
        1
        for e in c.trace
        if e["ev"] == "reply"
        and e["api"] == "Fetch"
        and any(p["error"] == 1 for p in e.get("fields", {}).get("partitions", []))
    )
    check(oor >= 3, f"only {oor} OFFSET_OUT_OF_RANGE replies")
    check(leftover_empty(c.leftover), f"leftover: {c.leftover}")
    yield f"OFFSET_OUT_OF_RANGE replies={oor} vt={c.now():.2f}s wall={wall:.2f}s"


# ---------------------------------------------------------------------------------------------
# 5. stop() leaves nothing behind
# ---------------------------------------------------------------------------------------------
async def _stop_workload(cluster):
    p = AIOKafkaProducer(bootstrap_servers=BOOT, client_id="p5", enable_idempotence=True)
    tx = AIOKafkaProducer(bootstrap_servers=BOOT, client_id="t5", transactional_id="tx5")
    c = AIOKafkaConsumer(
        "t", bootstrap_servers=BOOT, client_id="c5", group_id="g5", auto_offset_reset="earliest"
    )
    await p.start()
    await tx.start()
    await c.start()
    for i in range(10):
        await p.send("t", b"x%d" % i)
    await p.flush()
    async with tx.transaction():
        await tx.send_and_wait("t", b"tx-record", partition=1)
    n = 0
    while n < 11:
        for _tp, msgs in (await c.getmany(timeout_ms=200)).items():
            n += len(msgs)
    await asyncio.sleep(6)  # let an auto-commit and some heartbeats happen
    await c.stop()
    await tx.stop()
    await p.stop()
    return n


def scenario_stop():
    c = SimCluster(nodes=2, topics={"t": 3}, seed=1)
    c.paranoid = True
    t0 = time.perf_counter()
    n = run(_stop_workload(c), c, max_vt=600)
    wall = time.perf_counter() - t0
    check(n == 11, f"consumed {n}")
    check(leftover_empty(c.leftover), f"leftover after stop(): {c.leftover}")
    check(sum(c.committed("g5").values()) == 11, f"committed {c.committed('g5')}")
    opened = sum(1 for e in c.trace if e["ev"] == "connect")
    closed = sum(1 for e in c.trace if e["ev"] == "conn_lost" and e["client"] is not None)
    check(opened == closed, f"{opened} connections opened, {closed} closed")
    check(c.group("g5")["state"] == "Empty", "consumer did not leave its group")
    yield f"connections opened=closed={opened} vt={c.now():.2f}s wall={wall:.2f}s"


# ---------------------------------------------------------------------------------------------
# 6. environment features: version pinning, LogAppendTime, acks=0, failover, hang detection,
#    several runs on one cluster
# ---------------------------------------------------------------------------------------------
async def _pinned_workload():
    p = AIOKafkaProducer(bootstrap_servers=BOOT, client_id="vp")
    await p.start()
    for i in range(10):
        await p.send_and_wait("t", b"v%d" % i, partition=0, timestamp_ms=1000 + i)
    c = AIOKafkaConsumer(
        "t", bootstrap_servers=BOOT, client_id="vc", group_id="vg", auto_offset_reset="earliest"
    )
    await c.start()
    got = []
    while len(got) < 10:
        for _tp, msgs in (await c.getmany(timeout_ms=200)).items():
            got += [(m.offset, m.value, m.timestamp) for m in msgs]
    tp = TopicPartition("t", 0)
    by_time = await c.offsets_for_times({tp: 1004})
    end = await c.end_offsets([tp])
    await c.stop()
    await p.stop()
    return got, by_time[tp].offset, end[tp]


async def _lat_workload():
    p = AIOKafkaProducer(bootstrap_servers=BOOT, client_id="lp")
    p0 = AIOKafkaProducer(bootstrap_servers=BOOT, client_id="lp0", acks=0)
    await p.start()
    await p0.start()
    md = await p.send_and_wait("lat", b"x", partition=0, timestamp_ms=123)
    await p0.send_and_wait("t", b"noack", partition=1, timestamp_ms=5)
    await asyncio.sleep(0.01)
    c = AIOKafkaConsumer(bootstrap_servers=BOOT, client_id="lc", auto_offset_reset="earliest")
    await c.start()
    c.assign([TopicPartition("lat", 0)])
    m = await c.getone()
    await c.stop()
    await p.stop()
    await p0.stop()
    return (md.timestamp, md.timestamp_type), (m.timestamp, m.timestamp_type)


async def _failover_workload(cluster):
    p = AIOKafkaProducer(
        bootstrap_servers=BOOT, client_id="fp", enable_idempotence=True, request_timeout_ms=3000
    )
    c = AIOKafkaConsumer(
        "t",
        bootstrap_servers=BOOT,
        client_id="fc",
        group_id="fg",
        auto_offset_reset="earliest",
        request_timeout_ms=3000,
        session_timeout_ms=6000,
        heartbeat_interval_ms=500,
    )
    await p.start()
    await c.start()
    got = []

    async def produce(tag):
        for i in range(30):
            await p.send("t", b"%s%d" % (tag, i), partition=i % 3, timestamp_ms=now_ms())
        await p.flush()

    async def consume(n):
        while len(got) < n:
            for tp, msgs in (await c.getmany(timeout_ms=200)).items():
                got.extend((tp.partition, m.offset, m.value) for m in msgs)

    await produce(b"a")
    await consume(30)
    cluster.move_coordinator("group", "fg", 1, keep_state=True)
    cluster.kill_node(0, migrate_leaders=True)
    await produce(b"b")
    await consume(60)
    await asyncio.sleep(3)  # heartbeats meet the dead node, then the new coordinator
    cluster.revive_node(0)
    cluster.move_coordinator("group", "fg", 0, keep_state=False)
    await produce(b"c")
    await consume(90)
    await asyncio.sleep(8)  # let the member find its coordinator again before stop()
    await c.stop()
    await p.stop()
    return got


async def _hang_workload(cluster):
    p = AIOKafkaProducer(bootstrap_servers=BOOT, client_id="hp")
    await p.start()
    for i in range(5):
        await p.send_and_wait("t", b"h%d" % i, partition=0, timestamp_ms=now_ms())
    await p.stop()
    c = AIOKafkaConsumer(
        "t", bootstrap_servers=BOOT, client_id="hc", group_id="hg", auto_offset_reset="earliest"
    )
    await c.start()
    n = 0
    while n < 5:
        for _tp, msgs in (await c.getmany(timeout_ms=200)).items():
            n += len(msgs)
    cluster.kill_node(0)
    cluster.kill_node(1)
    await c.stop()  # unchanged library: retries the last commit for ever
    return "stop() returned"


def scenario_environment():
    from . import SimTimeout

    # pinned protocol versions
    pins = {
        "Produce": (0, 2), "Fetch": (0, 3), "ListOffsets": (0, 1), "JoinGroup": (0, 2),
        "SyncGroup": (0, 1), "Metadata": (0, 1), "OffsetCommit": (2, 2), "OffsetFetch": (1, 1),
        "FindCoordinator": (0, 0), "Heartbeat": (0, 0), "LeaveGroup": (0, 0),
    }  # fmt: skip
    for label, pin in (("old", pins), ("new", {"Produce": (0, 7), "Fetch": (0, 11)})):
        c = SimCluster(nodes=2, seed=21, api_versions=pin)
        c.paranoid = True
        got, by_time, end = run(_pinned_workload(), c, max_vt=120)
        check(got == [(i, b"v%d" % i, 1000 + i) for i in range(10)], f"{label}: {got}")
        check((by_time, end) == (4, 10), f"{label}: offsets_for_times/end = {by_time}, {end}")
        used = {(e["api"], e["version"]) for e in c.trace if e["ev"] == "request"}
        for api, (lo, hi) in pin.items():
            vs = [v for a, v in used if a == api]
            check(all(lo <= v <= hi for v in vs), f"{label}: {api} used {vs}")
        check(leftover_empty(c.leftover), f"leftover: {c.leftover}")
    yield "pinned api versions honoured (old and new sets)"

    # LogAppendTime, acks=0
    c = SimCluster(nodes=2, seed=22, topics={"t": 3, "lat": 1})
    c.paranoid = True
    c.topic_config["lat"] = {"log_append_time": True}
    ack, seen = run(_lat_workload(), c, max_vt=120)
    check(ack[1] == 1 and ack == seen and ack[0] > 1_600_000_000_000, f"LogAppendTime: {ack} {seen}")
    check([r[2] for r in c.read_uncommitted(("t", 1))] == [b"noack"], "acks=0 record missing")
    check(
        not any(e["ev"] == "reply" and e["client"] == "lp0" and e["api"] == "Produce" for e in c.trace),
        "acks=0 produce was answered",
    )
    yield f"LogAppendTime timestamp={ack[0]} type=1; acks=0 applied without reply"

    # broker death, leader migration, coordinator moves with and without state
    c = SimCluster(nodes=2, seed=23)
    c.paranoid = True
    c.coordinator_load_time = 0.7
    got = run(_failover_workload(c), c, max_vt=300)
    check(len(set(got)) == 90, f"failover: {len(set(got))} distinct records of 90")
    check(leftover_empty(c.leftover), f"leftover: {c.leftover}")
    codes = sorted({e["outcome"] for e in c.trace if e["ev"] == "group" and isinstance(e["outcome"], int)})
    yield f"failover: 90/90 records, {len(got) - 90} re-deliveries, group error codes seen {codes}"

    # a hang is reported as SimTimeout, quickly, with the place where the coroutine waits
    c = SimCluster(nodes=2, seed=24)
    t0 = time.perf_counter()
    try:
        res = run(_hang_workload(c), c, max_vt=600)
    except SimTimeout as exc:
        res = f"SimTimeout ({exc.where[-1] if exc.where else '?'})"
        check(c.leftover["tasks"], "no leftover tasks reported for a hang")
    check(time.perf_counter() - t0 < 8, "hang detection too slow")
    yield f"consumer.stop() with every broker dead: {res}"

    # one cluster, several runs: clock and data carry over
    c = SimCluster(nodes=2, seed=25)

    async def first():
        p = AIOKafkaProducer(bootstrap_servers=BOOT, client_id="r1")
        await p.start()
        for i in range(5):
            await p.send_and_wait("t", b"r%d" % i, partition=0, timestamp_ms=now_ms())
        await p.stop()

    async def second():
        cons = AIOKafkaConsumer(bootstrap_servers=BOOT, client_id="r2", auto_offset_reset="earliest")
        await cons.start()
        cons.assign([TopicPartition("t", 0)])
        out = []
        while len(out) < 5:
            for _tp, msgs in (await cons.getmany(timeout_ms=200)).items():
                out += [m.value for m in msgs]
        await cons.stop()
        return out

    run(first(), c)
    t1 = c.now()
    out = run(second(), c)
    check(out == [b"r%d" % i for i in range(5)] and c.now() > t1 > 0 and c.runs == 2, f"{out}")
    yield f"two runs on one cluster: vt {t1:.3f}s -> {c.now():.3f}s"


SCENARIOS = [
    ("producer", scenario_producer),
    ("consumer_group", scenario_group),
    ("transactions", scenario_txn),
    ("simple_consumer", scenario_simple_consumer),
    ("stop_leftover", scenario_stop),
    ("environment", scenario_environment),
]


def main(argv):
    if os.environ.get("PYTHONHASHSEED") != "0":
        # aiokafka iterates over sets of strings: fix the hash seed so that every process
        # produces the same traces
        env = dict(os.environ, PYTHONHASHSEED="0")
        os.execve(sys.executable, [sys.executable, "-m", "sim.selftest", *argv], env)
    verbose = "-v" in argv
    names = [a for a in argv if not a.startswith("-")]
    logging.basicConfig(level=logging.WARNING if verbose else logging.CRITICAL)
    if not verbose:
        logging.getLogger("aiokafka").setLevel(logging.CRITICAL)
    failed = 0
    for name, fn in SCENARIOS:
        if names and name not in names:
            continue
        t0 = time.perf_counter()
        try:
            notes = list(fn())
        except BaseException:  # noqa: BLE001
            failed += 1
            print(f"FAIL {name}")
            traceback.print_exc()
            continue
        wall = time.perf_counter() - t0
        for note in notes:
            print(f"   {name}: {note}")
        check(wall < 10, f"{name} took {wall:.1f}s wall")
        print(f"OK {name} ({wall:.2f}s)")
    return 1 if failed else 0


if __name__ == "__main__":
    sys.exit(main(sys.argv[1:]))
