"""Common machinery of the /verif checks (see DESIGN.md section 2).

A check module `harness/checks/cNN.py` defines `run(ctx)`; `bin/check CNN` builds a `Ctx`,
calls it and turns the collected outcome into the exit status, the VIOLATION / KNOWN-FINDING
lines, the replay files and `evidence/CNN.json`.

Exit codes: 0 property held on everything explored (possibly with KNOWN-FINDING lines),
1 violation (a VIOLATION line was printed), 2 harness trouble (never a VIOLATION line).
"""

from __future__ import annotations

import fcntl
import hashlib
import json
import os
import random
import re
import shutil
import subprocess
import sys
import tempfile
import time
from pathlib import Path

VERIF = Path(__file__).resolve().parent.parent
LEAN = VERIF / "lean"
REPO = Path(os.environ.get("VERIF_REPO", "/repo"))
PY = os.environ.get("VERIF_PYTHON", "/venv/bin/python")
STD_AXIOMS = {"propext", "Classical.choice", "Quot.sound"}
BANNED = re.compile(
    r"\b(sorry|admit|native_decide|bv_decide|implemented_by|unsafe)\b|^\s*axiom\s|maxHeartbeats\s+0\b"
)


class HarnessError(Exception):
    """Trouble of the machinery itself: exit 2, never a violation."""


def scratch_dir(prefix: str) -> Path:
    base = os.environ.get("VERIF_SCRATCH") or os.environ.get("TMPDIR") or "/var/tmp"
    Path(base).mkdir(parents=True, exist_ok=True)
    return Path(tempfile.mkdtemp(prefix=f"akverif-{prefix}-", dir=base))


def _strip_lean_comments(src: str) -> str:
    # remove /- ... -/ (nested) and -- ... comments; strings are rare in proofs, ignore them
    out = []
    i, depth, n = 0, 0, len(src)
    while i < n:
        if src.startswith("/-", i):
            depth += 1
            i += 2
        elif depth and src.startswith("-/", i):
            depth -= 1
            i += 2
        elif depth:
            if src[i] == "\n":
                out.append("\n")
            i += 1
        elif src.startswith("--", i):
            while i < n and src[i] != "\n":
                i += 1
        else:
            out.append(src[i])
            i += 1
    return "".join(out)


class LeanWorkspace:
    """`lake` calls serialised by a file lock (several checks may run at once)."""

    def __init__(self):
        self.lock_path = LEAN / ".lake.lock"

    def _locked(self, cmd, timeout, cwd=LEAN):
        with open(self.lock_path, "w") as lk:
            fcntl.flock(lk, fcntl.LOCK_EX)
            try:
                p = subprocess.run(
                    cmd, cwd=cwd, capture_output=True, text=True, timeout=timeout
                )
            finally:
                fcntl.flock(lk, fcntl.LOCK_UN)
        return p

    def build(self, targets, timeout=1500):
        p = self._locked(["lake", "build", *targets], timeout)
        return p.returncode == 0, (p.stdout + p.stderr)

    def run_file(self, relpath, timeout=600):
        # elaborates one file against the built .olean files; no lock needed for reading
        p = subprocess.run(
            ["lake", "env", "lean", relpath], cwd=LEAN, capture_output=True, text=True,
            timeout=timeout,
        )
        return p.returncode == 0, (p.stdout + p.stderr)

    def exe_path(self, name):
        return LEAN / ".lake" / "build" / "bin" / name


def parse_theorems(props_file: Path):
    """theorem names (fully qualified) declared in a Props file, in order."""
    src = _strip_lean_comments(props_file.read_text())
    ns = []
    names = []
    for line in src.splitlines():
        m = re.match(r"\s*namespace\s+(\S+)", line)
        if m:
            ns.append(m.group(1))
            continue
        m = re.match(r"\s*end\s+(\S+)", line)
        if m and ns and ns[-1] == m.group(1):
            ns.pop()
            continue
        m = re.match(r"\s*(?:@\[[^\]]*\]\s*)?(?:private\s+|protected\s+)?theorem\s+(\S+)", line)
        if m:
            names.append(".".join(ns + [m.group(1)]))
    return names


def banned_hits(paths):
    hits = []
    for f in paths:
        src = _strip_lean_comments(Path(f).read_text())
        for n, line in enumerate(src.splitlines(), 1):
            if BANNED.search(line):
                hits.append(f"{f}:{n}: {line.strip()[:120]}")
    return hits


class Ctx:
    def __init__(self, prop: str, tier: str, seed: int, replay: str | None = None):
        self.prop = prop
        self.tier = tier
        self.seed = seed
        self.replay = replay
        self.t0 = time.time()
        self.ws = LeanWorkspace()
        self.violations = []      # dict(signature, text, replay(obj), no_input(bool))
        self.known_hits = []      # (signature, text)
        self.coverage = {
            "obligations": 0, "discharged": 0, "checker_cmd": "", "trusted_base": [],
            "evaluations": 0, "distinct_nontrivial": 0, "rule": "", "samples": [],
            "traces_validated_against_impl": 0,
        }
        self.assumptions = []
        self.broken = []          # names of theorems / ties that no longer check
        self._distinct = set()
        self.notes = []
        self.level = "proof"
        self.repo = REPO
        self.replay_cases = None
        if replay:
            obj = json.loads(Path(replay).read_text())
            self.replay_cases = (obj.get("replay") or {}).get("cases") or []
        kf = VERIF / "known_findings.json"
        self.known = json.loads(kf.read_text()) if kf.exists() else []

    # ------------------------------------------------------------------ utilities
    @property
    def thorough(self):
        return self.tier == "thorough"

    def rng(self, salt: str = "") -> random.Random:
        return random.Random(f"{self.seed}:{self.prop}:{salt}")

    def log(self, *a):
        print(f"[{self.prop} {time.time() - self.t0:6.1f}s]", *a, flush=True)

    def count(self, case_key, nontrivial=True, n=1):
        """count an evaluated case; distinct+nontrivial measured by hashing the canonical key"""
        self.coverage["evaluations"] += n
        if nontrivial:
            h = hashlib.blake2b(repr(case_key).encode(), digest_size=8).digest()
            self._distinct.add(h)

    def sample(self, obj, limit=6):
        if len(self.coverage["samples"]) < limit:
            self.coverage["samples"].append(obj)

    # ------------------------------------------------------------------ Lean side
    def prove(self, modules=None, extra_props=(), drivers=()):
        """build the property theorems, audit their axioms, grep for banned constructs.

        Returns True when every obligation is discharged.  Failures are recorded in
        self.broken (they are not yet violations: the caller then searches for a failing input).
        """
        prop = self.prop
        # every generated table is refreshed from the tree under test first (in a process of its own): a
        # table left behind by a run against another tree must not decide this run
        try:
            r = subprocess.run([sys.executable, str(VERIF / "harness" / "extract" / "regen_all.py"), str(self.repo)],
                               capture_output=True, text=True, timeout=300)
            self.coverage["generated_tables"] = (r.stdout.strip().splitlines() or ["?"])[-1][:200]
        except Exception as e:  # noqa: BLE001
            self.coverage["generated_tables"] = f"regeneration failed: {e!r}"[:200]
        modules = modules or [f"AkVerif.Props.{prop}"]
        props_files = [LEAN / (m.replace(".", "/") + ".lean") for m in modules]
        theorems = []
        for f in props_files:
            theorems += parse_theorems(f)
        self.coverage["obligations"] = len(theorems)
        targets = list(modules) + list(drivers)
        cmd = f"cd lean && lake build {' '.join(targets)} && lake env lean <generated #print axioms file>"
        self.coverage["checker_cmd"] = cmd
        ok, out = self.ws.build(targets)
        if not ok:
            errs = [l for l in out.splitlines() if "error" in l][:20]
            self.log("lake build FAILED:\n" + "\n".join(errs))
            self.broken.append({"kind": "lean-build", "targets": targets, "errors": errs})
            self.coverage["discharged"] = 0
            return False
        hits = banned_hits(sorted((LEAN / "AkVerif").rglob("*.lean")))
        if hits:
            self.broken.append({"kind": "banned-construct", "hits": hits[:20]})
            self.log("banned constructs:", hits[:5])
            return False
        # audit
        audit = LEAN / f".audit_{prop}_{os.getpid()}.lean"
        body = "".join(f"import {m}\n" for m in modules) + "".join(
            f"#print axioms {t}\n" for t in theorems
        )
        audit.write_text(body)
        try:
            ok, out = self.ws.run_file(audit.name)
        finally:
            audit.unlink(missing_ok=True)
        if not ok:
            self.broken.append({"kind": "audit-elab", "output": out[-2000:]})
            return False
        seen = {}
        for m in re.finditer(
            r"'(\S+)' (?:depends on axioms: \[([^\]]*)\]|does not depend on any axioms)", out
        ):
            axs = set(a.strip() for a in (m.group(2) or "").replace("\n", " ").split(",") if a.strip())
            seen[m.group(1)] = axs
        bad = []
        for t in theorems:
            if t not in seen:
                bad.append((t, "not-audited"))
            elif not seen[t] <= STD_AXIOMS:
                bad.append((t, sorted(seen[t] - STD_AXIOMS)))
        self.coverage["discharged"] = len(theorems) - len(bad)
        self.coverage["axioms_used"] = sorted(set().union(*seen.values())) if seen else []
        self.coverage["theorems"] = theorems
        if bad:
            self.broken.append({"kind": "axiom-audit", "bad": bad})
            return False
        if self.thorough and os.environ.get("VERIF_LEANCHECKER", "1") == "1":
            p = subprocess.run(["lake", "env", "leanchecker", *modules], cwd=LEAN,
                               capture_output=True, text=True, timeout=1800)
            self.coverage["leanchecker"] = "ok" if p.returncode == 0 else "FAILED"
            if p.returncode != 0:
                self.broken.append({"kind": "leanchecker", "output": (p.stdout + p.stderr)[-1500:]})
                return False
        return True

    def driver(self, exe: str, lines, timeout=1200):
        """pipe lines through a compiled Lean driver (lean_exe target `exe`), return output lines"""
        path = self.ws.exe_path(exe)
        if not path.exists():
            ok, out = self.ws.build([exe])
            if not ok:
                raise HarnessError(f"driver {exe} does not build:\n{out[-1500:]}")
        data = ("\n".join(lines) + "\n").encode()
        p = subprocess.run([str(path)], input=data, capture_output=True, timeout=timeout)
        if p.returncode != 0:
            raise HarnessError(f"driver {exe} exited {p.returncode}: {p.stderr.decode()[-800:]}")
        out = p.stdout.decode().splitlines()
        if len(out) != len(lines):
            raise HarnessError(f"driver {exe}: {len(lines)} lines in, {len(out)} lines out")
        return out

    # ------------------------------------------------------------------ outcomes
    def violation(self, signature: str, text: str, replay: dict, no_input=False):
        for k in self.known:
            if k["property"] == self.prop and k["status"] == "known" and k["signature"] == signature:
                if signature not in [s for s, _ in self.known_hits]:
                    self.known_hits.append((signature, k.get("text", text)))
                return "known"
        if signature not in [v["signature"] for v in self.violations] and len(self.violations) < 8:
            self.violations.append(
                {"signature": signature, "text": text, "replay": replay, "no_input": no_input}
            )
        return "violation"

    def finish(self):
        wall = time.time() - self.t0
        cov = self.coverage
        cov["distinct_nontrivial"] = len(self._distinct)
        lines = []
        # broken obligations / ties with no concrete failing input
        if self.broken and not self.violations:
            self.violations.append({
                "signature": "broken:" + ",".join(sorted(b["kind"] for b in self.broken)),
                "text": "proof obligation or correspondence no longer checks",
                "replay": {"broken": self.broken}, "no_input": True,
            })
        for s, t in self.known_hits:
            print(f"KNOWN-FINDING: property={self.prop} {t}")
        (VERIF / "replays").mkdir(exist_ok=True)
        for v in self.violations:
            h = hashlib.sha1(v["signature"].encode()).hexdigest()[:10]
            path = VERIF / "replays" / f"{self.prop}-{h}.json"
            obj = {"property": self.prop, "seed": self.seed, "tier": self.tier,
                   "signature": v["signature"], "text": v["text"], "broken": self.broken,
                   "replay": v["replay"]}
            path.write_text(json.dumps(obj, indent=1, default=str))
            tail = " no-failing-input-found" if v["no_input"] else ""
            print(f"VIOLATION property={self.prop} replay={path}{tail}")
        ev = {
            "property_id": self.prop, "tier": self.tier, "seed": self.seed, "level": self.level,
            "coverage": cov, "assumptions": self.assumptions, "wall_s": round(wall, 2),
            "violations": len(self.violations),
            "known_findings": [s for s, _ in self.known_hits],
            "notes": self.notes,
        }
        (VERIF / "evidence").mkdir(exist_ok=True)
        (VERIF / "evidence" / f"{self.prop}.json").write_text(
            json.dumps(ev, indent=1, default=str) + "\n")
        self.log(f"done: obligations {cov['discharged']}/{cov['obligations']}, "
                 f"evaluations {cov['evaluations']}, distinct {cov['distinct_nontrivial']}, "
                 f"violations {len(self.violations)}, known {len(self.known_hits)}")
        return 1 if self.violations else 0


# ---------------------------------------------------------------------- child processes
def run_child(args, *, env=None, timeout=60, input=None, cwd=None):
    """run a python child under a hard wall-clock kill; returns (status, stdout, stderr)
    status: 'ok' | 'exit:<n>' | 'signal:<n>' | 'hang'"""
    e = dict(os.environ)
    e.setdefault("PYTHONPATH", str(REPO))
    if env:
        e.update(env)
    try:
        p = subprocess.run(args, env=e, capture_output=True, timeout=timeout, input=input, cwd=cwd)
    except subprocess.TimeoutExpired as ex:
        return "hang", (ex.stdout or b""), (ex.stderr or b"")
    if p.returncode == 0:
        st = "ok"
    elif p.returncode < 0:
        st = f"signal:{-p.returncode}"
    else:
        st = f"exit:{p.returncode}"
    return st, p.stdout, p.stderr


def build_cython_scratch(dest: Path, asan=False):
    """copy /repo/aiokafka to dest/aiokafka and rebuild the four extensions from the .pyx there.
    Returns the directory to put on PYTHONPATH."""
    src = REPO / "aiokafka"
    shutil.copytree(src, dest / "aiokafka", ignore=shutil.ignore_patterns("*.so", "__pycache__", "*.c"))
    cdir = dest / "aiokafka" / "record" / "_crecords"
    shutil.copy(src / "record" / "_crecords" / "crc32c.c", cdir / "crc32c.c")
    import sysconfig
    inc = subprocess.run([PY, "-c", "import sysconfig;print(sysconfig.get_paths()['include']);print(sysconfig.get_config_var('EXT_SUFFIX'))"],
                         capture_output=True, text=True).stdout.split()
    pyinc, suffix = inc[0], inc[1]
    mods = ["cutil", "default_records", "legacy_records", "memory_records"]
    procs = [subprocess.Popen([PY, "-m", "cython", "-3", f"{m}.pyx"], cwd=cdir,
                              stdout=subprocess.PIPE, stderr=subprocess.STDOUT) for m in mods]
    for m, p in zip(mods, procs):
        out, _ = p.communicate()
        if p.returncode != 0:
            raise HarnessError(f"cython failed on {m}.pyx:\n{out.decode()[-1500:]}")
    if asan:
        cc = ["clang", "-O1", "-g", "-fsanitize=address", "-fno-omit-frame-pointer", "-shared-libasan"]
    else:
        cc = ["gcc", "-O2"]
    procs = []
    for m in mods:
        # as setup.py: crc32c.c is linked into cutil AND default_records; zlib for legacy crc32
        srcs = [f"{m}.c"] + (["crc32c.c"] if m in ("cutil", "default_records") else [])
        cmd = cc + ["-shared", "-fPIC", "-w", f"-I{pyinc}", "-I.", *srcs, "-o", f"{m}{suffix}", "-lz"]
        procs.append((m, subprocess.Popen(cmd, cwd=cdir, stdout=subprocess.PIPE, stderr=subprocess.STDOUT)))
    for m, p in procs:
        out, _ = p.communicate()
        if p.returncode != 0:
            raise HarnessError(f"cc failed on {m}:\n{out.decode()[-1500:]}")
    return dest


def main(argv=None):
    import argparse
    import importlib
    ap = argparse.ArgumentParser()
    ap.add_argument("prop")
    ap.add_argument("--tier", default=os.environ.get("VERIF_TIER", "quick"), choices=["quick", "thorough"])
    ap.add_argument("--replay")
    a = ap.parse_args(argv)
    seed = int(os.environ.get("VERIF_SEED", "1") or 1)
    ctx = Ctx(a.prop.upper(), a.tier, seed, a.replay)
    sys.path.insert(0, str(VERIF / "harness"))
    try:
        mod = importlib.import_module(f"checks.{a.prop.lower()}")
        mod.run(ctx)
        rc = ctx.finish()
    except HarnessError as e:
        print(f"HARNESS-ERROR property={ctx.prop}: {e}", file=sys.stderr)
        return 2
    except subprocess.TimeoutExpired as e:
        print(f"HARNESS-TIMEOUT property={ctx.prop}: {e}", file=sys.stderr)
        return 2
    return rc


if __name__ == "__main__":
    # checks do `from vlib import HarnessError`: make that the class main() catches
    sys.modules.setdefault("vlib", sys.modules["__main__"])
    sys.exit(main())
