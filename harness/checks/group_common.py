"""Shared machinery of the C04 / C05 checks (DESIGN.md section 3, T-trace).

* `load(repo)`            import aiokafka from the tree under test + the simulator
* `gen_scenario(rng, ..)` a seeded workload: 1..4 member slots (each a sequence of incarnations of a real
                          `AIOKafkaConsumer` group member), one assignor per group, joins / stops / kills
                          (kill = `cluster.abort_client` + cancelling every task of the member, no leave, no
                          commit) after a random number of deliveries or at a random time, auto-commit timers
                          of random period racing the deliveries, `commit()` calls, subscription changes,
                          pattern subscriptions with topics appearing, partition-count changes, coordinator
                          failover with and without state, commit / join / sync / heartbeat / fetch replies
                          failing or getting lost
* `run_scenario(env, spec)`  runs it on the simulator and returns the merged history (harness hooks +
                          cluster trace, program order) and the ground truth
* `to_events(..)`         the history in the event vocabulary of `lean/AkVerif/Model/GroupEv.lean`
* `check_c04 / check_c05` the property itself evaluated on the raw observations (failing-input search),
                          independent of the Lean acceptors
"""
from __future__ import annotations

import asyncio
import contextvars
import importlib
import logging
import sys
import warnings

OWNER = contextvars.ContextVar("akverif_member", default=None)
BOOT_FMT = "b{}:9092"
GROUP = "g"
TOPIC_IDS = {"t0": 0, "t1": 1, "t2": 2}

# error codes a group member must survive (retriable / membership codes)
COMMIT_CODES = [14, 15, 16, 7, 25, 22, 27]
API_CODES = {
    "JoinGroup": [14, 15, 16, 25],
    "SyncGroup": [27, 25, 22, 16, 15],
    "Heartbeat": [27, 25, 22, 16, 15],
    "OffsetCommit": COMMIT_CODES,
    "OffsetFetch": [14, 16],
    "FindCoordinator": [15],
    "Fetch": [6],
    "ListOffsets": [6],
}


class Env:
    pass


def load(repo):
    """aiokafka from `repo` (never the editable install), then the simulator on top of it"""
    sys.path.insert(0, str(repo))
    for m in [m for m in sys.modules if m == "aiokafka" or m.startswith("aiokafka.") or m == "sim" or m.startswith("sim.")]:
        del sys.modules[m]
    env = Env()
    env.aiokafka = importlib.import_module("aiokafka")
    if not str(getattr(env.aiokafka, "__file__", "")).startswith(str(repo)):
        from vlib import HarnessError
        raise HarnessError(f"aiokafka imported from {env.aiokafka.__file__}, expected {repo}")
    env.sim = importlib.import_module("sim")
    env.errors = importlib.import_module("aiokafka.errors")
    env.structs = importlib.import_module("aiokafka.structs")
    proto = importlib.import_module("aiokafka.coordinator.protocol")
    env.MemberMetadata = proto.ConsumerProtocolMemberMetadata
    env.MemberAssignment = proto.ConsumerProtocolMemberAssignment
    env.assignors = {
        "range": importlib.import_module("aiokafka.coordinator.assignors.range").RangePartitionAssignor,
        "roundrobin": importlib.import_module("aiokafka.coordinator.assignors.roundrobin").RoundRobinPartitionAssignor,
        "sticky": importlib.import_module("aiokafka.coordinator.assignors.sticky.sticky_assignor").StickyPartitionAssignor,
    }
    logging.disable(logging.CRITICAL)
    warnings.simplefilter("ignore")
    return env


# ------------------------------------------------------------------------------------------ scenarios
def gen_scenario(rng, idx, thorough=False):
    nodes = rng.choice([1, 2, 2, 3])
    topics = {"t0": rng.randint(2, 4)}
    if rng.random() < 0.6:
        topics["t1"] = rng.randint(1, 3)
    duration = rng.choice([10.0, 14.0, 18.0]) + (6.0 if thorough and rng.random() < 0.3 else 0.0)
    spec = {
        "seed": rng.randrange(1 << 30), "idx": idx, "nodes": nodes, "topics": topics,
        "assignor": rng.choice(["range", "roundrobin", "sticky"]),
        "duration": duration, "jitter": rng.choice([0.0, 0.0, 0.002]),
        "members": [], "env": [], "faults": [],
        "producer": {"n": rng.randint(40, 160), "txn": rng.random() < 0.25, "until": duration * 0.8},
    }
    topic_names = sorted(topics)
    n_slots = rng.choice([1, 2, 2, 3, 3, 4])
    pattern_group = rng.random() < 0.2
    for slot in range(n_slots):
        t = rng.uniform(0.0, 3.0) if slot else rng.uniform(0.0, 0.5)
        inc = 0
        while t < duration - 2.0 and inc < 3:
            cid = f"m{slot}i{inc}"
            r = rng.random()
            if pattern_group and rng.random() < 0.7:
                sub = {"pattern": "^t"}
            elif len(topic_names) > 1 and r < 0.35:
                sub = {"topics": list(topic_names)}
            elif len(topic_names) > 1 and r < 0.5:
                sub = {"topics": ["t1"]}
            else:
                sub = {"topics": ["t0"]}
            kind = rng.choice(["stop", "kill", "kill", "run", "run"])
            m = {
                "cid": cid, "start": round(t, 3), "sub": sub,
                "auto_commit": rng.random() < 0.75,
                "interval_ms": rng.choice([150, 300, 700, 1500]),
                "heartbeat_ms": rng.choice([300, 500, 1000]),
                "mode": rng.choice(["getmany", "getmany", "getone", "mixed"]),
                "max_records": rng.choice([None, 1, 3, 10]),
                "poll_ms": rng.choice([0, 50, 200]),
                "cb_sleep": rng.choice([0, 0, 0.01, 0.2]),
                "commit_every": rng.choice([None, None, 5, 17]),
                "end": {"kind": kind, "after": rng.randint(0, 80), "at": round(rng.uniform(t + 0.5, duration), 3)},
                "resub": None,
            }
            if "topics" in sub and len(topic_names) > 1 and rng.random() < 0.3:
                other = rng.choice([["t0"], ["t1"], list(topic_names)])
                if other != sub["topics"]:
                    m["resub"] = {"at": round(rng.uniform(t + 0.3, duration - 1.0), 3), "topics": other}
            spec["members"].append(m)
            if kind == "run":
                break
            t = m["end"]["at"] + rng.uniform(0.1, 3.0)
            inc += 1
    # environment steps
    if rng.random() < 0.35:
        spec["env"].append({"at": round(rng.uniform(1.0, duration - 2.0), 3), "op": "add_partitions",
                            "topic": "t0", "n": topics["t0"] + rng.randint(1, 2)})
    if nodes > 1 and rng.random() < 0.35:
        spec["env"].append({"at": round(rng.uniform(1.0, duration - 2.0), 3), "op": "move_coordinator",
                            "node": rng.randrange(1, nodes), "keep": rng.random() < 0.5})
    if pattern_group or rng.random() < 0.1:
        spec["env"].append({"at": round(rng.uniform(1.0, duration - 3.0), 3), "op": "add_topic", "name": "t2",
                            "n": rng.randint(1, 2)})
    spec["env"].sort(key=lambda e: e["at"])
    # faults, each aimed at one member
    if rng.random() < 0.65:
        cids = [m["cid"] for m in spec["members"]]
        for _ in range(rng.randint(1, 6)):
            cid = rng.choice(cids)
            r = rng.random()
            if r < 0.45:
                spec["faults"].append({"kind": "error", "api": "OffsetCommit", "client": cid,
                                       "nth": rng.randint(0, 12), "code": rng.choice(COMMIT_CODES),
                                       "count": rng.choice([1, 1, 2])})
            else:
                api = rng.choice(list(API_CODES))
                kind = rng.choice(["error", "drop_before", "drop_after", "lose_reply", "delay"])
                f = {"kind": kind, "api": api, "client": cid, "nth": rng.randint(0, 10 if api != "Fetch" else 40),
                     "count": 1}
                if kind == "error":
                    f["code"] = rng.choice(API_CODES[api])
                if kind == "delay":
                    f["seconds"] = round(rng.uniform(0.05, 1.5), 3)
                spec["faults"].append(f)
    add_handout_failures(spec)
    add_round3(spec)
    add_round4(spec)
    return spec


def add_handout_failures(spec):
    """exceptions raised in the MIDDLE of handing records to the application (the application catches them
    and keeps polling / committing): key / value deserializers that raise on chosen records (once per member
    incarnation, or always) and Fetch responses in which one batch arrives with a wrong CRC (once).  Drawn from
    a stream of its own so that the rest of the scenario is what it was without them."""
    import random
    rx = random.Random(spec["seed"] ^ 0x00C0FFEE)
    n = spec["producer"]["n"]
    for m in spec["members"]:
        m["poison"] = None
    spec["corrupt"] = []
    if rx.random() < 0.55:
        for m in spec["members"]:
            if rx.random() < 0.6:
                pz = {"values": {}, "keys": {}}
                for _ in range(rx.randint(1, 4)):
                    which = "values" if rx.random() < 0.7 else "keys"
                    i = rx.randrange(n)
                    pz[which][("r%d" if which == "values" else "k%d") % i] = "always" if rx.random() < 0.25 else "once"
                m["poison"] = pz
    if rx.random() < 0.6:
        cids = [m["cid"] for m in spec["members"]]
        for _ in range(rx.randint(2, 6)):
            spec["corrupt"].append({"client": rx.choice(cids), "nth": rx.randint(0, 15),
                                    "which": rx.choice(["last", "last", "second", "first"])})


FATAL_CODES = {
    "OffsetCommit": [30, 29, 12, 28],     # group / topic authorization, metadata too large, invalid commit size
    "Heartbeat": [30, 24],                # group authorization, "unexpected" (invalid group id)
    "JoinGroup": [30, 24],
    "SyncGroup": [30, 24],
}


def add_round3(spec):
    """more environments in which the anchored mechanisms matter (own random stream again):
    * think     the application is busy between polls (data piles up in the fetch buffer)
    * fatal     NON-retriable coordination errors (authorization, unexpected codes) at OffsetCommit /
                Heartbeat / JoinGroup / SyncGroup: they are parked for the application and raised by its next
                getone()/getmany(); the application catches them and goes on polling and committing
    * stale_oor an old Fetch is answered late, after the partition moved to another leader and the member
                has fetched on from there, with OFFSET_OUT_OF_RANGE for that partition (install_stale_oor)
    * idle      a member with a small max_poll_interval_ms whose application stops polling for longer than
                that (it leaves the group by itself) and then polls again
    * slow      a member whose revoke callback lasts longer than its session timeout (but less than the
                rebalance timeout): only its heartbeats keep it in the group during the callback"""
    import random
    rx = random.Random(spec["seed"] ^ 0x0BADC0DE)
    members = spec["members"]
    for m in members:
        m["think_ms"] = rx.choice([0, 0, 0, 50, 300])
        m["max_poll_ms"] = None
        m["idle"] = None
        m["session_ms"] = None
        m["rev_sleep"] = None
    if rx.random() < 0.4:
        for _ in range(rx.randint(1, 3)):
            api = rx.choice(["OffsetCommit", "OffsetCommit", "OffsetCommit", "Heartbeat", "JoinGroup", "SyncGroup"])
            spec["faults"].append({"kind": "error", "api": api, "client": rx.choice(members)["cid"],
                                   "nth": rx.randint(0, 12 if api in ("OffsetCommit", "Heartbeat") else 3),
                                   "code": rx.choice(FATAL_CODES[api]), "count": 1})
    spec["stale_oor"] = []
    if spec["nodes"] >= 2 and rx.random() < 0.6:
        for _ in range(rx.randint(2, 4)):
            spec["stale_oor"].append({"client": rx.choice(members)["cid"], "nth": rx.randint(1, 20),
                                      "hold": round(rx.uniform(2.0, 3.5), 3)})
    faulted = {f["client"] for f in spec["faults"]}
    calm = [m for m in members if m["cid"] not in faulted] or members
    if rx.random() < 0.25:
        m = rx.choice(calm)
        m["max_poll_ms"] = rx.choice([1000, 1500])
        m["idle"] = {"at": round(m["start"] + rx.uniform(2.0, 5.0), 3),
                     "for": round(m["max_poll_ms"] / 1000 + rx.uniform(0.8, 3.0), 3)}
    if len(members) >= 2 and rx.random() < 0.2:
        m = rx.choice(calm)
        m["session_ms"] = 1500
        m["heartbeat_ms"] = 300
        m["rev_sleep"] = round(rx.uniform(2.0, 3.3), 3)
    # an old broker: OffsetFetch v1 only, where group-level errors come as per-partition error codes (v2+ brokers
    # report them in the top-level field only); drawn last, from a stream of its own
    ry = random.Random(spec["seed"] ^ 0x0FF5E7)
    if ry.random() < 0.3:
        spec["api_versions"] = {"OffsetFetch": [1, 1]}
        if ry.random() < 0.7:
            spec["faults"] = list(spec["faults"]) + [
                {"kind": "error", "api": "OffsetFetch", "client": ry.choice(members)["cid"], "nth": ry.randrange(0, 4),
                 "code": ry.choice([14, 16]), "count": ry.choice([1, 2])}]


def add_round4(spec):
    """(own stream)
    * resub_sync  subscribe(new topics ⊇ old) lands between the JoinGroup answer and the (delayed) SyncGroup
                  answer of the member's k-th successful join: the assignment that then arrives was computed for
                  the superseded subscription and must not be adopted
    * tamper_sync the environment (a foreign leader / coordinator) hands one member, in one SyncGroup answer,
                  an assignment that contains a partition of a topic the member did not subscribe to: the member
                  must refuse it (`Subscription._assign` asserts)"""
    import random
    rx = random.Random(spec["seed"] ^ 0x04D0C5)
    for m in spec["members"]:
        m["resub_sync"] = None
    spec["tamper_sync"] = []
    names = sorted(spec["topics"])
    if len(names) > 1:
        plain = [m for m in spec["members"] if m["sub"].get("topics") == ["t0"] and m["resub"] is None]
        if plain and rx.random() < 0.3:
            m = rx.choice(plain)
            delay = rx.choice([0.4, 0.8])
            m["resub_sync"] = {"join": rx.randint(0, 2), "after": round(rx.uniform(0.003, delay - 0.05), 4),
                               "topics": list(names)}
            spec["faults"] = list(spec["faults"]) + [{"kind": "delay", "api": "SyncGroup", "client": m["cid"],
                                                      "nth": 0, "count": 50, "seconds": delay}]
        narrow = [m for m in spec["members"] if m["sub"].get("topics") in (["t0"], ["t1"]) and m["resub"] is None
                  and m["resub_sync"] is None]
        if narrow and rx.random() < 0.3:
            m = rx.choice(narrow)
            other = "t1" if m["sub"]["topics"] == ["t0"] else "t0"
            spec["tamper_sync"].append({"client": m["cid"], "nth": rx.randint(0, 2), "topic": other})


# ------------------------------------------------------------------------------------------ running
class Recorder:
    def __init__(self, cluster):
        self.cluster = cluster
        self.order = []          # client ids in creation order
        self.gone = set()
        self.delivered = {}      # cid -> count
        self.last_sub = {}
        self.notes = []

    def h(self, op, cid, **kw):
        if cid in self.gone:
            return
        d = {"ev": "h", "vt": int(self.cluster.now() * 1000 + 0.5), "op": op, "m": cid}
        d.update(kw)
        self.cluster.trace.append(d)

    def check_sub(self, cid, consumer):
        """a subscription change made by the library itself (pattern matches) is observed here"""
        cur = tuple(sorted(consumer.subscription()))
        if self.last_sub.get(cid) != cur:
            self.last_sub[cid] = cur
            self.h("sub", cid, topics=list(cur))


def _tps(tps):
    return sorted((tp.topic, tp.partition) for tp in tps)


def make_listener(env, rec, cid, consumer, sleep_s, rev_sleep=None):
    base = env.aiokafka.ConsumerRebalanceListener

    class L(base):
        async def on_partitions_revoked(self, revoked):
            rec.check_sub(cid, consumer)
            rec.h("revS", cid, tps=_tps(revoked))
            if rev_sleep or sleep_s:
                await asyncio.sleep(rev_sleep or sleep_s)
            rec.h("revE", cid)

        async def on_partitions_assigned(self, assigned):
            rec.check_sub(cid, consumer)
            rec.h("asgS", cid, tps=_tps(assigned), subscription=sorted(consumer.subscription()))
            rec.h("snap", cid, tps=_tps(consumer.assignment()))
            if sleep_s:
                await asyncio.sleep(sleep_s)
                rec.check_sub(cid, consumer)
                rec.h("snap", cid, tps=_tps(consumer.assignment()))
            rec.h("asgE", cid)

    return L()


async def member_task(env, cluster, rec, spec, ms, boot, state):
    loop = asyncio.get_running_loop()
    cid = ms["cid"]
    E = env.errors
    await asyncio.sleep(ms["start"])
    rec.order.append(cid)
    rec.delivered[cid] = 0
    dkw = {}
    pz = ms.get("poison")
    if pz:
        def make(table, seen):
            def deser(b):
                k = b.decode("latin-1") if b is not None else None
                how = table.get(k)
                if how == "always" or (how == "once" and k not in seen):
                    seen.add(k)
                    raise ValueError(f"deserializer refuses {k}")
                return b
            return deser
        dkw = {"key_deserializer": make(pz["keys"], set()), "value_deserializer": make(pz["values"], set())}
    c = env.aiokafka.AIOKafkaConsumer(
        bootstrap_servers=boot, client_id=cid, group_id=GROUP, **dkw,
        enable_auto_commit=ms["auto_commit"], auto_commit_interval_ms=ms["interval_ms"],
        auto_offset_reset="earliest", partition_assignment_strategy=(env.assignors[spec["assignor"]],),
        session_timeout_ms=ms.get("session_ms") or 5000, rebalance_timeout_ms=5000,
        heartbeat_interval_ms=ms["heartbeat_ms"], max_poll_interval_ms=ms.get("max_poll_ms") or 300000,
        request_timeout_ms=7000, retry_backoff_ms=100, fetch_max_wait_ms=200, metadata_max_age_ms=1500,
    )
    state[cid] = c
    listener = make_listener(env, rec, cid, c, ms["cb_sleep"], ms.get("rev_sleep"))
    rec.h("new", cid)
    if "pattern" in ms["sub"]:
        c.subscribe(pattern=ms["sub"]["pattern"], listener=listener)
    else:
        c.subscribe(topics=ms["sub"]["topics"], listener=listener)
    rec.last_sub[cid] = tuple(sorted(c.subscription()))
    rec.h("sub", cid, topics=sorted(c.subscription()))
    try:
        await c.start()
    except asyncio.CancelledError:
        raise
    except Exception as ex:  # noqa: BLE001  (faults may break the bootstrap: the incarnation never joins)
        rec.notes.append(f"{cid}: start() raised {type(ex).__name__}")
        try:
            await asyncio.wait_for(c.stop(), 20)
        except Exception:  # noqa: BLE001
            pass
        rec.h("gone", cid, how="start-failed")
        rec.gone.add(cid)
        return
    end = ms["end"]
    resub = ms["resub"]
    rs = ms.get("resub_sync")
    if rs:
        async def resub_in_sync_window():
            seen, k = 0, 0
            while True:
                tr = cluster.trace
                while k < len(tr):
                    e = tr[k]
                    k += 1
                    if e["ev"] == "reply" and e.get("api") == "JoinGroup" and e.get("client") == cid \
                            and "fault" not in e and not e.get("undelivered") \
                            and (e.get("fields") or {}).get("error_code") == 0:
                        if seen == rs["join"]:
                            await asyncio.sleep(rs["after"])
                            if cid not in rec.gone:
                                c.subscribe(topics=rs["topics"], listener=listener)
                                rec.last_sub[cid] = tuple(sorted(c.subscription()))
                                rec.h("sub", cid, topics=sorted(c.subscription()), user=True, in_sync_window=True)
                            return
                        seen += 1
                await asyncio.sleep(0.002)
        asyncio.ensure_future(resub_in_sync_window())
    n_since_commit = 0
    flip = 0
    idle = ms.get("idle")
    think = (ms.get("think_ms") or 0) / 1000
    while True:
        now = loop.time()
        if idle is not None and now >= idle["at"]:
            # the application stops polling for longer than max_poll_interval_ms, then simply goes on
            rec.h("idle", cid, secs=idle["for"])
            await asyncio.sleep(idle["for"])
            rec.h("resume", cid)
            idle = None
            now = loop.time()
        if end["kind"] != "run" and (now >= end["at"] or rec.delivered[cid] >= end["after"] > 0):
            break
        if now >= spec["duration"]:
            break
        if resub is not None and now >= resub["at"]:
            c.subscribe(topics=resub["topics"], listener=listener)
            rec.last_sub[cid] = tuple(sorted(c.subscription()))
            rec.h("sub", cid, topics=sorted(c.subscription()), user=True)
            resub = None
        mode = ms["mode"]
        if mode == "mixed":
            flip += 1
            mode = "getone" if flip % 3 == 0 else "getmany"
        got = []
        await avoid_leave_window(cluster, cid)
        try:
            if mode == "getone":
                try:
                    msg = await asyncio.wait_for(c.getone(), 0.25)
                    got.append(msg)
                except asyncio.TimeoutError:
                    pass
            else:
                batch = await c.getmany(timeout_ms=ms["poll_ms"], max_records=ms["max_records"])
                for _tp, msgs in batch.items():
                    got.extend(msgs)
                if not batch and ms["poll_ms"] == 0:
                    await asyncio.sleep(0.02)
        except asyncio.CancelledError:
            raise
        except Exception as ex:  # noqa: BLE001  the application survives a failed hand-out and polls again
            rec.h("raised", cid, exc=type(ex).__name__, call=mode)
            if not isinstance(ex, (E.KafkaError, ValueError)):
                raise
            await asyncio.sleep(0.05)
        if got:
            for msg in got:
                rec.h("deliver", cid, tp=(msg.topic, msg.partition), o=msg.offset, v=msg.value.decode("latin-1") if msg.value else "")
            rec.delivered[cid] += len(got)
            n_since_commit += len(got)
            rec.check_sub(cid, c)
            rec.h("snap", cid, tps=_tps(c.assignment()))
            if think:
                await asyncio.sleep(think)
        if ms["commit_every"] and n_since_commit >= ms["commit_every"]:
            n_since_commit = 0
            rec.h("commit_call", cid)
            try:
                await asyncio.wait_for(c.commit(), 4.0)
            except asyncio.CancelledError:
                raise
            except (asyncio.TimeoutError, E.KafkaError) as ex:
                rec.notes.append(f"{cid}: commit() raised {type(ex).__name__}")
    if end["kind"] == "kill" and loop.time() < spec["duration"]:
        kill_member(cluster, rec, cid)      # cancels this very task too
        await asyncio.sleep(0)
        return
    rec.h("stopping", cid)
    try:
        await asyncio.wait_for(c.stop(), 30)
        rec.h("gone", cid, how="stop")
    except asyncio.TimeoutError:
        rec.h("gone", cid, how="stop-hung")
        rec.notes.append(f"{cid}: stop() did not return within 30 s")
    rec.gone.add(cid)


async def avoid_leave_window(cluster, cid):
    """the application does not poll in the 20 ms after a LeaveGroup answer was sent to it: that is the time the
    answer travels and the coordination task needs to close the delivery gate (one auto-commit round trip at
    most when nothing is disturbed); after it the model expects the gate closed (`leaveR`)"""
    while True:
        now = int(cluster.now() * 1000 + 0.5)
        tr = cluster.trace
        k = len(tr) - 1
        hit = False
        while k >= 0 and tr[k].get("vt", now) >= now - 20:
            e = tr[k]
            if e["ev"] == "reply" and e.get("api") == "LeaveGroup" and e.get("client") == cid:
                hit = True
                break
            k -= 1
        if not hit:
            return
        await asyncio.sleep(0.025)


def kill_member(cluster, rec, cid):
    """crash: the broker side loses every connection at once, every task of the member dies; no
    LeaveGroup, no final commit"""
    cluster.abort_client(cid)
    rec.h("gone", cid, how="kill")
    rec.gone.add(cid)
    for t in asyncio.all_tasks():
        try:
            owner = t.get_context().get(OWNER)
        except Exception:  # noqa: BLE001
            owner = None
        if owner == cid and not t.done():
            t.cancel()


async def producer_task(env, cluster, spec, boot, rngp):
    from sim import now_ms
    P = spec["producer"]
    kw = {"transactional_id": "tx"} if P["txn"] else {}
    p = env.aiokafka.AIOKafkaProducer(bootstrap_servers=boot, client_id="prod", request_timeout_ms=5000, linger_ms=5, **kw)
    await p.start()
    loop = asyncio.get_running_loop()
    n = P["n"]
    gap = P["until"] / max(n, 1)
    i = 0
    try:
        while i < n:
            burst = rngp.randint(1, 6)
            if P["txn"]:
                await p.begin_transaction()
            # a burst goes to one partition without waiting in between: multi-record batches in the log
            topic = rngp.choice(sorted(cluster_topics(cluster)))
            futs = []
            try:
                parts = sorted(await asyncio.wait_for(p.partitions_for(topic), 6))
                part = parts[rngp.randrange(len(parts))]
                for _ in range(burst):
                    if i >= n:
                        break
                    futs.append(await asyncio.wait_for(
                        p.send(topic, b"r%d" % i, key=b"k%d" % i, partition=part, timestamp_ms=now_ms()), 6))
                    i += 1
                if futs:
                    await asyncio.wait(futs, timeout=6)
            except (asyncio.TimeoutError, env.errors.KafkaError):
                i += 1
            if P["txn"]:
                if rngp.random() < 0.3:
                    await p.abort_transaction()
                else:
                    await p.commit_transaction()
            await asyncio.sleep(gap * burst * rngp.uniform(0.5, 1.5))
            if loop.time() > spec["duration"]:
                break
    finally:
        try:
            await asyncio.wait_for(p.stop(), 20)
        except Exception:  # noqa: BLE001
            pass


def cluster_topics(cluster):
    out = {}
    for (t, p) in cluster.logs:
        if not t.startswith("__"):
            out[t] = max(out.get(t, 0), p + 1)
    return out


async def env_task(cluster, spec):
    t0 = 0.0
    for step in spec["env"]:
        await asyncio.sleep(max(0.0, step["at"] - t0))
        t0 = step["at"]
        if step["op"] == "add_partitions":
            cluster.add_partitions(step["topic"], step["n"])
        elif step["op"] == "move_coordinator":
            cluster.move_coordinator("group", GROUP, step["node"], keep_state=step["keep"])
        elif step["op"] == "add_topic":
            cluster.add_topic(step["name"], step["n"])


async def scenario_main(env, cluster, rec, spec):
    import random as _random
    boot = ",".join(BOOT_FMT.format(i) for i in range(spec["nodes"]))
    loop = asyncio.get_running_loop()
    state = {}
    tasks = []
    rngp = _random.Random(spec["seed"] ^ 0x5A5A)
    tasks.append(asyncio.ensure_future(producer_task(env, cluster, spec, boot, rngp)))
    tasks.append(asyncio.ensure_future(env_task(cluster, spec)))
    for ms in spec["members"]:
        ctx = contextvars.copy_context()
        ctx.run(OWNER.set, ms["cid"])
        tasks.append(loop.create_task(member_task(env, cluster, rec, spec, ms, boot, state), context=ctx))
    res = await asyncio.gather(*tasks, return_exceptions=True)
    for r in res:
        if isinstance(r, Exception) and not isinstance(r, asyncio.CancelledError):
            rec.notes.append(f"task ended with {type(r).__name__}: {r}")
            if isinstance(r, (AssertionError, TypeError, AttributeError, NameError, KeyError)):
                raise r


def install_corruption(cluster, wanted):
    """local hook (this cluster object only): in the nth Fetch response WITH data sent to a client, one batch of
    one partition arrives with a wrong CRC-32C — once; the log itself stays intact, a refetch is clean"""
    if not wanted:
        return
    orig = cluster.reply
    seen = {}

    def spans(data):
        out, pos = [], 0
        while pos + 12 <= len(data):
            ln = int.from_bytes(data[pos + 8:pos + 12], "big")
            if ln <= 0 or pos + 12 + ln > len(data):
                break
            out.append(pos)
            pos += 12 + ln
        return out

    def reply(rq, **fields):
        if rq.api_key == 1 and "topics" in fields and any(w["client"] == rq.client for w in wanted):
            rows = [(t, i, row) for t, rws in fields["topics"] for i, row in enumerate(rws) if row[-1]]
            if rows:
                k = seen.get(rq.client, 0)
                seen[rq.client] = k + 1
                for w in wanted:
                    if w["client"] == rq.client and w["nth"] == k:
                        t, i, row = max(rows, key=lambda x: len(spans(x[2][-1])))
                        sp = spans(row[-1])
                        if not sp:
                            continue
                        j = {"first": 0, "second": min(1, len(sp) - 1), "last": len(sp) - 1}[w["which"]]
                        data = bytearray(row[-1])
                        data[sp[j] + 17] ^= 0xFF          # first byte of the v2 CRC field
                        new = tuple(row[:-1]) + (bytes(data),)
                        fields["topics"] = [(tt, [new if (tt == t and ii == i) else r for ii, r in enumerate(rws)])
                                            for tt, rws in fields["topics"]]
                        cluster.trace.append({"ev": "h", "vt": int(cluster.now() * 1000 + 0.5), "op": "corrupt",
                                              "m": rq.client, "tp": (t, row[0]), "batch": j, "of": len(sp)})
        return orig(rq, **fields)

    cluster.reply = reply


def install_stale_oor(cluster, wanted, nodes):
    """local hook (this cluster object only): the nth Fetch response with data for a client is HELD for `hold`
    seconds; meanwhile the first partition in it moves to another leader, so the member re-fetches it there and
    consumes on.  When the held response is released and the member has by then requested that partition at
    a later offset (its position moved: the held response is stale), the partition's part of it is replaced by
    OFFSET_OUT_OF_RANGE; otherwise the response goes out as it was.  A stale answer must be ignored."""
    if not wanted or nodes < 2:
        return
    orig = cluster.reply
    seen = {}

    def reply(rq, **fields):
        if rq.api_key != 1 or "topics" not in fields or not any(w["client"] == rq.client for w in wanted):
            return orig(rq, **fields)
        rows = [(t, row) for t, rws in fields["topics"] for row in rws if row[1] == 0 and row[-1]]
        if not rows:
            return orig(rq, **fields)
        k = seen.get(rq.client, 0)
        seen[rq.client] = k + 1
        w = next((w for w in wanted if w["client"] == rq.client and w["nth"] == k), None)
        if w is None:
            return orig(rq, **fields)
        t, row = rows[0]
        tp = (t, row[0])
        at = len(cluster.trace)
        offs = None
        for e in reversed(cluster.trace):
            if e["ev"] == "request" and e.get("client") == rq.client and e.get("corr") == rq.corr \
                    and e.get("api") == "Fetch" and e.get("conn") == rq.conn.cid:
                offs = {(p["topic"], p["partition"]): p["offset"] for p in e["fields"]["partitions"]}
                break
        if offs is None or tp not in offs:
            return orig(rq, **fields)
        f0 = offs[tp]
        cluster.trace.append({"ev": "h", "vt": int(cluster.now() * 1000 + 0.5), "op": "hold_fetch", "m": rq.client,
                              "tp": tp, "offset": f0, "secs": w["hold"]})
        cluster.set_leader(tp, (cluster.leaders()[tp] + 1) % nodes)

        held_at = int(cluster.now() * 1000 + 0.5)

        def release():
            # stale = the member has SENT (reached a broker after the hold began; a request that waited in a
            # connection's queue since earlier proves nothing) a fetch of this partition beyond the held offset
            stale = False
            for e in cluster.trace[at:]:
                if e["ev"] == "request" and e.get("client") == rq.client and e.get("api") == "Fetch" \
                        and e.get("arrived", -1) > held_at + 2:
                    for p in e["fields"]["partitions"]:
                        if (p["topic"], p["partition"]) == tp and p["offset"] > f0:
                            stale = True
            out = dict(fields)
            if stale:
                def err(r):
                    r = list(r)
                    r[1] = 1            # OFFSET_OUT_OF_RANGE
                    r[-1] = b""
                    return tuple(r)
                out["topics"] = [(tt, [err(r) if (tt == t and r[0] == row[0]) else r for r in rws])
                                 for tt, rws in fields["topics"]]
            cluster.trace.append({"ev": "h", "vt": int(cluster.now() * 1000 + 0.5), "op": "release_fetch",
                                  "m": rq.client, "tp": tp, "stale_out_of_range": stale})
            orig(rq, **out)

        cluster._timer(w["hold"], release)
        return None

    cluster.reply = reply


def install_tamper_sync(env, cluster, wanted):
    """local hook (this cluster object only): the nth successful, non-empty SyncGroup answer to a client gets one
    more partition — partition 0 of a topic that client did not subscribe to (an assignment made by a foreign
    leader).  The answer is marked in the trace; the coordinator model never distributed it."""
    if not wanted:
        return
    orig = cluster.reply
    seen = {}

    def reply(rq, **fields):
        if rq.api_key == 14 and fields.get("error_code") == 0 and fields.get("member_assignment"):
            for w in wanted:
                if w["client"] == rq.client:
                    k = seen.get(rq.client, 0)
                    seen[rq.client] = k + 1
                    if k == w["nth"] and (w["topic"], 0) in cluster.logs:
                        a = env.MemberAssignment.decode(bytes(fields["member_assignment"]))
                        asg = [(t, list(ps)) for t, ps in a.assignment] + [(w["topic"], [0])]
                        fields = dict(fields)
                        fields["member_assignment"] = env.MemberAssignment(a.version, asg, a.user_data).encode()
                        cluster.trace.append({"ev": "h", "vt": int(cluster.now() * 1000 + 0.5), "op": "tamper_sync",
                                              "m": rq.client, "conn": rq.conn.cid, "corr": rq.corr,
                                              "added": (w["topic"], 0)})
                    break
        return orig(rq, **fields)

    cluster.reply = reply


def run_scenario(env, spec):
    sim = env.sim
    cluster = sim.SimCluster(nodes=spec["nodes"], topics=dict(spec["topics"]), seed=spec["seed"],
                             jitter=spec.get("jitter", 0.0), api_versions=spec.get("api_versions"))
    for f in spec["faults"]:
        kw = {k: f[k] for k in ("api", "client", "nth", "count", "code", "seconds") if k in f and f[k] is not None}
        cluster.faults.add(sim.Fault(f["kind"], **kw))
    rec = Recorder(cluster)
    install_corruption(cluster, spec.get("corrupt") or [])
    install_stale_oor(cluster, spec.get("stale_oor") or [], spec["nodes"])
    install_tamper_sync(env, cluster, spec.get("tamper_sync") or [])
    outcome = "done"
    try:
        sim.run(scenario_main(env, cluster, rec, spec), cluster, max_vt=spec["duration"] + 90.0)
    except sim.SimTimeout as ex:
        outcome = "hang"
        rec.notes.append(f"SimTimeout: {str(ex)[:200]}")
    visible = {}
    leo = {}
    for tp in sorted(cluster.logs):
        if tp[0].startswith("__"):
            continue
        visible[tp] = [r[0] for r in cluster.read_uncommitted(tp)]
        leo[tp] = cluster.log(tp).leo
    return {"trace": cluster.trace, "order": rec.order, "notes": rec.notes, "outcome": outcome,
            "visible": visible, "leo": leo, "committed": cluster.committed(GROUP),
            "history": cluster.group(GROUP)["history"]}


# ------------------------------------------------------------------------------------------ history → events
def pidx(tp):
    return TOPIC_IDS[tp[0]] * 64 + tp[1]


def _nl(xs):
    return ",".join(str(x) for x in xs) if xs else "-"


def _assoc(pairs):
    return "|".join(f"{k}=" + ".".join(str(x) for x in v) for k, v in pairs) if pairs else "-"


def undisturbed_events(run):
    """{raw index: [(op, cid)]} for the two observations whose guarantee presupposes an undisturbed coordination
    channel (no fault has been aimed at the member so far, no coordinator failover so far):
      leaveR  a LeaveGroup answer was delivered to the member
      expire  the coordinator expired the session of the member id the member currently uses (= the id in its
              latest group request)"""
    trace = run["trace"]
    members = set(run["order"])
    faulted, failover = set(), False
    cur_mid, mid2cid = {}, {}
    out = {}
    for i, e in enumerate(trace):
        ev = e["ev"]
        if ev == "fault" and e.get("client") in members:
            faulted.add(e["client"])
        elif ev == "env" and e.get("op") == "move_coordinator":
            failover = True
        elif ev == "request" and e["client"] in members:
            f = e["fields"]
            mid = None
            if e["api"] in ("JoinGroup", "SyncGroup", "Heartbeat", "LeaveGroup"):
                mid = f.get("member_id")
            elif e["api"] == "OffsetCommit":
                mid = f.get("consumer_id")
            if mid is not None:
                cur_mid[e["client"]] = mid
                if mid:
                    mid2cid[mid] = e["client"]
        elif ev == "reply" and e["client"] in members:
            f = e.get("fields") or {}
            if e["api"] == "JoinGroup" and f.get("member_id"):
                mid2cid[f["member_id"]] = e["client"]
                if "fault" not in e and not e.get("undelivered") and f.get("error_code") in (0, 79):
                    cur_mid[e["client"]] = f["member_id"]
            elif e["api"] == "LeaveGroup" and "fault" not in e and not e.get("undelivered"):
                if e["client"] not in faulted and not failover:
                    out.setdefault(i, []).append(("leaveR", e["client"]))
        elif ev == "group" and e.get("op") == "expire" and e.get("group") == GROUP:
            cid = mid2cid.get(e.get("member"))
            if cid is not None and cur_mid.get(cid) == e["member"] and cid not in faulted and not failover:
                out.setdefault(i, []).append(("expire", cid))
    return out


def to_events(env, run):
    """returns (tokens, meta): tokens = one Lean event per entry; meta[i] = index into run['trace'] of the
    raw event the token was derived from"""
    trace = run["trace"]
    midx = {cid: i for i, cid in enumerate(run["order"])}
    slots = []              # list of lists of (token, raw index); flattened at the end
    mid2cid = {}
    parked = {}             # (conn, corr) -> cid     JoinGroup requests the coordinator registered
    parked_topics = {}      # member id -> topic ids of its registered join
    join_req = {}           # (conn, corr) -> (cid, member id, topics)
    sync_req = {}           # (conn, corr) -> (cid, generation)
    fetch_req = {}          # (conn, corr) -> (cid, {tp: offset})
    stale_lo = [0]
    lo_req = {}             # (conn, corr) -> when the ListOffsets request reached the broker (virtual ms)
    adopted_at = {}         # cid -> vt of its latest adoption (asgS) / subscription change
    asked_since = {}        # cid -> partitions an OffsetFetch answer reached the member for since then
    lo_ok = {}              # (conn, corr) -> partitions of that ListOffsets request that can belong to this epoch
    offfetch_slot = {}      # (conn, corr) -> slot to fill when the reply is seen delivered
    last_sync_gen = {}      # cid -> generation of the last delivered successful SyncGroup reply
    n = len(trace)
    extra = undisturbed_events(run)
    tampered = {(e["conn"], e["corr"]) for e in trace if e["ev"] == "h" and e["op"] == "tamper_sync"}

    def topics_of(hexmeta):
        md = env.MemberMetadata.decode(bytes.fromhex(hexmeta))
        return sorted(TOPIC_IDS[t] for t in md.subscription)

    def tps_of(hexasg):
        if not hexasg:
            return []
        a = env.MemberAssignment.decode(bytes.fromhex(hexasg))
        return sorted(pidx((t, p)) for t, ps in a.assignment for p in ps)

    for i, e in enumerate(trace):
        ev = e["ev"]
        out = []
        if ev == "h":
            m = midx.get(e["m"])
            op = e["op"]
            if op == "sub":
                adopted_at[e["m"]] = e["vt"]
                asked_since[e["m"]] = set()
                out.append(f"sub:{m}")
                out.append(f"subT:{m}:{_nl(sorted(TOPIC_IDS[t] for t in e.get('topics', [])))}")
            elif op == "revS":
                out.append(f"revS:{m}")
            elif op == "revE":
                out.append(f"revE:{m}")
            elif op == "asgS":
                g = last_sync_gen.get(e["m"], 0)
                adopted_at[e["m"]] = e["vt"]
                asked_since[e["m"]] = set()
                out.append(f"asgS:{m}:{g}:{_nl(sorted(pidx(tuple(tp)) for tp in e['tps']))}")
            elif op == "asgE":
                out.append(f"asgE:{m}")
            elif op == "snap":
                out.append(f"snap:{m}:{_nl(sorted(pidx(tuple(tp)) for tp in e['tps']))}")
            elif op == "deliver":
                out.append(f"del:{m}:{pidx(tuple(e['tp']))}:{e['o']}")
            elif op == "gone":
                out.append(f"gone:{m}")
        elif ev == "request" and e["client"] in midx:
            cid = e["client"]
            m = midx[cid]
            api = e["api"]
            key = (e["conn"], e["corr"])
            f = e["fields"]
            if api == "JoinGroup":
                topics = topics_of(f["group_protocols"][0]["protocol_metadata"])
                # did the coordinator register it?  (its own decision is the next `group` event)
                is_parked = False
                member_id = f["member_id"]
                j = i + 1
                while j < n and trace[j]["ev"] not in ("request",):
                    t = trace[j]
                    if t["ev"] == "group" and t["op"] == "join":
                        is_parked = t["outcome"] == "parked"
                        member_id = t["member"] or member_id
                        break
                    if t["ev"] == "reply" and (t["conn"], t["corr"]) == key:
                        break
                    j += 1
                if member_id:
                    mid2cid[member_id] = cid
                if is_parked:
                    parked[key] = cid
                    parked_topics[member_id] = topics
                join_req[key] = cid
                out.append(f"joinS:{m}:{_nl(topics)}:{1 if is_parked else 0}")
            elif api == "SyncGroup":
                sync_req[key] = (cid, f["generation_id"])
            elif api == "Fetch":
                offs = {}
                for p in f["partitions"]:
                    tp = (p["topic"], p["partition"])
                    offs[tp] = p["offset"]
                    out.append(f"fS:{m}:{pidx(tp)}:{p['offset']}")
                fetch_req[key] = (cid, offs)
            elif api == "OffsetCommit":
                stored = set()
                j = i + 1
                while j < n and trace[j]["ev"] not in ("request",):
                    t = trace[j]
                    if t["ev"] == "group" and t["op"] == "commit":
                        stored = {(a, b, c) for a, b, c in t.get("offsets", [])}
                        break
                    if t["ev"] == "reply" and (t["conn"], t["corr"]) == key:
                        break
                    j += 1
                for tpc in f["topics"]:
                    for p in tpc["partitions"]:
                        ok = (tpc["topic"], p["partition"], p["offset"]) in stored
                        out.append(f"commit:{m}:{pidx((tpc['topic'], p['partition']))}:{p['offset']}:{1 if ok else 0}")
            elif api == "OffsetFetch":
                offfetch_slot[key] = len(slots)     # the answer is computed now; filled in if it gets delivered
            elif api == "ListOffsets":
                lo_req[key] = e.get("arrived", e["vt"])
                lo_ok[key] = set(asked_since.get(cid, ()))
        elif ev == "reply" and e["client"] in midx:
            cid = e["client"]
            m = midx[cid]
            api = e["api"]
            key = (e["conn"], e["corr"])
            delivered = "fault" not in e and not e.get("undelivered")
            f = e.get("fields") or {}
            if api == "JoinGroup":
                if f.get("member_id"):
                    mid2cid[f["member_id"]] = cid
                okr = delivered and f.get("error_code") == 0
                # a reply suppressed by a fault is traced when the request is handled: a registered join
                # then stays registered at the coordinator (no event); real answers end the registration
                if "fault" not in e and (key in parked or okr):
                    out.append(f"joinR:{m}:{f['generation_id'] if okr else '-'}")
                    parked.pop(key, None)
            elif api == "SyncGroup":
                rq = sync_req.pop(key, None)
                if key in tampered:
                    rq = None       # handed out by a foreign leader, not by the modelled coordinator
                if rq is not None and delivered and f.get("error_code") == 0:
                    last_sync_gen[cid] = rq[1]
                    out.append(f"syncR:{m}:{rq[1]}:{_nl(tps_of(f['member_assignment']))}")
            elif api == "Fetch":
                rq = fetch_req.pop(key, None)
                if rq is not None and delivered:
                    for p in f["partitions"]:
                        tp = (p["topic"], p["partition"])
                        if p["error"] == 0 and p["batches"] and tp in rq[1]:
                            out.append(f"fR:{m}:{pidx(tp)}:{rq[1][tp]}:{p['batches'][-1][1]}")
            elif api == "OffsetFetch":
                si = offfetch_slot.pop(key, None)
                if si is not None and delivered:
                    toks = []
                    for tpc in f["topics"]:
                        for p in tpc["partitions"]:
                            asked_since.setdefault(cid, set()).add((tpc["topic"], p["partition"]))
                            if p["error_code"] == 0 and p["offset"] >= 0:
                                toks.append((f"offer:{m}:{pidx((tpc['topic'], p['partition']))}:{p['offset']}:c", i))
                            elif p["error_code"] == 0:
                                toks.append((f"noOffset:{m}:{pidx((tpc['topic'], p['partition']))}", i))
                    slots[si].extend(toks)
            elif api == "ListOffsets":
                sent = lo_req.pop(key, None)
                # a request that reached the broker before the member adopted its current assignment was sent
                # for the previous one (it waited behind a parked Fetch on the same connection): its answer
                # is no offer to the current epoch.  If the implementation uses it all the same, the next
                # delivery / commit has no start position and is rejected there.
                ok_tps = lo_ok.pop(key, None)
                if delivered and sent is not None and sent <= adopted_at.get(cid, -1):
                    stale_lo[0] += 1
                elif delivered:
                    for tpc in f["topics"]:
                        for p in tpc["partitions"]:
                            if p["error_code"] == 0 and p.get("offset", -1) >= 0:
                                # a reset request of the CURRENT epoch can only follow an OffsetFetch answer of this
                                # epoch for that partition (the request was sent by the previous assignment's task
                                # and crossed the adoption on the wire otherwise)
                                if ok_tps is not None and (tpc["topic"], p["partition"]) not in ok_tps:
                                    stale_lo[0] += 1
                                    continue
                                out.append(f"offer:{m}:{pidx((tpc['topic'], p['partition']))}:{p['offset']}:r")
        elif ev == "group" and e["group"] == GROUP:
            op = e["op"]
            if op == "generation":
                mem = []
                seen = set()
                for mid in e.get("members", []):
                    cid = mid2cid.get(mid)
                    if cid is None or cid in seen:
                        continue
                    seen.add(cid)
                    mem.append((midx[cid], parked_topics.get(mid, [])))
                out.append(f"gen:{e['generation']}:{_assoc(mem)}")
            elif op == "stable":
                pairs = []
                seen = set()
                for mid, hx in e["assignments"].items():
                    cid = mid2cid.get(mid)
                    if cid is None or cid in seen:
                        continue
                    seen.add(cid)
                    pairs.append((midx[cid], tps_of(hx)))
                out.append(f"dist:{e['generation']}:{_assoc(pairs)}")
        for op, cid in extra.get(i, ()):
            out.append(f"{op}:{midx[cid]}")
        slots.append([(t, i) for t in out])
    tokens, meta = [], []
    for sl in slots:
        for t, i in sl:
            tokens.append(t)
            meta.append(i)
    return tokens, meta


def invisible(run):
    inv = []
    for tp, vis in run["visible"].items():
        vs = set(vis)
        for k in range(run["leo"][tp]):
            if k not in vs:
                inv.append(f"{pidx(tp)}.{k}")
    return ",".join(inv) if inv else "-"


# ------------------------------------------------------------------------------------------ the properties themselves
def check_c04(run):
    """C04 evaluated directly on the observations.  Returns a list of (clause, text)."""
    trace = run["trace"]
    members = set(run["order"])
    vis = {tp: set(v) for tp, v in run["visible"].items()}
    delivered_by = {}       # (cid, tp) -> set of offsets handed to that member incarnation
    delivered_any = {}      # tp -> set
    starts = {}             # (cid, tp) -> start offsets of all its epochs so far
    epoch = {}              # (cid, tp) -> [start or None, used?]  of the running epoch
    bad = []

    def lost_below(tp, c):
        anyd = delivered_any.get(tp, set())
        return [k for k in range(0, c) if k in vis.get(tp, ()) and k not in anyd][:5]

    lo_arrived = {(e["conn"], e["corr"]): e.get("arrived", e["vt"]) for e in trace
                  if e["ev"] == "request" and e.get("api") == "ListOffsets"}
    adopted_at = {}
    asked_since = {}
    lo_ok = {}
    for i, e in enumerate(trace):
        ev = e["ev"]
        if ev == "request" and e.get("api") == "ListOffsets" and e.get("client") in members:
            lo_ok[(e["conn"], e["corr"])] = set(asked_since.get(e["client"], ()))
        if ev == "h":
            cid = e["m"]
            if e["op"] in ("asgS", "sub"):
                adopted_at[cid] = e["vt"]
                asked_since[cid] = set()
                for k in [k for k in epoch if k[0] == cid]:
                    if epoch[k][0] is not None and not epoch[k][1]:
                        starts.setdefault(k, []).append(epoch[k][0])
                    del epoch[k]
                if e["op"] == "asgS":
                    for tp in e["tps"]:
                        epoch[(cid, tuple(tp))] = [None, False, False]
            elif e["op"] == "deliver":
                tp = tuple(e["tp"])
                o = e["o"]
                ep = epoch.get((cid, tp))
                if ep is None or ep[0] is None:
                    bad.append(("redelivery_only_above_commit",
                                f"{cid} got {tp}@{o} without having been given a start offset for it (event {i})"))
                else:
                    if not ep[1]:
                        ep[1] = True
                        starts.setdefault((cid, tp), []).append(ep[0])
                    if o < ep[0]:
                        bad.append(("redelivery_only_above_commit",
                                    f"{cid} got {tp}@{o} below the offset {ep[0]} it was started at (event {i})"))
                delivered_by.setdefault((cid, tp), set()).add(o)
                delivered_any.setdefault(tp, set()).add(o)
        elif ev == "request" and e["client"] in members and e["api"] == "OffsetCommit":
            cid = e["client"]
            for tpc in e["fields"]["topics"]:
                for p in tpc["partitions"]:
                    tp = (tpc["topic"], p["partition"])
                    c = p["offset"]
                    mine = delivered_by.get((cid, tp), set())
                    cands = list(starts.get((cid, tp), []))
                    ep = epoch.get((cid, tp))
                    if ep is not None and ep[0] is not None and not ep[1]:
                        cands.append(ep[0])
                    ok = any(st <= c and all((k not in vis.get(tp, ())) or k in mine for k in range(st, c))
                             for st in cands)
                    if not ok:
                        bad.append(("commit_behind_delivery",
                                    f"{cid} committed {tp}={c}; it was started at {cands}; "
                                    f"it had been handed {sorted(mine)[-3:]} at most (event {i})"))
                    lost = lost_below(tp, c)
                    if lost:
                        bad.append(("no_loss", f"{cid} committed {tp}={c} but {lost} were never delivered to anyone (event {i})"))
        elif ev == "reply" and e["client"] in members and "fault" not in e and not e.get("undelivered"):
            cid = e["client"]
            f = e.get("fields") or {}
            if e["api"] == "ListOffsets" and lo_arrived.get((e["conn"], e["corr"]), 1 << 60) <= adopted_at.get(cid, -1):
                continue        # answer to a request of the previous assignment (see to_events)
            if e["api"] in ("OffsetFetch", "ListOffsets"):
                ok_tps = lo_ok.get((e["conn"], e["corr"])) if e["api"] == "ListOffsets" else None
                for tpc in f["topics"]:
                    for p in tpc["partitions"]:
                        tp = (tpc["topic"], p["partition"])
                        if e["api"] == "OffsetFetch":
                            asked_since.setdefault(cid, set()).add(tp)
                        elif ok_tps is not None and tp not in ok_tps:
                            continue    # reset request of the previous assignment (see to_events)
                        ep = epoch.get((cid, tp))
                        if p["error_code"] == 0 and e["api"] == "OffsetFetch" and p["offset"] < 0 and ep is not None:
                            ep[2] = True        # told: no committed offset
                        if p["error_code"] == 0 and p.get("offset", -1) >= 0:
                            if ep is not None and not ep[1]:
                                if e["api"] == "ListOffsets" and not ep[2]:
                                    bad.append(("redelivery_only_above_commit",
                                                f"{cid} reset {tp} to {p['offset']} although the coordinator had answered a committed offset {ep[0]} (event {i})"))
                                ep[0] = p["offset"]
                            if e["api"] == "OffsetFetch":
                                lost = lost_below(tp, p["offset"])
                                if lost:
                                    bad.append(("no_loss", f"{cid} was started at {tp}={p['offset']} but {lost} were never delivered to anyone (event {i})"))
    return bad


def check_c05(run):
    """C05 evaluated directly on the observations.  Returns a list of (clause, text)."""
    trace = run["trace"]
    bad = []
    gate = {}            # cid -> open?
    cur = {}             # cid -> set of tp adopted last
    cb = {}              # cid -> last callback event kind
    last_rev_end = {}    # cid -> index of last revE with no asgS since
    adopted = {}         # generation -> {cid: set(tp)}
    mid2cid = {}
    sync_gen = {}        # (conn, corr) -> generation
    cur_gen = {}         # cid -> generation of its last delivered sync reply
    hist = {h["generation"]: h for h in run["history"]}
    members = set(run["order"])
    extra = undisturbed_events(run)
    in_rev = {}          # cid -> inside its revoke callback
    dead = set()
    for i, e in enumerate(trace):
        ev = e["ev"]
        for xop, xcid in extra.get(i, ()):
            if xop == "leaveR":
                gate[xcid] = False      # it left the group by itself: the join preparation closes the gate
            elif xop == "expire" and in_rev.get(xcid) and xcid not in dead:
                bad.append(("revoke_before_assign_groupwide",
                            f"the coordinator expired {xcid} while its revoke callback was running: the rebalance "
                            f"completes without it and assign callbacks of the new generation start (event {i})"))
        if ev == "h":
            cid = e["m"]
            op = e["op"]
            if op == "gone":
                dead.add(cid)
            if op == "revS":
                in_rev[cid] = True
            elif op == "revE":
                in_rev[cid] = False
            if op == "revS":
                gate[cid] = False
                last_rev_end.pop(cid, None)
            elif op == "revE":
                last_rev_end[cid] = i
            elif op == "sub":
                gate[cid] = False
                cur[cid] = set()
            elif op == "asgS":
                tps = {tuple(tp) for tp in e["tps"]}
                gate[cid] = True
                cur[cid] = tps
                last_rev_end.pop(cid, None)
                g = cur_gen.get(cid)
                for tp in tps:
                    if tp[0] not in e["subscription"]:
                        bad.append(("only_subscribed", f"{cid} adopted {tp} while subscribed to {e['subscription']} (event {i})"))
                if g is not None:
                    for other, otps in adopted.setdefault(g, {}).items():
                        if other != cid and otps & tps:
                            bad.append(("disjoint_in_generation", f"generation {g}: {cid} and {other} both adopted {sorted(otps & tps)} (event {i})"))
                    adopted[g][cid] = tps
                    h = hist.get(g)
                    if h is not None and h.get("assigned") is not None:
                        sent = None
                        for mid, a in h["assigned"].items():
                            if mid2cid.get(mid) == cid:
                                sent = {tuple(x) for x in (a or [])}
                        if sent is not None and sent != tps and tps:
                            bad.append(("adopt_exactly", f"generation {g}: {cid} adopted {sorted(tps)} but was sent {sorted(sent)} (event {i})"))
            elif op == "snap":
                tps = {tuple(tp) for tp in e["tps"]}
                if tps != cur.get(cid, set()):
                    bad.append(("adopt_exactly", f"{cid}: assignment() = {sorted(tps)} but the last adoption was {sorted(cur.get(cid, set()))} (event {i})"))
            elif op == "deliver":
                tp = tuple(e["tp"])
                if not gate.get(cid, False):
                    bad.append(("silent_after_revoke", f"{cid} got {tp}@{e['o']} after its revoke callback began / subscription changed and before the next assign callback (event {i})"))
                elif tp not in cur.get(cid, set()):
                    bad.append(("silent_after_revoke", f"{cid} got {tp}@{e['o']} which is not in its adopted assignment {sorted(cur.get(cid, set()))} (event {i})"))
        elif ev == "request" and e["client"] in members:
            if e["api"] == "JoinGroup" and e["fields"]["member_id"]:
                mid2cid[e["fields"]["member_id"]] = e["client"]
            elif e["api"] == "SyncGroup":
                sync_gen[(e["conn"], e["corr"])] = e["fields"]["generation_id"]
        elif ev == "reply" and e["client"] in members:
            f = e.get("fields") or {}
            if e["api"] == "JoinGroup" and f.get("member_id"):
                mid2cid[f["member_id"]] = e["client"]
            elif e["api"] == "SyncGroup":
                g = sync_gen.pop((e["conn"], e["corr"]), None)
                if g is not None and "fault" not in e and not e.get("undelivered") and f.get("error_code") == 0:
                    cur_gen[e["client"]] = g
        elif ev == "group" and e["op"] == "generation" and e.get("members"):
            # the barrier: every member of the new generation has finished its revoke callback
            for mid in e["members"]:
                cid = mid2cid.get(mid)
                if cid is not None and cid not in last_rev_end:
                    bad.append(("revoke_before_assign_groupwide",
                                f"generation {e['generation']} formed while {cid} had not finished a revoke callback since its last adoption (event {i})"))
    return bad


# ------------------------------------------------------------------------------------------ the check driver
def scenario_rng(seed, prop, idx):
    import random
    return random.Random(f"{seed}:{prop}:scenario:{idx}")


def _stats(spec, run, toks):
    trace = run["trace"]
    st = {
        "members": len(run["order"]), "assignor": spec["assignor"], "events": len(toks),
        "deliveries": sum(1 for t in toks if t.startswith("del:")),
        "generations": sum(1 for t in toks if t.startswith("gen:")),
        "adoptions": sum(1 for t in toks if t.startswith("asgS:")),
        "commits_stored": sum(1 for t in toks if t.startswith("commit:") and t.endswith(":1")),
        "commits_refused": sum(1 for t in toks if t.startswith("commit:") and t.endswith(":0")),
        "kills": sum(1 for e in trace if e["ev"] == "h" and e["op"] == "gone" and e.get("how") == "kill"),
        "stops": sum(1 for e in trace if e["ev"] == "h" and e["op"] == "gone" and e.get("how") == "stop"),
        "stop_hung": sum(1 for e in trace if e["ev"] == "h" and e["op"] == "gone" and e.get("how") == "stop-hung"),
        "sub_changes": sum(1 for e in trace if e["ev"] == "h" and e["op"] == "sub") - len(run["order"]),
        "faults_fired": sum(1 for e in trace if e["ev"] == "fault"),
        "env_steps": sum(1 for e in trace if e["ev"] == "env"),
        "txn_producer": bool(spec["producer"]["txn"]),
        "outcome": run["outcome"],
        "handout_exceptions": sum(1 for e in trace if e["ev"] == "h" and e["op"] == "raised"),
        "handout_exceptions_deserializer": sum(1 for e in trace if e["ev"] == "h" and e["op"] == "raised" and e.get("exc") == "ValueError"),
        "handout_exceptions_crc": sum(1 for e in trace if e["ev"] == "h" and e["op"] == "raised" and e.get("exc") == "CorruptRecordException"),
        "corrupted_batches_served": sum(1 for e in trace if e["ev"] == "h" and e["op"] == "corrupt"),
        "members_with_raising_deserializer": sum(1 for m in spec["members"] if m.get("poison")),
        "handout_exceptions_coordination": sum(1 for e in trace if e["ev"] == "h" and e["op"] == "raised"
                                               and e.get("exc") not in ("ValueError", "CorruptRecordException")),
        "fatal_coordination_faults_fired": sum(1 for e in trace if e["ev"] == "fault" and e.get("kind") == "error"
                                               and e.get("code") in (30, 29, 12, 28, 24)),
        "fetch_replies_held": sum(1 for e in trace if e["ev"] == "h" and e["op"] == "hold_fetch"),
        "stale_out_of_range_answers": sum(1 for e in trace if e["ev"] == "h" and e["op"] == "release_fetch"
                                          and e.get("stale_out_of_range")),
        "idle_pauses": sum(1 for e in trace if e["ev"] == "h" and e["op"] == "idle"),
        "self_leaves_observed": sum(1 for t in toks if t.startswith("leaveR:")),
        "session_expiries_judged": sum(1 for t in toks if t.startswith("expire:")),
        "slow_revoke_members": sum(1 for m in spec["members"] if m.get("rev_sleep")),
        "starts_from_committed_offset": sum(1 for t in toks if t.startswith("offer:") and t.endswith(":c")),
        "starts_from_reset": sum(1 for t in toks if t.startswith("offer:") and t.endswith(":r")),
        "fetch_replies_with_data": sum(1 for t in toks if t.startswith("fR:")),
        "assignment_snapshots": sum(1 for t in toks if t.startswith("snap:")),
        "invisible_offsets": sum(run["leo"][tp] - len(v) for tp, v in run["visible"].items()),
    }
    sizes = [len(t.split(":")[2].split("|")) for t in toks if t.startswith("gen:") and not t.endswith(":-")]
    st["max_generation_size"] = max(sizes) if sizes else 0
    st["multi_member_generations"] = sum(1 for x in sizes if x >= 2)
    seen = {}
    for e in trace:
        if e["ev"] == "h" and e["op"] == "deliver":
            k = (tuple(e["tp"]), e["o"])
            seen[k] = seen.get(k, 0) + 1
    st["redelivered_records"] = sum(1 for v in seen.values() if v > 1)
    st["commit_error_codes"] = sorted({e["outcome"] for e in trace if e["ev"] == "group" and e["op"] == "commit"
                                       and e["outcome"] not in (0, None)} | {e.get("code") for e in trace
                                       if e["ev"] == "fault" and e.get("api") == "OffsetCommit" and e.get("code")})
    return st


def process_chunk(args):
    """worker: run the scenarios `indices` (or the given replay specs), feed the histories to the Lean
    acceptor of `prop`, evaluate the property directly; returns one small dict per scenario"""
    repo, exe, prop, seed, thorough, items = args
    import subprocess
    env = load(repo)
    results, lines, keep = [], [], []
    for idx, spec in items:
        if spec is None:
            spec = gen_scenario(scenario_rng(seed, prop, idx), idx, thorough)
        try:
            run = run_scenario(env, spec)
        except env.sim.SimBug as ex:
            results.append({"idx": idx, "spec": spec, "harness_error": f"SimBug: {ex}"})
            lines.append(None)
            keep.append(None)
            continue
        toks, meta = to_events(env, run)
        evs = ";".join(toks) if toks else "-"
        if prop == "C04":
            lines.append("c04 run " + invisible(run) + " " + evs)
            py = check_c04(run)
        else:
            lines.append("c05 run " + evs)
            py = check_c05(run)
        results.append({"idx": idx, "spec": spec, "py": py[:4], "stats": _stats(spec, run, toks), "notes": run["notes"][:6]})
        keep.append((toks, meta, run))
    todo = [ln for ln in lines if ln is not None]
    if todo:
        p = subprocess.run([exe], input=("\n".join(todo) + "\n").encode(), capture_output=True, timeout=1200)
        out = p.stdout.decode().splitlines()
        if p.returncode != 0 or len(out) != len(todo):
            for r in results:
                r.setdefault("harness_error", f"driver exited {p.returncode}, {len(out)} lines for {len(todo)}")
            return results
        k = 0
        for r, ln, kp in zip(results, lines, keep):
            if ln is None:
                continue
            r["lean"] = out[k]
            k += 1
            if r["lean"].startswith("reject"):
                j = int(r["lean"].split()[1])
                toks, meta, run = kp
                r["context"] = toks[max(0, j - 14): j + 1]
                r["raw_event"] = {a: b for a, b in run["trace"][meta[j]].items() if a != "fields"}
            if not (r["lean"].startswith("ok") and not r["py"]):
                pass
            else:
                r["spec_digest"] = (r["spec"]["seed"], r["spec"]["assignor"], len(r["spec"]["members"]))
                r["sample_spec"] = r["spec"] if r["idx"] < 2 else None
                r["spec"] = None
    return results


def run_check(ctx, prop, clause_of_reason, n_quick, n_thorough, workers=14):
    """common body of checks/c04.py and checks/c05.py"""
    import multiprocessing as mp
    from vlib import HarnessError
    proved = ctx.prove(drivers=["akdriver"])
    ctx.log(f"proof side done (proved={proved})")
    exe = str(ctx.ws.exe_path("akdriver"))
    # self-test of the observer: a hand-made good history must be accepted, hand-made bad ones rejected
    # for the right reason (a driver that accepts everything, or a protocol drift, must not go unnoticed)
    good = ("sub:0;subT:0:0;revS:0;revE:0;joinS:0:0:1;gen:1:0=0;joinR:0:1;dist:1:0=0.1;syncR:0:1:0,1;asgS:0:1:0,1;snap:0:0,1;asgE:0;"
            "noOffset:0:0;offer:0:0:0:r;fS:0:0:0;fR:0:0:0:4;del:0:0:0;del:0:0:1;commit:0:0:2:1;"
            "revS:0;revE:0;joinS:0:0:1;gen:2:0=0;joinR:0:2;dist:2:0=0.1;syncR:0:2:0,1;asgS:0:2:0,1;asgE:0;"
            "offer:0:0:2:c;fS:0:0:2;fR:0:0:2:4;del:0:0:2")
    if prop == "C05":
        tests = [("c05 run " + good, "ok"), ("c05 run " + good + ";revS:0;del:0:0:3", "impl:delivered-while-gate-closed"),
                 ("c05 run revS:0;revE:0;joinS:0:0:1;revS:1;revE:1;joinS:1:0:1;gen:1:0=0|1=0;dist:1:0=0.1|1=1",
                  "impl:leader-assignment-overlaps")]
    else:
        tests = [("c04 run - " + good, "ok"), ("c04 run - " + good + ";commit:0:0:4:1", "impl:commit-passes-undelivered-records"),
                 ("c04 run - " + good + ";del:0:0:4", "impl:delivery-skips-visible-records"),
                 ("c04 run 0.3 " + good + ";del:0:0:4;commit:0:0:5:1", "ok")]
    outs = ctx.driver("akdriver", [t for t, _ in tests])
    for (t, want), got in zip(tests, outs):
        if want not in got:
            raise HarnessError(f"acceptor self-test failed: expected {want!r}, driver said {got!r}")
    ctx.coverage["observer_selftest"] = f"{len(tests)} hand-made histories judged as expected"
    if ctx.replay_cases is not None:
        items = [(1000000 + i, c["spec"]) for i, c in enumerate(ctx.replay_cases) if "spec" in c]
    else:
        n = n_thorough if ctx.thorough else n_quick
        items = [(i, None) for i in range(n)]
    nw = max(1, min(workers, len(items)))
    chunks = [items[k::nw] for k in range(nw)]
    args = [(str(ctx.repo), exe, prop, ctx.seed, ctx.thorough, ch) for ch in chunks if ch]
    with mp.get_context("fork").Pool(len(args)) as pool:
        res = [r for part in pool.map(process_chunk, args) for r in part]
    res.sort(key=lambda r: r["idx"])
    ctx.log(f"{len(res)} histories run and validated")
    agg = {}
    hist_keys = ("members", "assignor", "outcome", "max_generation_size")
    hist = {k: {} for k in hist_keys}
    reasons = {}
    for r in res:
        if "harness_error" in r:
            raise HarnessError(f"scenario {r['idx']}: {r['harness_error']}")
        st = r["stats"]
        for k, v in st.items():
            if k in hist_keys:
                hist[k][str(v)] = hist[k].get(str(v), 0) + 1
            elif isinstance(v, bool):
                agg[k] = agg.get(k, 0) + int(v)
            elif isinstance(v, int):
                agg[k] = agg.get(k, 0) + v
            elif k == "commit_error_codes":
                agg.setdefault(k, set()).update(v)
        ctx.count((r["idx"], st["events"], st["deliveries"], st["generations"]),
                  nontrivial=st["generations"] >= 2 and st["deliveries"] >= 1 and (st["commits_stored"] + st["commits_refused"]) >= 1)
    if "commit_error_codes" in agg:
        agg["commit_error_codes"] = sorted(agg["commit_error_codes"])
    ctx.coverage["traces_validated_against_impl"] = len(res)
    ctx.coverage["totals"] = agg
    ctx.coverage["histograms"] = hist
    for r in res[:3]:
        ctx.sample({"scenario": r["idx"], "stats": r["stats"], "lean": r.get("lean"), "notes": r.get("notes")})
    # ---- verdicts
    bad_env = []
    for r in res:
        lean = r.get("lean", "")
        py = r.get("py") or []
        if lean.startswith("ok") and not py:
            continue
        case = {"spec": r["spec"]}
        if lean.startswith("reject"):
            _, j, why = lean.split(" ", 2)
            cls, _, reason = why.partition(":")
            key = reason.split("_")[0] if "_" in reason and "=" in reason else reason
            key = reason.split("_p=")[0].split("_adopted=")[0].split("_observed=")[0].split("_answered=")[0].split("_subscribed=")[0]
            reasons[key] = reasons.get(key, 0) + 1
            if cls in ("env", "harness"):
                bad_env.append((r["idx"], why, r.get("context")))
                continue
            ctx.broken.append({"kind": "correspondence", "tie": f"T-trace {prop}: history rejected by the Lean acceptor",
                               "scenario": r["idx"], "event_index": int(j), "reason": why,
                               "context": r.get("context"), "raw_event": r.get("raw_event")})
            clause = clause_of_reason(key)
            if clause is not None:
                ctx.violation(f"{prop.lower()}:{clause}",
                              f"{clause} fails on a real history: event #{j} {r.get('context', ['?'])[-1]} — {why}",
                              {"cases": [case], "rejected_event_index": int(j), "reason": why,
                               "context": r.get("context"), "raw_event": r.get("raw_event"), "direct_evaluation": py})
            elif py:
                ctx.violation(f"{prop.lower()}:{py[0][0]}", py[0][1],
                              {"cases": [case], "reason": why, "context": r.get("context"), "direct_evaluation": py})
            else:
                ctx.violation(f"{prop.lower()}:mechanism:{key}",
                              f"history rejected by the acceptor ({why}) but the property evaluated directly holds on it",
                              {"cases": [case], "rejected_event_index": int(j), "reason": why,
                               "context": r.get("context"), "raw_event": r.get("raw_event")}, no_input=True)
        elif lean.startswith("ok") and py:
            ctx.violation(f"{prop.lower()}:{py[0][0]}", py[0][1], {"cases": [case], "direct_evaluation": py,
                                                                   "note": "accepted by the Lean acceptor"})
        else:
            raise HarnessError(f"scenario {r['idx']}: driver said {lean[:200]!r}")
    ctx.coverage["rejections"] = reasons
    if bad_env:
        raise HarnessError(f"{len(bad_env)} histories disagree with the coordinator model (Env): first = scenario "
                           f"{bad_env[0][0]}: {bad_env[0][1]} context {bad_env[0][2]}")
    return proved
