"""C11 — API messages encode to the Kafka wire format and negotiate versions safely.

Proof: Props/C11.lean (generic `wire_roundtrip` by mutual induction over the schema type, layout
of fixed-width and varint primitives, `prepare_*`, and kernel-decided facts over the table of all
struct classes regenerated from /repo on every run).
Tie: T-extract (harness/extract/schemas.py → Gen/Schemas.lean) + T-diff of every struct's
encode/decode, the primitive codecs, `Request.prepare` for every builder and every broker range,
and every builder's parameter/version rules.
"""
import io
import struct as pystruct

from vlib import LEAN, HarnessError
from extract import schemas as X

# parameter that changes the request's meaning -> first version that can express it
# (hand-written from the Kafka protocol guide; the builders are compared against it exhaustively)
BUILDER_RULES = {
    "ProduceRequest": [("transactional_id", 3)],
    "FetchRequest": [("isolation_level", 4)],
    "OffsetRequest": [("isolation_level", 2), ("timestamp", 1)],
    "FindCoordinatorRequest": [("coordinator_type", 1)],
    "OffsetFetchRequest": [("all_partitions", 2)],
    "CreateTopicsRequest": [("validate_only", 1)],
    "DescribeGroupsRequest": [("include_authorized_operations", 3)],
    "DescribeConfigsRequest": [("include_synonyms", 1)],
    "DeleteRecordsRequest": [("tags", 2)],
}


class Gen:
    def __init__(self, T, rng):
        self.T, self.rng = T, rng

    STRS = ["", "a", "topic-1", "é", "日本", "x" * 40, "a,b=c", "ÿĀ"]

    def int_in(self, lo, hi):
        r = self.rng
        c = r.random()
        if c < 0.25:
            return r.choice([lo, hi, 0, -1 if lo < 0 else 1, 1, lo + 1, hi - 1])
        if c < 0.5:
            return r.randrange(max(lo, -300), min(hi, 300) + 1)
        return r.randrange(lo, hi + 1)

    def uv(self):
        r = self.rng
        return r.choice([0, 1, 127, 128, 16383, 16384, 2097151, 2097152, 268435455, 268435456,
                         2**32 - 1, r.randrange(0, 2**32), r.randrange(0, 300)])

    def hexs(self, b):
        return b.hex()

    def value(self, f, depth=0):
        """-> (python value, text)"""
        T, r = self.T, self.rng
        if isinstance(f, type):
            if f is T.Int8: v = self.int_in(-2**7, 2**7 - 1); return v, str(v)
            if f is T.Int16: v = self.int_in(-2**15, 2**15 - 1); return v, str(v)
            if f is T.Int32: v = self.int_in(-2**31, 2**31 - 1); return v, str(v)
            if f is T.Int64: v = self.int_in(-2**63, 2**63 - 1); return v, str(v)
            if f is T.UInt32: v = self.int_in(0, 2**32 - 1); return v, str(v)
            if f is T.Float64:
                while True:
                    bits = r.choice([0, 1 << 63, 0x3FF0000000000000, 0x7FF0000000000000, r.getrandbits(64)])
                    if (bits >> 52) & 0x7FF == 0x7FF and bits & ((1 << 52) - 1):
                        continue  # NaN payloads are not compared
                    return pystruct.unpack(">d", pystruct.pack(">Q", bits))[0], str(bits)
            if f is T.Boolean: v = r.random() < 0.5; return v, "T" if v else "F"
            if f in (T.Bytes, T.CompactBytes):
                if r.random() < 0.15: return None, "N"
                b = r.randbytes(r.choice([0, 1, 2, 5, 127, 128, 300]) if r.random() < 0.3 else r.randrange(0, 6))
                return b, "x" + b.hex()
            if f is T.UnsignedVarInt32: v = self.uv(); return v, str(v)
            if f is T.VarInt32: v = self.int_in(-2**31, 2**31 - 1); return v, str(v)
            if f is T.VarInt64: v = self.int_in(-2**63, 2**63 - 1); return v, str(v)
            if f is T.TaggedFields:
                n = 0 if r.random() < 0.6 else r.randrange(1, 4)
                tags = sorted(r.sample([0, 1, 2, 5, 127, 128, 1000, 2**31], n))
                d = {t: r.randbytes(r.randrange(0, 4)) for t in tags}
                return d, "g{" + ",".join(f"{k}:{v.hex()}" for k, v in d.items()) + "}"
            raise HarnessError(f"unknown type {f}")
        if isinstance(f, T.String):  # also CompactString
            if r.random() < 0.15: return None, "N"
            s = r.choice(self.STRS)
            return s, "x" + s.encode("utf-8").hex()
        if isinstance(f, T.Array):  # also CompactArray
            if r.random() < 0.1: return None, "N"
            n = r.choice([0, 1, 1, 2, 3]) if depth < 3 else r.choice([0, 1])
            items = [self.value(f.array_of, depth + 1) for _ in range(n)]
            return [i[0] for i in items], "[" + ",".join(i[1] for i in items) + "]"
        if isinstance(f, T.Schema):
            items = [self.value(x, depth + 1) for x in f.fields]
            return tuple(i[0] for i in items), "(" + ",".join(i[1] for i in items) + ")"
        raise HarnessError(f"unknown field {f!r}")


def show(T, f, v):
    """python value decoded by the library -> the model's text syntax"""
    if isinstance(f, type):
        if f is T.Float64:
            return str(pystruct.unpack(">Q", pystruct.pack(">d", v))[0])
        if f is T.Boolean:
            return "T" if v else "F"
        if f in (T.Bytes, T.CompactBytes):
            return "N" if v is None else "x" + bytes(v).hex()
        if f is T.TaggedFields:
            return "g{" + ",".join(f"{k}:{bytes(x).hex()}" for k, x in v.items()) + "}"
        return str(v)
    if isinstance(f, T.String):
        return "N" if v is None else "x" + v.encode("utf-8").hex()
    if isinstance(f, T.Array):
        return "N" if v is None else "[" + ",".join(show(T, f.array_of, x) for x in v) + "]"
    if isinstance(f, T.Schema):
        return "(" + ",".join(show(T, x, y) for x, y in zip(f.fields, v)) + ")"
    raise HarnessError(f"unknown field {f!r}")


def hx(b):
    return b.hex() if b else "-"


def run(ctx):
    ctx.coverage["trusted_base"] = [
        "Lean 4.33.0 kernel; axioms propext, Classical.choice, Quot.sound only",
        "translator harness/extract/schemas.py (schema objects -> Lean terms / type text)",
        "T-diff harness harness/checks/c11.py, line protocol driver, Driver/WireIO.lean parser",
        "strings modelled as their UTF-8 bytes (CPython str.encode/bytes.decode trusted inverse); float64 as raw bits",
        "BUILDER_RULES: hand-written table of the first version able to express each meaning-changing parameter",
        "layout conformance with the Kafka protocol guide is proved for the primitive codecs and the struct framing; "
        "the per-API field lists are NOT compared with an independent Kafka table (modelled, not verified)",
    ]
    import logging
    logging.disable(logging.WARNING)
    try:
        mods, entries, builders, skipped = X.extract(ctx.repo)
    except Exception as e:  # noqa
        ctx.broken.append({"kind": "extract", "error": repr(e)})
        entries = builders = None
    if entries is not None:
        gen_path = LEAN / "AkVerif" / "Gen" / "Schemas.lean"
        txt = X.lean_file(entries, builders)
        if not gen_path.exists() or gen_path.read_text() != txt:
            gen_path.write_text(txt)
        ctx.coverage["extracted_structs"] = len(entries)
        ctx.coverage["extracted_builders"] = len(builders)
        if skipped:
            ctx.broken.append({"kind": "extract-unsupported", "items": skipped[:10]})
    proved = ctx.prove(drivers=["akdriver"])
    if entries is None:
        return
    T = mods["types"]
    rng = ctx.rng("gen")
    G = Gen(T, rng)
    lines, impl, meta = [], [], []

    def add(line, out, m):
        lines.append(line); impl.append(out); meta.append(m)

    # ---- B: every struct: encode / decode / round trip on the implementation itself
    per = 400 if ctx.thorough else 40
    rt_fail = None
    for e in entries:
        sch = e["cls"].SCHEMA
        for _ in range(per):
            val, txt = G.value(sch)
            try:
                b = sch.encode(val)
                out = hx(b)
            except Exception as ex:  # noqa
                b, out = None, "raise"
            add(f"c11 enc {e['ty']} {txt}", out, {"k": "enc", "struct": e["name"], "val": txt})
            ctx.count((e["name"], txt))
            if b is not None:
                try:
                    dec = sch.decode(io.BytesIO(b + b"\x99"))
                    dtxt = show(T, sch, dec) + " 1"
                except Exception as ex:  # noqa
                    dtxt = "raise"
                add(f"c11 dec {e['ty']} {hx(b + bytes([0x99]))}", dtxt, {"k": "dec", "struct": e["name"], "val": txt})
                if dtxt != txt + " 1" and rt_fail is None:
                    rt_fail = {"struct": e["name"], "value": txt, "encoded": hx(b), "decoded": dtxt}
                # truncations: both sides must fail or agree
                if rng.random() < 0.3 and len(b) > 1 and "s" not in e["ty"].replace("cs", "s"):
                    cut = rng.randrange(0, len(b))
                    try:
                        dec = sch.decode(io.BytesIO(b[:cut]))
                        dtxt = show(T, sch, dec) + " 0"
                    except Exception:  # noqa
                        dtxt = "raise"
                    add(f"c11 dec {e['ty']} {hx(b[:cut])}", dtxt, {"k": "trunc", "struct": e["name"], "val": txt})
    # ---- C: primitives at their boundaries
    prims = [("i8", T.Int8, 7), ("i16", T.Int16, 15), ("i32", T.Int32, 31), ("i64", T.Int64, 63)]
    for name, cls, bits in prims:
        for v in [-2**bits - 1, -2**bits, -2**bits + 1, -1, 0, 1, 2**bits - 1, 2**bits, 2**bits + 5]:
            try:
                out = hx(cls.encode(v))
            except Exception:  # noqa
                out = "raise"
            add(f"c11 enc {name} {v}", out, {"k": "prim", "struct": name, "val": str(v)})
            ctx.count(("prim", name, v))
    vints = []
    for k in range(0, 65):
        vints += [2**k - 1, 2**k, -(2**k), -(2**k) - 1, -(2**k) + 1]
    for v in sorted(set(vints)) + [rng.randrange(-2**63, 2**63) for _ in range(200)]:
        for name, cls, lo, hi in [("uv", T.UnsignedVarInt32, 0, 2**32 - 1), ("v32", T.VarInt32, -2**31, 2**31 - 1),
                                  ("v64", T.VarInt64, -2**63, 2**63 - 1), ("u32", T.UInt32, 0, 2**32 - 1)]:
            if not (lo <= v <= hi):
                continue  # out-of-range: Python silently wraps; not an in-range field value
            try:
                b = cls.encode(v)
                out = hx(b)
            except Exception:  # noqa
                b, out = None, "raise"
            add(f"c11 enc {name} {v}", out, {"k": "prim", "struct": name, "val": str(v)})
            ctx.count(("prim", name, v))
            if b is not None:
                try:
                    d = f"{cls.decode(io.BytesIO(b))} 0"
                except Exception:  # noqa
                    d = "raise"
                add(f"c11 dec {name} {hx(b)}", d, {"k": "prim-dec", "struct": name, "val": str(v)})
                if d != f"{v} 0" and rt_fail is None:
                    rt_fail = {"struct": name, "value": str(v), "encoded": hx(b), "decoded": d}
    for _ in range(300 if not ctx.thorough else 5000):
        val, txt = G.value(T.TaggedFields)
        if rng.random() < 0.5 and not val:
            tags = sorted(rng.sample(range(0, 300), rng.randrange(1, 4)))
            val = {t: rng.randbytes(rng.randrange(0, 200 if rng.random() < 0.2 else 5)) for t in tags}
            txt = "g{" + ",".join(f"{k}:{v.hex()}" for k, v in val.items()) + "}"
        try:
            b = T.TaggedFields.encode(val)
            out = hx(b)
        except BaseException:  # noqa  (AssertionError)
            b, out = None, "raise"
        add(f"c11 enc tg {txt}", out, {"k": "prim", "struct": "tg", "val": txt})
        ctx.count(("tg", txt))
        if b is not None:
            try:
                d = show(T, T.TaggedFields, T.TaggedFields.decode(io.BytesIO(b))) + " 0"
            except Exception:  # noqa
                d = "raise"
            if d != txt + " 0" and rt_fail is None:
                rt_fail = {"struct": "TaggedFields", "value": txt, "encoded": hx(b), "decoded": d}
    # ---- D: prepare() for every builder and every broker range
    prep_obs = []
    for bld in builders:
        cls = bld["cls"]
        maxv = max(bld["versions"])
        ranges = [None] + [(lo, hi) for lo in range(0, maxv + 3) for hi in range(lo, maxv + 3)]
        for rg in ranges:
            obj = cls.__new__(cls)
            chosen = []
            obj.build = lambda c, chosen=chosen: chosen.append(c) or c
            try:
                obj.prepare({} if rg is None else {bld["key"]: rg})
                out = f"v{chosen[0].API_VERSION}"
            except NotImplementedError:
                out = "not-implemented"
            except Exception as ex:  # noqa
                out = "incompatible" if type(ex).__name__ == "IncompatibleBrokerVersion" else f"raise:{type(ex).__name__}"
            rtxt = "none" if rg is None else f"{rg[0]}:{rg[1]}"
            add(f"c11 prepare {','.join(map(str, bld['versions']))} {'T' if bld['allow_unknown'] else 'F'} {rtxt}",
                out, {"k": "prepare", "struct": bld["name"], "val": rtxt})
            ctx.count(("prep", bld["name"], rtxt))
            prep_obs.append((bld, rg, out, chosen[0] if chosen else None))
    ctx.coverage["prepare_exhaustive"] = True

    res = ctx.driver("akdriver", lines)
    mism = [i for i in range(len(lines)) if res[i] != impl[i]]
    for i in (0, len(lines) // 3, len(lines) - 1):
        ctx.sample({"op": lines[i][:200], "impl": impl[i][:120], "model": res[i][:120]})
    ctx.coverage["rule"] = (f"every one of the {len(entries)} extracted struct schemas × {per} seeded random in-range values "
                            "(integer extremes, null/empty/non-ASCII strings, null/empty/nested arrays, tagged fields), "
                            "encode + decode + random truncation; primitive codecs at every power-of-two boundary; "
                            "prepare() for every builder × every (min,max) range incl. disjoint and unknown; "
                            "builder parameter rules exhaustively. distinct by (struct, canonical value text)")
    ctx.coverage["traces_validated_against_impl"] = len(lines)

    # ---- E: builders reject what the negotiated version cannot express (exhaustive)
    bviol = check_builders(ctx, mods, builders)

    # ---- S: failing-input search
    # (1) the implementation's own round trip
    if rt_fail is not None:
        ctx.violation(f"roundtrip:{rt_fail['struct']}", f"decode(encode(v)) != v for {rt_fail['struct']}: {rt_fail}",
                      {"cases": [rt_fail]})
    # (2) header version must be the highest common one, inside the broker's range
    for bld, rg, out, chosen in prep_obs:
        if rg is None:
            continue
        common = [v for v in set(c for c in range(rg[0], rg[1] + 1)) if f"_v{v}" in " ".join(bld["classes"])]
        if out.startswith("v"):
            v = int(out[1:])
            if not (rg[0] <= v <= rg[1]):
                ctx.violation(f"prepare-outside-range:{bld['name']}", f"{bld['name']}.prepare({rg}) chose version {v}",
                              {"cases": [{"builder": bld["name"], "range": rg, "chosen": v}]})
            elif common and v != max(common):
                ctx.violation(f"prepare-not-highest:{bld['name']}",
                              f"{bld['name']}.prepare({rg}) put version {v} in the header; highest common is {max(common)}",
                              {"cases": [{"builder": bld["name"], "range": rg, "chosen": v, "class": chosen.__qualname__}]})
    # (3) reply decoded with the same version's schema: encode a reply with the response struct of
    #     the request's version and decode it with RESPONSE_TYPE
    by_kv = {(e["key"], e["ver"]): e for e in entries if e["kind"] == "resp"}
    for e in entries:
        if e["kind"] != "req":
            continue
        rcls = e["cls"].RESPONSE_TYPE
        right = by_kv.get((e["key"], e["ver"]))
        if right is None:
            if rcls.API_KEY != e["key"]:
                ctx.violation(f"pairing:{e['name']}", f"{e['name']} is answered by {rcls.__qualname__}", {"cases": [e["name"]]})
            continue
        if right["cls"] is rcls or right["ty"] == X.ty_of(rcls.SCHEMA, T)[0]:
            continue
        for _ in range(50):
            val, txt = G.value(right["cls"].SCHEMA)
            b = right["cls"].SCHEMA.encode(val)
            try:
                got = show(T, rcls.SCHEMA, rcls.SCHEMA.decode(io.BytesIO(b)))
            except Exception as ex:  # noqa
                got = f"raise:{type(ex).__name__}"
            if got != txt:
                ctx.violation(f"pairing:{e['name']}",
                              f"a v{e['ver']} reply to {e['name']} is decoded with {rcls.__qualname__} (schema of another version)",
                              {"cases": [{"request": e["name"], "reply_struct": right["name"], "reply_value": txt,
                                          "reply_bytes": hx(b), "decoded_with": rcls.__qualname__, "decoded": got[:300]}]})
                break
    # (4) the request / response headers have the layout the Kafka protocol guide gives them (theorem
    #     headers_match_kafka): values of the implementation's header struct, encoded by the implementation,
    #     must be the bytes the model produces for the KAFKA header type
    kafka_headers = {"RequestHeader_v1": "S(i16,i16,i32,s)", "RequestHeader_v2": "S(i16,i16,i32,s,tg)",
                     "ResponseHeader_v0": "S(i32)", "ResponseHeader_v1": "S(i32,tg)"}
    hl, hi, hm = [], [], []
    for e in entries:
        kt = kafka_headers.get(e["name"])
        if kt is None:
            continue
        for _ in range(25):
            val, txt = G.value(e["cls"].SCHEMA)
            try:
                out = hx(e["cls"].SCHEMA.encode(val))
            except Exception:  # noqa
                out = "raise"
            hl.append(f"c11 enc {kt} {txt}")
            hi.append(out)
            hm.append({"struct": e["name"], "kafka_type": kt, "value": txt, "implementation_bytes": out})
    missing = [n for n in kafka_headers if not any(e["name"] == n for e in entries)]
    if missing:
        ctx.violation("header-layout:missing", f"header structs not found: {missing}", {"cases": missing})
    if hl:
        hr = ctx.driver("akdriver", hl)
        ctx.coverage["header_layout_comparisons"] = len(hl)
        for a, b, m in zip(hr, hi, hm):
            if a != b:
                m["kafka_layout_bytes"] = a
                ctx.violation(f"header-layout:{m['struct']}",
                              f"{m['struct']} encodes {m['value']} as {b}; the Kafka header layout {m['kafka_type']} gives {a}",
                              {"cases": [m]})
                break
    # (5) the reply's header form follows the REQUEST version: flexible request versions are answered with
    #     correlation id + tagged fields, the others with the correlation id alone
    n_hdr = 0
    for e in entries:
        if e["kind"] != "req" or not hasattr(e["cls"], "parse_response_header"):
            continue
        flexible = bool(getattr(e["cls"], "FLEXIBLE_VERSION", False))
        obj = object.__new__(e["cls"])
        buf = io.BytesIO(pystruct.pack(">i", 77) + (b"\x00" if flexible else b"") + b"\xaa\xbb")
        try:
            hdr = e["cls"].parse_response_header(obj, buf)
            used, corr = buf.tell(), hdr.correlation_id
        except Exception as ex:  # noqa
            used, corr = -1, repr(ex)
        n_hdr += 1
        if used != (5 if flexible else 4) or corr != 77:
            ctx.violation(f"reply-header-form:{e['name']}",
                          f"{e['name']} (flexible={flexible}) parsed a reply header of {5 if flexible else 4} bytes as {used} bytes / correlation id {corr}",
                          {"cases": [{"request": e["name"], "flexible": flexible, "consumed": used, "correlation_id": str(corr)}]})
            break
    ctx.coverage["reply_header_forms_checked"] = n_hdr
    if mism and not ctx.violations:
        i = mism[0]
        m = meta[i]
        ctx.broken.append({"kind": "correspondence", "tie": "T-diff c11 (types.py/struct.py/api.py vs AkVerif.Wire)",
                           "mismatches": len(mism),
                           "first": {"op": lines[i][:300], "impl": impl[i][:200], "model": res[i][:200], "meta": m}})
        # a wrong encoding is itself a violation of "encoding follows the Kafka layout": the model IS the layout
        if m["k"] in ("enc", "prim"):
            ctx.violation(f"layout:{m['struct']}", f"{m['struct']} value {m['val'][:80]} encodes to {impl[i][:80]}, Kafka layout is {res[i][:80]}",
                          {"cases": [{"struct": m["struct"], "value": m["val"], "library": impl[i], "kafka_layout": res[i]}]})


def check_builders(ctx, mods, builders):
    """every builder × every struct version × every on/off combination of its meaning-changing
    parameters: must raise IncompatibleBrokerVersion exactly when a set parameter needs a later
    version, and otherwise the built struct must carry the parameter"""
    import itertools
    P = mods
    byname = {b["name"]: b for b in builders}
    n = 0

    def build(bname, kwargs_fn, field_checks, force=None):
        nonlocal n
        if ctx.violations:
            return
        bld = byname.get(bname)
        if bld is None:
            ctx.broken.append({"kind": "builder-missing", "name": bname})
            return
        rules = BUILDER_RULES[bname]
        for flags in itertools.product([False, True], repeat=len(rules)):
            on = {r[0]: f for r, f in zip(rules, flags)}
            if force:
                if any(on[k] != v for k, v in force.items()):
                    continue
            for sc in bld["cls"]._CLASSES:
                v = sc.API_VERSION
                must_reject = any(on[p] and v < minv for p, minv in rules)
                try:
                    req = bld["cls"](**kwargs_fn(on))
                    st = req.build(sc)
                    got = "ok"
                except Exception as ex:  # noqa
                    st = None
                    got = "incompatible" if type(ex).__name__ == "IncompatibleBrokerVersion" else f"raise:{type(ex).__name__}:{ex}"
                n += 1
                ctx.count(("builder", bname, v, flags))
                want = "incompatible" if must_reject else "ok"
                if got != want:
                    ctx.violation(f"builder:{bname}",
                                  f"{bname}.build(v{v}) with {on}: expected {want}, got {got}",
                                  {"cases": [{"builder": bname, "version": v, "params": on, "got": got}]})
                    return
                if st is not None:
                    for p, f in on.items():
                        chk = field_checks.get(p)
                        if f and chk and not chk(st):
                            ctx.violation(f"builder-drops:{bname}:{p}",
                                          f"{bname}.build(v{v}) silently dropped {p}",
                                          {"cases": [{"builder": bname, "version": v, "params": on}]})
                            return

    build("ProduceRequest",
          lambda on: dict(transactional_id="tx" if on["transactional_id"] else None, required_acks=1, timeout=100,
                          topics=[("t", [(0, b"xx")])]),
          {"transactional_id": lambda st: st.transactional_id == "tx"})
    build("FetchRequest",
          lambda on: dict(max_wait_time=100, min_bytes=1, max_bytes=1000,
                          isolation_level=1 if on["isolation_level"] else 0, topics=[("t", [(0, 5, 100)])]),
          {"isolation_level": lambda st: st.isolation_level == 1})
    build("OffsetRequest",
          lambda on: dict(replica_id=-1, isolation_level=1 if on["isolation_level"] else 0,
                          topics=[("t", [(0, 1234 if on["timestamp"] else -1)])]),
          {"isolation_level": lambda st: st.isolation_level == 1,
           "timestamp": lambda st: st.topics[0][1][0][1] == 1234})
    # a timestamp search is requested as soon as ANY partition of ANY topic carries a real timestamp
    for a, b, c, d in itertools.product([-1, -2, 0, 1234], repeat=4):
        for shape in (0, 1):
            topics = [("t", [(0, a), (1, b)]), ("u", [(0, c), (3, d)])] if shape == 0 else [("t", [(0, a)]), ("u", [(0, b), (1, c), (2, d)])]
            want_ts = any(x >= 0 for x in (a, b, c, d))
            build("OffsetRequest",
                  lambda on, topics=topics: dict(replica_id=-1, isolation_level=1 if on["isolation_level"] else 0, topics=topics),
                  {"isolation_level": lambda st: st.isolation_level == 1},
                  force={"timestamp": want_ts})
    for parts in ([("t", [0]), ("u", [1, 2])], [], [("t", [])]):
        build("OffsetFetchRequest",
              lambda on, parts=parts: dict(consumer_group="g", partitions=None if on["all_partitions"] else parts),
              {"all_partitions": lambda st: st.topics is None})
    build("FindCoordinatorRequest",
          lambda on: dict(coordinator_key="k", coordinator_type=1 if on["coordinator_type"] else 0),
          {"coordinator_type": lambda st: st.coordinator_type == 1})
    build("OffsetFetchRequest",
          lambda on: dict(consumer_group="g", partitions=None if on["all_partitions"] else [("t", [0])]),
          {"all_partitions": lambda st: st.topics is None})
    build("CreateTopicsRequest",
          lambda on: dict(create_topic_requests=[("t", 1, 1, [], [])], timeout=100, validate_only=on["validate_only"]),
          {"validate_only": lambda st: st.validate_only is True})
    build("DescribeGroupsRequest",
          lambda on: dict(groups=["g"], include_authorized_operations=on["include_authorized_operations"]),
          {"include_authorized_operations": lambda st: st.include_authorized_operations is True})
    build("DescribeConfigsRequest",
          lambda on: dict(resources=[(2, "t", None)], include_synonyms=on["include_synonyms"]),
          {"include_synonyms": lambda st: st.include_synonyms is True})
    build("DeleteRecordsRequest",
          lambda on: dict(topics=[("t", [(0, 5)])], timeout_ms=100, tags={1: b"x"} if on["tags"] else None),
          {})
    ctx.coverage["builder_cases"] = n
