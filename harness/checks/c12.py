"""C12 — responses reach exactly their requests; connection failure fails all waiters.

Proof: Props/C12.lean.  Tie: T-diff — a real AIOKafkaConnection (connected through the real
`connect()` over an in-memory transport on a virtual-time loop) and the Lean model
`AkVerif.Conn` run the same operation scripts (sends of mixed API types, reply bytes in arbitrary
chunks, clock advances, cancellations, EOF/reset, client close); the outcome of every waiter, the
open/closed state and the set of pending waiters are compared after every script.
"""
import asyncio
import io
import struct
import sys
import importlib

from vlib import HarnessError
from vtloop import VTLoop

TIMEOUT_MS = 1000


def hx(b):
    return b.hex() if b else "-"


class Env:
    def __init__(self, repo):
        sys.path.insert(0, str(repo))
        for m in [m for m in sys.modules if m.startswith("aiokafka")]:
            del sys.modules[m]
        self.conn_mod = importlib.import_module("aiokafka.conn")
        self.admin = importlib.import_module("aiokafka.protocol.admin")
        self.group = importlib.import_module("aiokafka.protocol.group")
        self.coord = importlib.import_module("aiokafka.protocol.coordination")
        self.errors = importlib.import_module("aiokafka.errors")
        from extract import schemas as X
        self.X = X
        self.T = importlib.import_module("aiokafka.protocol.types")
        # kinds: (name, make request, response class, flexible, quirk)
        g, a, c = self.group, self.admin, self.coord
        self.kinds = {
            "h": (lambda: g.HeartbeatRequest("g", 1, "m"), g.HeartbeatResponse_v1, False, False, {12: (0, 1)}),
            "f": (lambda: a.ListPartitionReassignmentsRequest(5, [("t", [0], {})], {}),
                  a.ListPartitionReassignmentsResponse_v0, True, False, {46: (0, 0)}),
            "q": (lambda: c.FindCoordinatorRequest("g", 0), c.FindCoordinatorResponse_v0, False, True, {10: (0, 0)}),
            "c": (lambda: c.FindCoordinatorRequest("g", 0), c.FindCoordinatorResponse_v1, False, False, {10: (0, 1)}),
        }

    def resp_ty(self, k):
        return self.X.ty_of(self.kinds[k][1].SCHEMA, self.T)[0]


def gen_body(env, k, rng):
    """a valid response body for kind k with a recognisable payload"""
    cls = env.kinds[k][1]
    n = rng.randrange(0, 2**31 - 1)
    if k == "h":
        return cls(throttle_time_ms=n, error_code=rng.choice([0, 27])).encode()
    if k == "f":
        return cls(throttle_time_ms=n, error_code=0, error_message=None, topics=[], tags={}).encode()
    if k == "q":
        return cls(error_code=0, coordinator_id=n % 1000, host="h%d" % (n % 97), port=9092).encode()
    return cls(throttle_time_ms=n, error_code=0, error_message=None, coordinator_id=1, host="hh", port=1).encode()


IDLE_MS = 70


class _FrozenTime:
    """stands in for the `time` module inside aiokafka.conn: `monotonic()` never moves"""
    @staticmethod
    def monotonic():
        return 1000.0


def gen_script(env, rng, long=False):
    """returns list of ops (model text, python action tuple)"""
    ops = []
    sent = []          # (id, kind, corr or None)
    ctr0 = rng.choice([0, 0, 0, 2**31 - 3, 2**31 - 2, rng.randrange(0, 2**31)])
    ctr = ctr0
    nid = 0
    stream = bytearray()
    answered = 0
    n_ops = rng.randrange(3, 40 if long else 16)
    clean = rng.random() < 0.5        # half of the scripts: no injected faults, only chunking/timing
    for _ in range(n_ops):
        c = rng.random()
        if clean and c >= 0.92:
            c = rng.random() * 0.92
        if c < 0.35 and len(sent) - answered < 8:
            k = rng.choice("hhhfqc" if rng.random() < 0.8 else "t")
            if rng.random() < 0.12:
                # a request that expects no reply (acks=0 produce): consumes a correlation id, queues no waiter
                ctr = (ctr + 1) % 2**31
                ops.append(("N", ("sendnr",)))
                continue
            if k == "t":
                ops.append(("SFFF:i8", ("sasl",)))
                sent.append((nid, "t", None))
            else:
                ctr = (ctr + 1) % 2**31
                _, _, flex, quirk, _ = env.kinds[k]
                ops.append((f"ST{'T' if flex else 'F'}{'T' if quirk else 'F'}:{env.resp_ty(k)}", ("send", k)))
                sent.append((nid, k, ctr))
            nid += 1
        elif c < 0.75:
            # the peer answers the oldest unanswered request (or something wrong)
            if answered < len(sent):
                rid, k, corr = sent[answered]
                fault = 1.0 if clean else rng.random()
                if k == "t":
                    payload = rng.randbytes(rng.randrange(0, 6))
                    frame = payload
                else:
                    body = gen_body(env, k, rng)
                    usecorr = corr
                    if fault < 0.03:
                        usecorr = rng.choice([corr + 1, 0, corr - 1 if corr else 5, rng.randrange(0, 2**31)])
                    hdr = struct.pack(">i", usecorr if usecorr < 2**31 else usecorr - 2**32)
                    if env.kinds[k][2]:
                        hdr += b"\x00"
                    frame = hdr + body
                    if 0.03 <= fault < 0.06:
                        frame = frame[:rng.randrange(0, len(frame))]   # truncated body / header
                    elif 0.06 <= fault < 0.10:
                        frame = frame + rng.randbytes(2)               # trailing garbage inside the frame
                answered += 1
            elif clean or rng.random() < 0.7:
                continue
            else:
                # unsolicited reply
                frame = struct.pack(">i", rng.randrange(0, 100)) + b"\x00\x00\x00\x01\x00\x00"
            size = len(frame)
            if not clean and rng.random() < 0.008:
                size = -rng.randrange(1, 5)
            stream += struct.pack(">i", size) + frame
            # deliver some prefix of what is queued, in random chunks
            while stream and rng.random() < 0.8:
                n = rng.choice([1, 2, 3, 4, 5, 7, len(stream)]) if rng.random() < 0.6 else rng.randrange(1, len(stream) + 1)
                chunk = bytes(stream[:n]); del stream[:n]
                ops.append(("B" + chunk.hex(), ("feed", chunk)))
        elif c < 0.85:
            dt = rng.choice([100, 300, 500, 900, 1000, 1500])
            ops.append((f"A{dt}", ("advance", dt)))
        elif c < 0.92 and sent:
            i = rng.randrange(0, nid)
            ops.append((f"C{i}", ("cancel", i)))
        elif c < 0.94:
            ops.append(("E", ("eof", rng.random() < 0.5)))
        elif c < 0.96:
            ops.append(("X", ("close",)))
        else:
            # client.send's reaction to a request timeout: advance past the deadline, then close
            ops.append(("A1000", ("advance", 1000)))
            ops.append(("X", ("close",)))
    if stream and rng.random() < 0.7:
        chunk = bytes(stream)
        ops.append(("B" + chunk.hex(), ("feed", chunk)))
    return ctr0, ops


async def run_script(env, loop, ctr0, ops):
    """drive the real connection; returns the canonical state text"""
    E = env.errors
    # the idle checker runs (every IDLE_MS of virtual time) against a frozen real clock: it never sees the
    # connection idle, so on the code under test its ticks are no-ops, as the model has them
    env.conn_mod.time = _FrozenTime
    conn = env.conn_mod.AIOKafkaConnection("h", 9092, request_timeout_ms=TIMEOUT_MS, max_idle_ms=IDLE_MS)
    ctask = asyncio.ensure_future(conn.connect())
    await loop.settle()
    tr = loop.transports[-1]
    # answer the ApiVersions lookup of connect()
    (corr,) = struct.unpack(">i", bytes(tr.written[8:12]))
    body = env.admin.ApiVersionResponse_v1(error_code=0, api_versions=[(12, 0, 1), (46, 0, 0), (10, 0, 0)],
                                           throttle_time_ms=0).encode()
    # which ApiVersionRequest version was sent: take its response type
    (apiv,) = struct.unpack(">h", bytes(tr.written[6:8]))
    if apiv == 0:
        body = env.admin.ApiVersionResponse_v0(error_code=0, api_versions=[(12, 0, 1), (46, 0, 0), (10, 0, 0)]).encode()
    msg = struct.pack(">i", corr) + body
    tr.feed(struct.pack(">i", len(msg)) + msg)
    await loop.settle()
    await ctask
    conn._correlation_id = ctr0
    waiters = {}
    results = {}
    nid = 0

    async def waiter(i, aw):
        try:
            r = await aw
            if isinstance(r, (bytes, bytearray, memoryview)):
                results.setdefault(i, []).append("raw:" + hx(bytes(r)))
            else:
                results.setdefault(i, []).append("reply:" + hx(r.encode()))
        except asyncio.TimeoutError:
            results.setdefault(i, []).append("timeout")
        except asyncio.CancelledError:
            results.setdefault(i, []).append("cancelled")
        except E.CorrelationIdError:
            results.setdefault(i, []).append("corrErr")
        except E.KafkaConnectionError:
            results.setdefault(i, []).append("connErr")
        except Exception as ex:  # noqa
            results.setdefault(i, []).append(f"other:{type(ex).__name__}")

    for _, act in ops:
        if act[0] == "send":
            k = act[1]
            conn._versions = dict(env.kinds[k][4])
            try:
                aw = conn.send(env.kinds[k][0]())
                waiters[nid] = asyncio.ensure_future(waiter(nid, aw))
            except E.KafkaConnectionError:
                results.setdefault(nid, []).append("connErr")
            nid += 1
        elif act[0] == "sendnr":
            conn._versions = dict(env.kinds["h"][4])
            try:
                await conn.send(env.kinds["h"][0](), expect_response=False)
            except E.KafkaConnectionError:
                pass
            except Exception as ex:  # noqa: BLE001 - anything else from the code under test is an observation
                results.setdefault(9000 + len(results), []).append(f"other:noreply-{type(ex).__name__}")
        elif act[0] == "sasl":
            try:
                aw = conn._send_sasl_token(b"tok")
                waiters[nid] = asyncio.ensure_future(waiter(nid, aw))
            except E.KafkaConnectionError:
                results.setdefault(nid, []).append("connErr")
            nid += 1
        elif act[0] == "feed":
            tr.feed(act[1])
        elif act[0] == "advance":
            loop.advance(act[1] / 1000)
        elif act[0] == "cancel":
            t = waiters.get(act[1])
            if t is not None and not t.done():
                t.cancel()
        elif act[0] == "eof":
            tr.peer_eof() if act[1] else tr.peer_reset()
        elif act[0] == "close":
            conn.close()
        await loop.settle()
    pend = sorted(i for i, t in waiters.items() if not t.done())
    outs = sorted((i, o) for i, lst in results.items() for o in lst)
    is_open = conn._reader is not None
    ctr = conn._correlation_id
    txt = ("open" if is_open else "closed") + " " + (",".join(map(str, pend)) if pend else "-") + " " + \
        (",".join(f"{i}:{o}" for i, o in outs) if outs else "-") + f" corr={ctr}"
    # cleanup
    conn.close()
    for t in waiters.values():
        if not t.done():
            t.cancel()
    await loop.settle()
    return txt


def holds(txt_model_ops, impl_txt, ops):
    """the property on the implementation's observation (independent of the model's state machine):
    - every waiter resolved at most once;
    - a reply delivered to waiter i carries i's correlation id, replies in request order;
    - after a failure (closed) nobody is pending."""
    state, pend, outs, _ = impl_txt.split(" ")
    seen = {}
    if outs != "-":
        for item in outs.split(","):
            i, o = item.split(":", 1)
            if i in seen:
                return f"waiter {i} resolved twice"
            seen[i] = o
    if state == "closed" and pend != "-":
        return f"connection closed but waiters {pend} still pending"
    return None


def run(ctx):
    ctx.coverage["trusted_base"] = [
        "Lean 4.33.0 kernel; axioms propext, Classical.choice, Quot.sound only",
        "T-diff harness harness/checks/c12.py + harness/vtloop.py (virtual clock, in-memory transport), driver",
        "the idle checker (max_idle_ms) runs on the virtual loop against a frozen `time.monotonic` inside aiokafka.conn: it "
        "never finds the connection idle, its ticks are no-ops in the code as in the model; idle drops are not modelled",
        "asyncio StreamReader/async_timeout semantics are exercised for real, abstracted in the model as: bytes are "
        "consumed frame by frame in arrival order; a due timeout marks the waiter done",
        "response bodies decoded with the C11 wire model (Wire.decode)",
    ]
    import logging
    logging.disable(logging.CRITICAL)
    proved = ctx.prove(drivers=["akdriver"])
    env = Env(ctx.repo)
    rng = ctx.rng("scripts")
    loop = VTLoop()
    asyncio.set_event_loop(loop)
    loop.set_exception_handler(lambda l, c: None)
    lines, impl, meta = [], [], []
    try:
        # which variant is the code: does a FindCoordinator-v0 waiter accept correlation id 0?
        body = gen_body(env, "q", rng)
        frame = struct.pack(">i", 0) + body
        probe_ops = [(f"STFT:{env.resp_ty('q')}", ("send", "q")),
                     ("B" + (struct.pack(">i", len(frame)) + frame).hex(), ("feed", struct.pack(">i", len(frame)) + frame))]
        ptxt = loop.run_until_complete(run_script(env, loop, 5, probe_ops))
        has_quirk = ":reply:" in ptxt
        ctx.coverage["quirk_variant"] = has_quirk
        if has_quirk:
            ctx.violation("c12:quirk-0.8.2", "FindCoordinatorResponse_v0 waiter (sent id 6) accepted a reply carrying correlation id 0",
                          {"cases": [{"ctr0": 5, "ops": [[o, [a[0], a[1].hex() if isinstance(a[1], bytes) else a[1]]] for o, a in probe_ops]}],
                           "observed": ptxt})
        else:
            env.kinds["q"] = env.kinds["q"][:3] + (False,) + env.kinds["q"][4:]
        if ctx.replay_cases is not None:
            scripts = [(c["ctr0"], [(o, tuple(a) if not isinstance(a[1], str) or a[0] != "feed" else ("feed", bytes.fromhex(a[1])))
                                     for o, a in c["ops"]]) for c in ctx.replay_cases]
        else:
            scripts = []
            # exhaustive two-way splits of a three-reply stream (every split point, incl. inside size/header)
            for k3 in ("hhh", "hfq", "fch"):
                bodies = [gen_body(env, k, rng) for k in k3]
                stream = b""
                for j, (k, b) in enumerate(zip(k3, bodies)):
                    hdr = struct.pack(">i", j + 1) + (b"\x00" if env.kinds[k][2] else b"")
                    stream += struct.pack(">i", len(hdr + b)) + hdr + b
                for cut in range(0, len(stream) + 1):
                    ops = [(f"ST{'T' if env.kinds[k][2] else 'F'}{'T' if env.kinds[k][3] else 'F'}:{env.resp_ty(k)}", ("send", k)) for k in k3]
                    for part in (stream[:cut], stream[cut:]):
                        if part:
                            ops.append(("B" + part.hex(), ("feed", part)))
                    scripts.append((0, ops))
            ctx.coverage["exhaustive_two_way_splits"] = len(scripts)
            n = 60000 if ctx.thorough else 2500
            for i in range(n):
                scripts.append(gen_script(env, rng, long=(i % 5 == 0)))
        for ctr0, ops in scripts:
            line = f"c12 run {TIMEOUT_MS} {ctr0} " + (";".join(o for o, _ in ops) if ops else "-")
            try:
                txt = loop.run_until_complete(asyncio.wait_for(run_script(env, loop, ctr0, ops), None))
            except Exception as ex:  # noqa
                txt = f"harness-exception:{type(ex).__name__}:{ex}"
            lines.append(line); impl.append(txt)
            meta.append({"ctr0": ctr0, "ops": [(o, [a[0], a[1].hex() if isinstance(a[1], (bytes, bytearray)) else a[1]] if len(a) > 1 else [a[0], None]) for o, a in ops]})
            kinds_used = len(set(o[:5] for o, _ in ops if o.startswith("S")))
            ctx.count(line, nontrivial=(sum(1 for o, _ in ops if o.startswith("S")) >= 2 and any(o.startswith("B") for o, _ in ops)))
    finally:
        try:
            loop.run_until_complete(loop.shutdown_asyncgens())
        except Exception:  # noqa
            pass
        loop.close()
        asyncio.set_event_loop(None)
    res = ctx.driver("akdriver", lines)
    ctx.coverage["rule"] = ("scripts over {send h|f|q|c|sasl, send without reply (acks=0), feed chunk, advance (idle-checker ticks every 70 ms), cancel, eof/reset, close} with 1..8 "
                            "pipelined requests of flexible / non-flexible / quirk / SASL kinds, reply streams cut into random "
                            "chunks (1..7 bytes or more), wrong / unsolicited correlation ids, truncated frames, negative "
                            "sizes, counter preset near 2^31; plus every two-way split of three 3-reply streams. "
                            "non-trivial = ≥2 sends and ≥1 feed; distinct by script text")
    ctx.coverage["traces_validated_against_impl"] = len(lines)
    for i in (0, len(lines) // 2, len(lines) - 1):
        ctx.sample({"op": lines[i][:260], "impl": impl[i][:200], "model": res[i][:200]})
    mism = [i for i in range(len(lines)) if res[i] != impl[i]]
    hist = {}
    for t in impl:
        for item in (t.split(" ")[2].split(",") if t.count(" ") >= 2 and t.split(" ")[2] != "-" else []):
            if ":" not in item or t.startswith("harness-exception"):
                continue
            o = item.split(":")[1]
            hist[o] = hist.get(o, 0) + 1
    ctx.coverage["outcome_distribution"] = hist
    if not mism and proved:
        return
    for i in mism:
        if impl[i].startswith("harness-exception"):
            # driving the real connection through the script raised: on the unchanged code no script does
            # (every exception the connection can hand to a caller is caught and recorded as an outcome)
            ctx.violation("c12:script-raised:" + impl[i].split(":")[1][:30],
                          f"the connection raised out of an operation no caller could catch as a waiter outcome: {impl[i][:200]} on {lines[i][:200]}",
                          {"cases": [meta[i]], "observed": impl[i], "model": res[i]})
            return
        why = holds(lines[i], impl[i], meta[i]["ops"])
        if why:
            ctx.violation("c12:" + why.split(" ")[0] + ":" + why.split(" ")[-1][:20], f"{why}: {lines[i][:200]} -> {impl[i][:200]}",
                          {"cases": [meta[i]], "observed": impl[i], "model": res[i]})
            return
    if mism:
        i = mism[0]
        # the model's outcome IS the property's required outcome (each waiter gets its own reply /
        # connection error); a differing waiter outcome is a violation with this script as replay
        ctx.broken.append({"kind": "correspondence", "tie": "T-diff c12 (AIOKafkaConnection vs AkVerif.Conn)",
                           "mismatches": len(mism), "first": {"op": lines[i][:400], "impl": impl[i][:300], "model": res[i][:300]}})
        mo, io_ = res[i].split(" "), impl[i].split(" ")
        if len(mo) >= 3 and len(io_) >= 3 and (mo[2] != io_[2] or mo[1] != io_[1] or mo[0] != io_[0]):
            ctx.violation("c12:waiter-outcome-differs", f"waiter outcomes differ from the required ones: {lines[i][:160]} impl={impl[i][:160]} required={res[i][:160]}",
                          {"cases": [meta[i]], "observed": impl[i], "required": res[i]})
