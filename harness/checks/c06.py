"""C06 - group membership converges and is not disturbed by the member itself.

Proof: Props/C06.lean (member automaton `AkVerif.Membership`: every accepted history advertises all
strategies in order, a successful JoinGroup is followed by its SyncGroup, no rejoin without a
cause; closed-system convergence of the member automata with the coordinator model).
Tie: T-trace - real AIOKafkaConsumer members run against the simulated coordinator under seeded
faults; each member's own history (probe around `client.send`) is validated by the Lean acceptor,
the statements are evaluated by the Lean `holds` functions on the same history and on the wire
(`cluster.trace`), and convergence is checked on the group after a quiet suffix.
"""
import asyncio
import logging

from vlib import HarnessError
from checks.member_common import OWNER, Env, member_tokens, corpus_cases

BOOT = "b0:9092,b1:9092,b2:9092"
SESSION = 6000
REBALANCE = 8000
HEARTBEAT = 500
REQUEST = 12000          # > rebalance timeout: a parked JoinGroup must not time out client-side
QUIET_BOUND = 45.0       # virtual seconds allowed for convergence once the environment is quiet
WATCH = 12.0             # virtual seconds the stable group is watched for further rebalances
RETRIABLE = {
    "JoinGroup": [14, 15, 16, 25],
    "SyncGroup": [15, 16, 22, 25, 27],
    "Heartbeat": [15, 16, 22, 25, 27],
    "OffsetCommit": [14, 15, 16, 7, 22, 25, 27],
    "OffsetFetch": [14, 16],
    "FindCoordinator": [15],
}
FATAL = {"JoinGroup": [23, 30], "SyncGroup": [30], "Heartbeat": [30]}
MIN_HB = int(WATCH * 1000 / HEARTBEAT) // 2     # successful heartbeats a settled member must show in the watch window
SPIN_LIMIT = 20000       # loop iterations at one virtual instant: nothing legitimate comes near


class ClientLivelock(Exception):
    """tasks of the code under test keep the loop busy without virtual time passing"""


def watch_spin(loop, repo):
    """make a busy loop of client tasks an observation (the simulator's own guard would turn it into
    a SimBug after 2 000 000 iterations)"""
    orig = loop._run_once
    st = {"vt": None, "n": 0, "seen": {}}

    def run_once():
        if loop._vt == st["vt"]:
            st["n"] += 1
        else:
            st["vt"], st["n"], st["seen"] = loop._vt, 0, {}
        if st["n"] > SPIN_LIMIT - 200:
            for h in list(loop._ready):
                t = getattr(h._callback, "__self__", None)
                if isinstance(t, asyncio.Task):
                    co = t.get_coro()
                    code = getattr(co, "cr_code", None)
                    key = (getattr(co, "__qualname__", "?"), bool(code and str(repo) in code.co_filename))
                    st["seen"][key] = st["seen"].get(key, 0) + 1
        if st["n"] >= SPIN_LIMIT:
            seen, st["n"], st["seen"] = st["seen"], 0, {}
            client = sorted(k[0] for k in seen if k[1])
            if not client:
                raise HarnessError(f"livelock of the harness / simulator at vt {loop._vt}: {sorted(seen)}")
            raise ClientLivelock(f"vt={loop._vt:.3f}s spinning: {client}")
        orig()
    loop._run_once = run_once


def family_scenarios(thorough=False):
    """deterministic families aimed at mechanisms the random stream hits too rarely"""
    out = []

    def base(idx, **kw):
        sc = {"idx": idx, "seed": 1000 + idx, "cfg": ["roundrobin", "range"], "permute": False, "members": 1,
              "join_v": 5, "parts": 3, "auto_commit": True, "jitter": 0.0, "steps": [], "faults": [],
              "fatal": False, "mode": "family", "horizon": 4.0}
        sc.update(kw)
        return sc
    i = 8000
    # (1) the heartbeat task ends by itself (UNKNOWN_MEMBER_ID / ILLEGAL_GENERATION, coordinator moved without
    #     state) and must be running again after the rejoin
    for code in (25, 22):
        for n in (1, 2):
            for ac in (True, False):
                out.append(base(i, members=n, auto_commit=ac, join_v=5 if ac else 2, mode="family-hb-reset",
                                faults=[{"kind": "error", "api": "Heartbeat", "nth": 2, "client": "m0", "code": code}]))
                i += 1
    for ac in (True, False):
        out.append(base(i, members=2, auto_commit=ac, mode="family-hb-reset", steps=[(1.5, "move_lose", None)]))
        i += 1
    # (2) a coordinator error on the SyncGroup of a member that already has an assignment (leader / follower)
    for code in (15, 16):
        for ac in (True, False):
            out.append(base(i, members=1, auto_commit=ac, mode="family-sync-error", steps=[(1.0, "start", 1)],
                            faults=[{"kind": "error", "api": "SyncGroup", "nth": 1, "client": "m0", "code": code}]))
            i += 1
            out.append(base(i, members=1, auto_commit=ac, mode="family-sync-error", horizon=5.0,
                            steps=[(1.0, "start", 1), (2.2, "start", 2)],
                            faults=[{"kind": "error", "api": "SyncGroup", "nth": 1, "client": "m1", "code": code}]))
            i += 1
    # (3) the partition count of a subscribed topic grows while the leader's SyncGroup is in flight
    ats = (0.02, 0.1, 0.3, 0.5) if not thorough else tuple(round(0.01 + 0.05 * j, 3) for j in range(14))
    for at in ats:
        for n0 in ((1,) if not thorough else (1, 2)):
            out.append(base(i, members=n0, mode="family-md-race", horizon=5.0, steps=[(1.0, "start", n0)],
                            mdrace={"client": "m0", "nth": 1, "delay": 0.8, "at": at}))
            i += 1
    # (4) members with different subscriptions; a topic the leader (first joiner) does not read itself grows:
    #     only the leader watches the metadata on behalf of the group, over the union of all subscriptions
    for cfg in (["range"], ["roundrobin", "range"], ["sticky"]):
        for ac in (True, False):
            out.append(base(i, members=1, cfg=cfg, auto_commit=ac, mode="family-group-subscription", horizon=4.0,
                            subs={"0": ["t"], "1": ["t", "u"]},
                            steps=[(0.6, "start", 1), (2.0, "add_partitions", "u")]))
            i += 1
    out.append(base(i, members=1, mode="family-group-subscription", horizon=5.0,
                    subs={"0": ["t"], "1": ["u"], "2": ["u", "v"]},
                    steps=[(0.6, "start", 1), (1.2, "start", 2), (2.5, "add_partitions", "v"), (3.0, "add_partitions", "u")]))
    i += 1
    return out


def gen_scenario(rng, idx, thorough=False):
    """one seeded scenario: configuration + timeline of environment / user steps"""
    names = ["range", "roundrobin", "sticky"]
    k = rng.choice([1, 2, 2, 3])
    cfg = rng.sample(names, k)
    n0 = rng.choice([1, 2, 2, 3, 4])
    sc = {
        "idx": idx,
        "seed": rng.randrange(1 << 30),
        "cfg": cfg,
        "permute": rng.random() < 0.25 and k > 1,
        "members": n0,
        "join_v": rng.choice([0, 1, 2, 3, 4, 5, 5, 5]),
        "parts": rng.choice([3, 4, 6]),
        "auto_commit": rng.random() < 0.7,
        "jitter": rng.choice([0.0, 0.0, 0.002, 0.01]),
        "steps": [],
        "faults": [],
        "fatal": False,
    }
    horizon = rng.choice([4.0, 8.0, 14.0])
    t = 0.0
    next_id = n0
    alive = list(range(n0))
    mode = rng.choice(["clean", "faults", "faults", "churn", "churn", "failover", "mixed", "hbreset", "syncerr", "subs"])
    sc["mode"] = mode
    if mode == "hbreset":
        # the heartbeat task ends by itself: reply UNKNOWN_MEMBER_ID / ILLEGAL_GENERATION, or the group state is lost
        for _ in range(rng.randrange(1, 3)):
            if rng.random() < 0.75:
                sc["faults"].append({"kind": "error", "api": "Heartbeat", "nth": rng.randrange(0, 8),
                                     "client": f"m{rng.randrange(n0)}", "code": rng.choice([22, 25])})
            else:
                sc["steps"].append((rng.choice([0.8, 1.5, 2.5]), "move_lose", None))
        sc["steps"].sort()
    if mode == "subs":
        # per-member subscriptions over 2-3 topics, one member after the other (join order = who leads), then
        # a random topic that somebody reads grows
        pool = rng.choice([["t", "u"], ["t", "u", "v"]])
        nm = rng.choice([2, 2, 3, 4])
        n0 = sc["members"] = 1
        sc["subs"] = {str(j): sorted(rng.sample(pool, rng.randrange(1, len(pool) + 1))) for j in range(nm)}
        tt = 0.0
        for j in range(1, nm):
            tt += rng.choice([0.4, 0.7, 1.1])
            sc["steps"].append((round(tt, 2), "start", j))
        read = sorted({x for v in sc["subs"].values() for x in v})
        for _ in range(rng.randrange(1, 3)):
            tt += rng.choice([0.5, 1.0, 1.6])
            sc["steps"].append((round(tt, 2), "add_partitions", rng.choice(read)))
    if mode == "syncerr":
        # a rebalance of members that already hold an assignment, its SyncGroup answered with a coordinator error
        sc["steps"].append((rng.choice([0.8, 1.2, 2.0]), "start", n0))
        next_id = n0 + 1
        for _ in range(rng.randrange(1, 3)):
            sc["faults"].append({"kind": "error", "api": "SyncGroup", "nth": rng.randrange(1, 3),
                                 "client": f"m{rng.randrange(n0)}", "code": rng.choice([15, 16, 15, 16, 22, 27])})
    if mode in ("faults", "mixed"):
        apis = ["JoinGroup", "SyncGroup", "Heartbeat", "OffsetCommit", "FindCoordinator", "OffsetFetch"]
        for _ in range(rng.randrange(1, 7)):
            api = rng.choice(apis)
            kind = rng.choice(["error", "error", "error", "drop_before", "drop_after", "lose_reply"])
            f = {"kind": kind, "api": api, "nth": rng.randrange(0, 12 if api == "Heartbeat" else 4),
                 "client": rng.choice([None, None] + [f"m{i}" for i in range(n0)])}
            if kind == "error":
                if rng.random() < 0.08 and api in FATAL:
                    f["code"] = rng.choice(FATAL[api])
                    sc["fatal"] = True
                else:
                    f["code"] = rng.choice(RETRIABLE[api])
            sc["faults"].append(f)
    if mode in ("churn", "mixed", "failover"):
        for _ in range(rng.randrange(1, 5)):
            t += rng.choice([0.3, 0.8, 1.5, 2.5])
            if t >= horizon:
                break
            c = rng.random()
            if mode == "failover" or c < 0.25:
                sc["steps"].append((t, rng.choice(["move_keep", "move_lose", "kill_coord"]), None))
            elif c < 0.45 and len(alive) < 4:
                sc["steps"].append((t, "start", next_id)); alive.append(next_id); next_id += 1
            elif c < 0.6 and len(alive) > 1:
                m = rng.choice(alive); alive.remove(m); sc["steps"].append((t, "stop", m))
            elif c < 0.75 and len(alive) > 1:
                m = rng.choice(alive); alive.remove(m); sc["steps"].append((t, "crash", m))
            elif c < 0.9 and alive:
                sc["steps"].append((t, "subscribe", rng.choice(alive)))
            else:
                sc["steps"].append((t, "add_partitions", None))
    sc["horizon"] = max(horizon, t + 0.5, max([x[0] for x in sc["steps"]], default=0) + 1.0)
    return sc


class Member:
    def __init__(self, env, cluster, sc, i):
        self.i = i
        self.cid = f"m{i}"
        # per-member subscription (scenario key "subs": member index -> topics); default: everybody reads t
        self.topics = list((sc.get("subs") or {}).get(str(i), ["t"]))
        cfg = list(sc["cfg"])
        if sc["permute"] and i % 2 == 1:
            cfg = cfg[1:] + cfg[:1]
        self.cfg = cfg
        self.errors = []
        self.state = "new"
        self.consumer = None
        self.task = None
        self.env = env
        self.sc = sc

    async def run(self):
        OWNER.set(self.cid)
        env = self.env
        K = env.aiokafka
        self.consumer = K.AIOKafkaConsumer(
            *self.topics, bootstrap_servers=BOOT, client_id=self.cid, group_id="g",
            enable_auto_commit=self.sc["auto_commit"], auto_commit_interval_ms=900,
            auto_offset_reset="earliest",
            partition_assignment_strategy=tuple(env.assignors[n] for n in self.cfg),
            session_timeout_ms=SESSION, heartbeat_interval_ms=HEARTBEAT,
            rebalance_timeout_ms=REBALANCE, request_timeout_ms=REQUEST,
            retry_backoff_ms=100, metadata_max_age_ms=2000,
        )
        c = self.consumer
        self.state = "starting"
        try:
            await c.start()
        except env.errors.KafkaError as e:
            self.errors.append("start:" + type(e).__name__)
            self.state = "start-failed"
            env.mark(self.cid, "Z")
            try:
                await c.stop()
                env.mark(self.cid, "z")
            except Exception:  # noqa: BLE001
                pass
            return
        self.state = "running"
        while self.state == "running":
            try:
                await c.getmany(timeout_ms=200)
            except env.errors.ConsumerStoppedError:
                break
            except env.errors.KafkaError as e:
                self.errors.append(type(e).__name__)
                await asyncio.sleep(0.05)

    def assignment(self):
        try:
            return sorted((tp.topic, tp.partition) for tp in self.consumer.assignment())
        except Exception:  # noqa: BLE001
            return []


async def scenario_main(env, cluster, sc, out):
    loop = asyncio.get_running_loop()
    watch_spin(loop, env.aiokafka.__file__.rsplit("/aiokafka/", 1)[0])
    members = out["_members"] = {}
    log = out["log"]

    def start(i):
        m = members[i] = Member(env, cluster, sc, i)
        out.setdefault("cfgs", {})[m.cid] = m.cfg
        ctx = __import__("contextvars").copy_context()
        m.task = ctx.run(lambda: loop.create_task(m.run()))

    def crash(i):
        m = members[i]
        m.state = "crashed"
        for t in asyncio.all_tasks(loop):
            try:
                if t.get_context().get(OWNER) == m.cid and not t.done():
                    t.cancel()
            except Exception:  # noqa: BLE001
                pass
        cluster.abort_client(m.cid)

    async def stop(i):
        m = members[i]
        if m.state != "running":
            return crash(i)
        m.state = "stopping"
        env.mark(m.cid, "Z")
        ctx = __import__("contextvars").copy_context()

        async def do():
            OWNER.set(m.cid)
            await m.consumer.stop()
        await loop.create_task(do())
        env.mark(m.cid, "z")
        m.state = "stopped"

    for i in range(sc["members"]):
        start(i)
    t0 = cluster.now()
    for (t, what, arg) in sc["steps"]:
        dt = t0 + t - cluster.now()
        if dt > 0:
            await asyncio.sleep(dt)
        if what == "start":
            start(arg)
        elif what == "stop":
            await stop(arg)
        elif what == "crash":
            crash(arg)
        elif what == "subscribe":
            m = members[arg]
            if m.state == "running":
                m.topics = [x for x in m.topics if x != "u"] if "u" in m.topics and len(m.topics) > 1 else m.topics + ["u"]
                env.mark(m.cid, "U")
                m.consumer.subscribe(m.topics)
        elif what == "add_partitions":
            topic = arg or "t"              # arg: the topic that grows (default t)
            cluster.add_partitions(topic, cluster.topics[topic] + 1)
            if topic == "t":
                sc["parts"] = cluster.topics["t"]
            for m in members.values():
                if m.state in ("running", "starting"):
                    env.mark(m.cid, "M")
        elif what == "move_keep":
            cluster.move_coordinator("group", "g", (cluster.coordinator_for("group", "g") + 1) % 3, keep_state=True)
        elif what == "move_lose":
            cluster.move_coordinator("group", "g", (cluster.coordinator_for("group", "g") + 1) % 3, keep_state=False)
        elif what == "kill_coord":
            n = cluster.coordinator_for("group", "g")
            cluster.move_coordinator("group", "g", (n + 1) % 3, keep_state=True)
            cluster.kill_node(n, migrate_leaders=True)
    dt = t0 + sc["horizon"] - cluster.now()
    if dt > 0:
        await asyncio.sleep(dt)
    # ---- quiet from here: no scheduled fault is left, every node is reachable
    cluster.faults.clear()
    for n in range(len(cluster.nodes)):
        cluster.revive_node(n)
    for node in cluster.nodes:
        for conn in list(node.conns):
            if conn.blackholed:      # a lost reply stops being "lost": the connection is reset
                conn.server_close("abort", 0.001)
    tq = cluster.now()
    out["quiet_at_ms"] = int(tq * 1000)
    live = [m for m in members.values() if m.state in ("new", "running", "starting")]

    def snapshot():
        g = cluster.group("g")
        by_client = {}
        for mid, info in g["members"].items():
            by_client.setdefault(info["client"], []).append((mid, info["assigned"]))
        return g, by_client

    def converged():
        g, by_client = snapshot()
        if g["state"] != "Stable":
            return False
        if sorted(by_client) != sorted(m.cid for m in live):
            return False
        if any(len(v) != 1 for v in by_client.values()):
            return False
        for m in live:
            if m.state != "running":
                return False
            mid, assigned = by_client[m.cid][0]
            co = m.consumer._coordinator
            if co.generation != g["generation"] or co.member_id != mid:
                return False
            if sorted(tuple(x) for x in (assigned or [])) != m.assignment():
                return False
        return True

    conv_at = None
    # sessions that lost their heartbeats before the quiet point expire within one session timeout
    await asyncio.sleep(SESSION / 1000 + 1.0)
    while cluster.now() - tq < QUIET_BOUND:
        if converged():
            conv_at = cluster.now()
            break
        await asyncio.sleep(0.25)
    out["converged_after"] = None if conv_at is None else round(conv_at - tq, 2)
    g, by_client = snapshot()
    out["final_generation"] = g["generation"]
    out["group_state"] = g["state"]
    out["live"] = [m.cid for m in live]
    out["member_states"] = {m.cid: m.state for m in members.values()}
    if conv_at is not None:
        gen0 = g["generation"]
        n_trace = len(cluster.trace)
        await asyncio.sleep(WATCH)
        g2, by2 = snapshot()
        out["generation_after_watch"] = g2["generation"]
        out["gen0"] = gen0
        later = cluster.trace[n_trace:]
        out["joins_in_watch"] = sum(1 for e in later if e["ev"] == "request" and e["api"] == "JoinGroup")
        hb = {}
        for e in later:
            if e["ev"] == "reply" and e["api"] == "Heartbeat" and "fields" in e and e["fields"]["error_code"] == 0:
                hb[e["client"]] = hb.get(e["client"], 0) + 1
        out["heartbeats_in_watch"] = {m.cid: hb.get(m.cid, 0) for m in live}
        # coverage of every partition of every subscribed topic by the live members
        want = set()
        for m in live:
            for tname in m.topics:
                for p in range(cluster.topics.get(tname, 0)):
                    want.add((tname, p))
        have = []
        for m in live:
            have += m.assignment()
        out["cover_missing"] = sorted(want - set(have))
        out["cover_dup"] = sorted({x for x in have if have.count(x) > 1})
        out["still_converged"] = converged()
    out["errors"] = {m.cid: m.errors[:5] for m in members.values() if m.errors}
    # the observation the Lean statement `observedConverged` is evaluated on
    g3, by3 = snapshot()
    gens = []
    for m in live:
        ok = (g3["state"] == "Stable" and m.state == "running" and len(by3.get(m.cid, [])) == 1
              and m.consumer._coordinator.member_id == by3[m.cid][0][0]
              and sorted(tuple(x) for x in (by3[m.cid][0][1] or [])) == m.assignment())
        gens.append(m.consumer._coordinator.generation if ok and m.consumer._coordinator.generation > 0 else 0)
    out["obs"] = {
        "latest": g3["generation"], "gens": gens,
        "missing": len(out.get("cover_missing") or []), "dup": len(out.get("cover_dup") or []),
        "joins": out.get("joins_in_watch") or 0,
        "gen_after": out.get("generation_after_watch", g3["generation"]) if conv_at is not None else g3["generation"],
        "hbs": [out["heartbeats_in_watch"][m.cid] for m in live] if conv_at is not None else [1] * len(live),
        "extra_members": sorted(set(by3) - {m.cid for m in live}),
    }
    # ---- teardown
    for m in list(members.values()):
        if m.state == "running":
            try:
                await asyncio.wait_for(stop(m.i), 60)
            except Exception:  # noqa: BLE001
                crash(m.i)
        elif m.state not in ("stopped", "crashed", "start-failed"):
            crash(m.i)
    for m in members.values():
        if m.task is not None and not m.task.done():
            m.task.cancel()
    await asyncio.sleep(0)
    out["cfgs"] = {m.cid: m.cfg for m in members.values()}


def run_scenario(env, sc):
    S = env.sim
    versions = {"JoinGroup": (0, sc["join_v"])}
    if sc["join_v"] < 3:
        versions["SyncGroup"] = (0, min(1, sc["join_v"]))
    cluster = S.SimCluster(nodes=3, topics={"t": sc["parts"], "u": 2, "v": 2}, seed=sc["seed"],
                           api_versions=versions, jitter=sc["jitter"])
    for f in sc["faults"]:
        kw = {k: v for k, v in f.items() if k not in ("kind",) and v is not None}
        cluster.faults.add(S.Fault(f["kind"], **kw))
    out = {"log": None}
    out["log"] = env.install_probe(lambda: int(cluster.now() * 1000 + 0.5))
    race = sc.get("mdrace")
    if race:
        # the SyncGroup of `client` is answered `delay` s late; `at` s into that window the topic gets one more
        # partition and the member refreshes its metadata (as its periodic refresh would at that moment)
        def fire(cl, rq):
            rq.delay = race["delay"]

            def grow():
                sc["parts"] += 1
                cl.add_partitions("t", sc["parts"])
                for m in out.get("_members", {}).values():
                    if m.state in ("running", "starting"):
                        env.mark(m.cid, "M")
                m = next((m for m in out.get("_members", {}).values() if m.cid == race["client"]), None)
                if m is not None and m.consumer is not None:
                    m.consumer._client.force_metadata_update()
            cl._timer(race["at"], grow)
        cluster.faults.add(S.Fault("call", api="SyncGroup", client=race["client"], nth=race["nth"], fn=fire))
    try:
        S.run(scenario_main(env, cluster, sc, out), cluster, max_vt=sc["horizon"] + QUIET_BOUND + WATCH + 200, grace=30)
        out["res"] = "ok"
    except S.SimTimeout as e:
        out["res"] = "timeout:" + ";".join((e.where or ["?"])[-2:])
    except ClientLivelock as e:
        out["res"] = "livelock"
        out["livelock"] = str(e)
    out.pop("_members", None)
    wire = []
    for e in cluster.trace:
        if e["ev"] == "request" and e["api"] == "JoinGroup":
            wire.append((e["client"], [p["protocol_name"] for p in e["fields"]["group_protocols"]]))
    out["wire_joins"] = wire
    out["trace_len"] = len(cluster.trace)
    return out, cluster


def conv_line(out):
    o = out["obs"]
    lst = lambda xs: ",".join(map(str, xs)) if xs else "-"
    return (f"c06 conv {o['latest']} {lst(o['gens'])} {o['missing'] + len(o['extra_members'])} {o['dup']} {o['joins']} "
            f"{o['gen_after']} {lst(o['hbs'])} {MIN_HB}")


def judge(sc, out, verdict):
    """convergence clauses on the observation of one scenario -> list of (signature, text);
    `verdict` is the Lean statement `observedConverged` evaluated on out['obs']"""
    bad = []
    if out["res"] == "livelock":
        bad.append(("c06:livelock", f"tasks of the client keep the event loop busy without time passing (a wait on "
                                    f"something that is already done): {out.get('livelock')}"))
        return bad
    if out["res"] != "ok":
        bad.append(("c06:scenario-hang", f"scenario did not finish: {out['res']}"))
        return bad
    if sc["fatal"]:
        return bad          # a fatal (authorization / protocol) error was injected: no convergence claim
    failed = sorted(m for m, v in out.get("member_states", {}).items() if v == "start-failed")
    if failed:
        bad.append(("c06:start-failed", f"start() of {failed} raised {out.get('errors')} although only retriable "
                                        f"faults were injected"))
        return bad
    if not out.get("live") or verdict == "true":
        return bad
    if out.get("converged_after") is None:
        bad.append(("c06:no-convergence",
                    f"{QUIET_BOUND:.0f} virtual s after the environment went quiet the live members {out['live']} "
                    f"are not all in the group's latest generation (group {out.get('group_state')} gen "
                    f"{out.get('final_generation')}, observation {out['obs']}, member errors {out.get('errors')})"))
        return bad
    if out.get("joins_in_watch") or out.get("generation_after_watch") != out.get("gen0") or not out.get("still_converged"):
        bad.append(("c06:rebalance-after-stable",
                    f"stable group was disturbed without any environment step: {out.get('joins_in_watch')} JoinGroup "
                    f"requests, generation {out.get('gen0')} -> {out.get('generation_after_watch')}"))
    if out.get("cover_missing") or out.get("cover_dup") or out["obs"]["extra_members"]:
        bad.append(("c06:coverage", f"assignments of the stable group: missing {out.get('cover_missing')}, "
                                    f"owned twice {out.get('cover_dup')}, members that are not alive {out['obs']['extra_members']}"))
    silent = {m: n for m, n in (out.get("heartbeats_in_watch") or {}).items() if n < MIN_HB}
    if silent:
        bad.append(("c06:not-heartbeating", f"successful heartbeats during the {WATCH:.0f} s watch window {silent}: fewer than "
                                            f"{MIN_HB} (heartbeat interval {HEARTBEAT} ms)"))
    if not bad:
        bad.append(("c06:not-converged", f"observedConverged is false on {out['obs']}"))
    return bad


def run(ctx):
    import collections
    logging.disable(logging.CRITICAL)
    ctx.coverage["trusted_base"] = [
        "Lean 4.33.0 kernel; axioms propext, Classical.choice, Quot.sound only",
        "harness/sim (simulated group coordinator, Appendix F semantics; not re-derived in Lean), virtual-time loop",
        "the probe around AIOKafkaClient.send (member's own program order) and member_tokens() (field extraction "
        "via Request.build of the highest version)",
        "convergence of the real members is observed for bounded virtual time after a quiet point (exploration); "
        "the Lean convergence theorem is about the closed abstract system (c06_converges_partial)",
        "assumed: JoinGroup parks no longer than the rebalance timeout < request timeout (configuration of the runs)",
    ]
    ctx.assumptions += [
        "c06_converges_partial: members abstracted to their rejoin phase, coordinator = join/sync barrier; the "
        "implementation side of convergence is a bounded virtual-time observation",
        "subscription change by pattern / unsubscribe() and static membership are not generated",
    ]
    proved = ctx.prove(drivers=["akdriver"])
    env = Env(ctx.repo)
    rng = ctx.rng("scenarios")
    if ctx.replay_cases is not None:
        scenarios = [c["scenario"] for c in ctx.replay_cases if "scenario" in c]
        for sc in scenarios:
            sc["steps"] = [tuple(x) for x in sc["steps"]]
    else:
        n = 1500 if ctx.thorough else 150
        scenarios = (corpus_cases("C06", "scenario") + family_scenarios(ctx.thorough)
                     + [gen_scenario(rng, i, ctx.thorough) for i in range(n)])
        for sc in scenarios:
            sc["steps"] = [tuple(x) for x in sc["steps"]]
    hist = collections.Counter()
    modes = collections.Counter()
    outcomes = collections.Counter()
    conv_times = []
    conv_verdicts = collections.Counter()
    judged = []
    n_hist = n_events = 0
    pending = []          # (scenario, cid, cfg, line)
    for sc in scenarios:
        sc0 = dict(sc, steps=list(sc["steps"]), faults=[dict(f) for f in sc["faults"]])
        out, cluster = run_scenario(env, sc)
        modes[sc["mode"]] += 1
        for f in sc["faults"]:
            hist[f"fault:{f['kind']}:{f['api']}" + (f":{f['code']}" if "code" in f else "")] += 1
        for (_, what, _a) in sc["steps"]:
            hist["step:" + what] += 1
        # wire truth: every JoinGroup request the coordinator received
        cfgs = out.get("cfgs", {})
        for cid, protos in out["wire_joins"]:
            want = cfgs.get(cid)
            if want is not None and protos != want:
                ctx.violation("c06:join-protocols-wire",
                              f"JoinGroup of {cid} on the wire advertises {protos}, configured {want}",
                              {"cases": [{"scenario": sc0}], "member": cid, "observed": protos, "required": want})
        for cid, log in out["log"].items():
            toks = member_tokens(log)
            cfg = cfgs.get(cid) or sc["cfg"]
            pending.append((sc0, cid, cfg, "c06 run " + ",".join(cfg) + " " + (";".join(toks) if toks else "-")))
            for t in toks:
                if t.startswith("R"):
                    parts = t.split(":")
                    outcomes[parts[1] + (":" + parts[2] if parts[1] == "k" else "")] += 1
        judged.append((sc, sc0, {k: v for k, v in out.items() if k not in ("log", "wire_joins")}))
        if out.get("converged_after") is not None:
            conv_times.append(out["converged_after"])
        nontrivial = sc["members"] >= 2 or bool(sc["faults"]) or bool(sc["steps"])
        ctx.count(("sc", sc["seed"], tuple(sc["cfg"]), sc["members"], sc["join_v"], str(sc["steps"]), str(sc["faults"])),
                  nontrivial=nontrivial)
    clines = [conv_line(o) if "obs" in o else f"c06 conv 1 0 0 0 0 1 - {MIN_HB}" for _, _, o in judged]
    cres = ctx.driver("akdriver", clines) if clines else []
    for (sc, sc0, o), line, verdict in zip(judged, clines, cres):
        if verdict not in ("true", "false"):
            raise HarnessError(f"driver: {line} -> {verdict}")
        conv_verdicts[verdict] += 1
        for sig, text in judge(sc, o, verdict):
            ctx.violation(sig, f"scenario {sc['idx']} ({sc['mode']}, {sc['members']} members, assignors {sc['cfg']}, "
                               f"JoinGroup<=v{sc['join_v']}): {text}",
                          {"cases": [{"scenario": sc0}], "observation": o})
    res = ctx.driver("akdriver", [p[3] for p in pending]) if pending else []
    acc = collections.Counter()
    for (sc0, cid, cfg, line), r in zip(pending, res):
        n_hist += 1
        toks = line.split(" ")[3].split(";")
        n_events += len(toks)
        if r == "bad-op":
            raise HarnessError(f"driver could not parse the history of {cid} in scenario {sc0['idx']}: {line[:300]}")
        a_ok, b_ok = "A=true" in r, "B=true" in r
        acc[r.split(" ")[0].split("@")[0]] += 1
        if not a_ok:
            ctx.violation("c06:join-protocols", f"scenario {sc0['idx']}: a JoinGroup of {cid} does not advertise the configured "
                                               f"strategies {cfg} in order", {"cases": [{"scenario": sc0}], "member": cid,
                                                                              "history": toks})
        if not b_ok:
            ctx.violation("c06:join-not-followed-by-sync",
                          f"scenario {sc0['idx']}: a successful JoinGroup reply of {cid} was followed by another JoinGroup "
                          f"(or a SyncGroup with another identity) although no fault or subscription change intervened",
                          {"cases": [{"scenario": sc0}], "member": cid, "history": toks})
        if r.startswith("reject@"):
            at = int(r.split("@")[1].split(" ")[0])
            ctx.broken.append({"kind": "correspondence", "tie": "T-trace c06 (member history vs AkVerif.Membership acceptor)",
                               "scenario": sc0["idx"], "member": cid, "rejected_event_index": at,
                               "context": toks[max(0, at - 8):at + 2]})
            ctx.log(f"sc{sc0['idx']} {cid}: {r}  ... " + " ".join(toks[max(0, at - 10):at]) + " >>> " + toks[at] + " <<<")
            if a_ok and b_ok:
                # the member did something the model of the code cannot do: the mechanisms the
                # model mirrors (identity on every request, rejoin only with a cause, requests only to
                # a known coordinator) were left - report it with this history as the replay
                ctx.violation("c06:member-left-the-model:" + toks[at].split(":")[1] if ":" in toks[at] else "c06:member-left-the-model",
                              f"scenario {sc0['idx']}: history of {cid} is not a behaviour of the member automaton at event "
                              f"{at} ({toks[at]}): a request with an identity / cause / coordinator the code under "
                              f"test cannot have there", {"cases": [{"scenario": sc0}], "member": cid,
                                                          "history": toks, "rejected_at": at})
    ctx.coverage["rule"] = ("one case = one seeded scenario: 1-4 members (started, stopped, crashed, re-subscribed at "
                            "seeded times), 1-3 assignors in seeded order (sometimes permuted per member), JoinGroup capped at "
                            "v0..v5, faults (error codes, drop before/after, lost reply) at seeded ordinals of JoinGroup/"
                            "SyncGroup/Heartbeat/OffsetCommit/OffsetFetch/FindCoordinator, coordinator moves with and without "
                            "state, coordinator death, partition additions; then a quiet suffix. non-trivial = >=2 members or "
                            "a fault or an environment step; distinct by scenario parameters")
    ctx.coverage["traces_validated_against_impl"] = n_hist
    ctx.coverage["member_events_validated"] = n_events
    ctx.coverage["acceptor_outcomes"] = dict(acc)
    ctx.coverage["scenario_modes"] = dict(modes)
    ctx.coverage["observedConverged_verdicts"] = dict(conv_verdicts)
    ctx.coverage["faults_and_steps"] = dict(hist)
    ctx.coverage["reply_outcomes_seen"] = dict(outcomes)
    if conv_times:
        ctx.coverage["convergence_virtual_s_after_quiet"] = {"min": min(conv_times), "max": max(conv_times),
                                                              "n": len(conv_times)}
    for p, r in list(zip(pending, res))[:3]:
        ctx.sample({"history": p[3][:300], "model": r})
