"""Shared by c01.py / c02.py: seeded producer scenarios, the simulator run with its observation
points, projection of the observed history onto one partition (the input of the Lean acceptor
`AkVerif.Producer`, line protocol `c01 run …`), ground truth from the simulated cluster.

Observation points (all attached from outside at run time, no source hook):
  * `producer.client.send` is wrapped on the instance: `x_send` when the sender hands a
    ProduceRequest to the client (batches decoded from the request: pid, epoch, base sequence,
    record payloads), `x_done` when that call returns / raises;
  * every future returned by `send()` / `send_batch()` gets a done-callback, and before any harness
    event is written all futures are swept for `done()`: `x_res` is written at the first moment the
    harness can see the result, so the order of `x_res` relative to the other harness events does
    not depend on callback scheduling;
  * `x_acc` when `send()` returned a future, `x_wcall` / `x_wret` around `flush()` / `stop()`;
  * the broker side (`apply` events, partition logs) comes from the simulator.
A scenario is a plain dict (JSON), so a replay file re-runs it exactly.
"""
import asyncio
import importlib
import logging
import sys

from vlib import HarnessError

TOPIC = "t"
BIG = 999999


class Env:
    """the code under test + the simulator bound to it"""

    def __init__(self, repo):
        repo = str(repo)
        if repo in sys.path:
            sys.path.remove(repo)
        sys.path.insert(0, repo)
        for m in [m for m in sys.modules if m == "aiokafka" or m.startswith("aiokafka.")
                  or m == "sim" or m.startswith("sim.")]:
            del sys.modules[m]
        self.aiokafka = importlib.import_module("aiokafka")
        if not str(self.aiokafka.__file__).startswith(repo):
            raise HarnessError(f"aiokafka imported from {self.aiokafka.__file__}, not from {repo}")
        self.sim = importlib.import_module("sim")
        self.errors = importlib.import_module("aiokafka.errors")
        self.structs = importlib.import_module("aiokafka.structs")
        self.produce = importlib.import_module("aiokafka.protocol.produce")
        self.drec = importlib.import_module("aiokafka.record.default_records")
        self.acc = importlib.import_module("aiokafka.producer.message_accumulator")
        self.sender = importlib.import_module("aiokafka.producer.sender")
        self.txn = importlib.import_module("aiokafka.producer.transaction_manager")
        logging.disable(logging.CRITICAL)


def in_loop(fn):
    """run `fn()` inside a coroutine of a fresh event loop (aiokafka objects want a running loop)"""
    loop = asyncio.new_event_loop()
    try:
        async def main():
            return fn()
        return loop.run_until_complete(main())
    finally:
        loop.close()


# ------------------------------------------------------------------------------ scenarios
RETRIABLE_CODES = [6, 5, 3, 7, 19, 20]          # the property's list (as error codes)
FATAL_CODES = [10, 2]                            # MESSAGE_TOO_LARGE, CORRUPT_MESSAGE: not retriable


def gen_scenario(rng, idx, *, kind="mixed", big=False):
    """kind: 'mixed' | 'idem' | 'plain' | 'acks0' | 'clean' | 'txn' (transactional producer: several
    transactions, committed or aborted, writing to the same partitions) | 'migrate' (leader changes while
    replies are slow, short metadata age; any producer kind)"""
    nodes = rng.choice([1, 2, 2, 3])
    parts = rng.choice([1, 2, 3])
    txn = kind == "txn" or (kind == "migrate" and rng.random() < 0.5)
    if kind == "migrate":
        nodes = rng.choice([2, 3])
    if kind == "idem" or txn:
        idem = True
    elif kind in ("plain", "acks0"):
        idem = False
    else:
        idem = rng.random() < 0.55
    acks = -1 if idem else (0 if kind == "acks0" else rng.choice([1, 1, -1]))
    if kind == "mixed" and not idem and rng.random() < 0.12:
        acks = 0
    sc = {
        "seed": rng.randrange(1, 2**30), "nodes": nodes, "parts": parts, "idem": idem, "acks": acks,
        "linger_ms": rng.choice([0, 0, 3, 10]),
        "batch_size": rng.choice([120, 200, 400, 16384]),
        "compression": rng.choice([None, None, None, "gzip"]),
        "request_timeout_ms": rng.choice([1500, 3000, 5000]),
        "retry_backoff_ms": rng.choice([20, 50, 100]),
        "produce_max": rng.choice([3, 5, 7, 7, 8]) if idem else rng.choice([0, 1, 2, 3, 4, 5, 6, 7, 7, 8]),
        "jitter": rng.choice([0.0, 0.0005, 0.002]),
        "log_append": False, "seq0": {}, "stop_at": None, "faults": [], "tasks": [],
    }
    if txn:
        # a transactional producer: the step ["round", "commit" | "abort"] (same position in every task) ends
        # a transaction; all tasks are joined, the transaction is ended, the next one begun
        sc["txn"] = True
        sc["produce_max"] = rng.choice([3, 5, 7, 7, 8])
    if kind == "migrate" or (txn and rng.random() < 0.4):
        sc["metadata_max_age_ms"] = rng.choice([30, 100, 300])
    if sc["produce_max"] >= 2 and rng.random() < 0.3:
        sc["log_append"] = True
    if idem:
        for p in range(parts):
            c = rng.random()
            if c < 0.45:
                s0 = 0
            elif c < 0.6:
                s0 = rng.randrange(1, 2**31)
            elif c < 0.93:
                s0 = 2**31 - 1 - rng.randrange(40, 400)      # close to the wrap, not reaching it
            else:
                s0 = 2**31 - 1 - rng.randrange(0, 12)        # wraps within the run
            sc["seq0"][str(p)] = s0
    ntasks = rng.choice([1, 2, 2, 3, 4])
    nrec = rng.randrange(4, 40 if big else 16)
    ts0 = 1_600_000_000_000
    ends = [rng.choice(["commit", "commit", "abort"]) for _ in range(rng.choice([2, 2, 3, 4]))] if txn else []
    for t in range(ntasks):
        steps = []
        for j in range(nrec):
            if txn and j > 0 and j % max(1, nrec // len(ends)) == 0 and j // max(1, nrec // len(ends)) < len(ends):
                steps.append(["round", ends[j // max(1, nrec // len(ends)) - 1]])
            if kind == "migrate" and nodes > 1 and rng.random() < 0.15:
                steps.append(["migrate", rng.randrange(parts), rng.randrange(nodes), rng.choice([0, 0, 1])])
            c = rng.random()
            if c < 0.70:
                steps.append(["send", rng.randrange(parts), rng.choice([0, 0, 8, 30, 90]),
                              ts0 + rng.randrange(0, 5000)])
            elif c < 0.88:
                steps.append(["sleep", rng.choice([0, 1, 2, 5, 10, 30, 80])])
            elif c < 0.94:
                steps.append(["flush"])
            else:
                steps.append(["batch", rng.randrange(parts),
                              [ts0 + rng.randrange(0, 5000) for _ in range(rng.randrange(1, 4))]])
        sc["tasks"].append(steps)
    if txn:
        sc["last_end"] = ends[-1]
    if kind != "clean":
        sc["faults"] = gen_faults(rng, sc, slow=(kind == "migrate"))
    if any(f["kind"] == "error" and f.get("code") in FATAL_CODES for f in sc["faults"]):
        # a non-retriable reply leaves a sequence gap (every later batch is refused); the Env rule for
        # DUPLICATE_SEQUENCE_NUMBER ("last sequence below the oldest cached base") is not wrap-aware, so
        # such runs do not start near 2^31
        for ps, s0 in list(sc["seq0"].items()):
            if s0 > 2**31 - 5000:
                sc["seq0"][ps] = rng.randrange(1, 2**30)
    if rng.random() < 0.25 and not txn:
        sc["stop_at"] = rng.choice([5, 20, 50, 100, 300, 1000])
    return sc


TXN_API_CODES = {"AddPartitionsToTxn": [14, 15, 16, 51], "EndTxn": [14, 15, 16, 51]}


def gen_faults(rng, sc, slow=False):
    faults = []
    onlyret = rng.random() < 0.85 or sc.get("txn")
    dens = rng.choice([0.0, 0.08, 0.2, 0.35])
    if slow:
        # slow replies: a batch stays unanswered for a while (less than the request timeout)
        for nth in range(30):
            if rng.random() < 0.3:
                faults.append({"kind": "delay", "api": "Produce", "nth": nth, "seconds": rng.choice([0.2, 0.5, 0.9])})
        dens = rng.choice([0.0, 0.08, 0.2])
    if sc.get("txn"):
        for api, codes in TXN_API_CODES.items():
            for nth in range(8):
                if rng.random() < dens / 2:
                    k = rng.random()
                    if k < 0.6:
                        faults.append({"kind": "error", "api": api, "nth": nth, "code": rng.choice(codes)})
                    else:
                        faults.append({"kind": rng.choice(["drop_before", "drop_after", "delay"]), "api": api,
                                       "nth": nth, "seconds": 0.05})
    for nth in range(40):
        if rng.random() >= dens:
            continue
        k = rng.random()
        if k < 0.2:
            faults.append({"kind": "drop_before", "api": "Produce", "nth": nth})
        elif k < 0.4:
            faults.append({"kind": "drop_after", "api": "Produce", "nth": nth})
        elif k < 0.5:
            faults.append({"kind": "lose_reply", "api": "Produce", "nth": nth})
        elif k < 0.85:
            code = rng.choice(RETRIABLE_CODES)
            if not onlyret and rng.random() < 0.3:
                code = rng.choice(FATAL_CODES)
            f = {"kind": "error", "api": "Produce", "nth": nth, "code": code}
            if rng.random() < 0.5:
                f["tp"] = [TOPIC, rng.randrange(sc["parts"])]
            faults.append(f)
        elif k < 0.93:
            faults.append({"kind": "delay", "api": "Produce", "nth": nth,
                           "seconds": rng.choice([0.01, 0.05, 0.3])})
        else:
            # leader migration to another live node (leaders never become unknown: see c01.py)
            if sc["nodes"] > 1:
                faults.append({"kind": "call", "api": "Produce", "nth": nth, "op": "migrate",
                               "tp": [TOPIC, rng.randrange(sc["parts"])],
                               "node": rng.randrange(sc["nodes"]),
                               "stale": rng.choice([0, 0, 1, 2])})
    for nth in range(2, 14):
        if rng.random() < dens / 2:
            faults.append({"kind": rng.choice(["drop_before", "drop_after", "delay"]), "api": "Metadata",
                           "nth": nth, "seconds": 0.05})
    return faults


def make_fault(env, f):
    Fault = env.sim.Fault
    kw = {k: f[k] for k in ("api", "nth", "code", "seconds", "node") if k in f and f["kind"] != "call"}
    if f["kind"] != "delay":
        kw.pop("seconds", None)
    if f["kind"] != "error":
        kw.pop("code", None)
    if "tp" in f and f["kind"] == "error":
        kw["tp"] = tuple(f["tp"])
    if f["kind"] == "call":
        op = f["op"]
        if op == "migrate":
            def fn(cl, rq, f=f):
                if f.get("stale"):
                    cl.stale_metadata(f["stale"])
                cl.set_leader(tuple(f["tp"]), f["node"])
        elif op == "leader_down":
            def fn(cl, rq, f=f):
                cl.set_leader(tuple(f["tp"]), -1)
        else:
            raise HarnessError(f"unknown call op {op}")
        return Fault("call", api=f["api"], nth=f["nth"], fn=fn, label=op)
    return Fault(f["kind"], **kw)


# ------------------------------------------------------------------------------ the run
def _payload(uid, size):
    return (b"%d|" % uid) + b"x" * size


def _uid_of(value):
    try:
        return int(bytes(value).split(b"|", 1)[0])
    except Exception:  # noqa
        return None


class Obs:
    """what one run showed"""
    __slots__ = ("sc", "trace", "outcome", "where", "pid", "epoch", "version", "recs", "results",
                 "logs", "log_batches", "full_logs", "send_errors", "leftover", "wrap_fix", "notes")


def run_scenario(env, sc, max_vt=900.0):
    sim = env.sim
    TP = env.structs.TopicPartition
    cluster = sim.SimCluster(nodes=sc["nodes"], topics={TOPIC: sc["parts"]}, seed=sc["seed"],
                             api_versions={"Produce": (0, sc["produce_max"])}, jitter=sc["jitter"])
    if sc["log_append"]:
        cluster.topic_config[TOPIC] = {"log_append_time": True}
    for f in sc["faults"]:
        cluster.faults.add(make_fault(env, f))
    trace = cluster.trace
    st = {"uid": 0, "k": 0, "call": 0, "pid": -1, "epoch": -1}
    recs = {}            # uid -> dict(tp, task, idx, ts, fut, kind, logged)
    order = []           # uids in accept order
    results = {}         # uid -> canonical result
    nres = {}            # uid -> number of times a result was seen (callback invocations)
    send_errors = []

    def vt():
        return int(cluster.now() * 1000 + 0.5)

    def canon(uid):
        r = recs[uid]
        fut = r["fut"]
        if fut.cancelled():
            return ["C"]
        exc = fut.exception()
        if exc is not None:
            return ["F", type(exc).__name__]
        md = fut.result()
        if md is None:
            return ["N"]
        if r["kind"] == "batch":
            # the batch future describes the batch: record i sits at base offset + i
            ts = md.timestamp if md.timestamp != -1 else r["ts"]
            return ["O", md.offset + r["rel"], ts, md.timestamp_type, md.topic, md.partition]
        return ["O", md.offset, md.timestamp, md.timestamp_type, md.topic, md.partition]

    def sweep():
        for uid in order:
            r = recs[uid]
            if not r["logged"] and r["fut"].done():
                r["logged"] = True
                results[uid] = canon(uid)
                trace.append({"vt": vt(), "ev": "x_res", "uid": uid, "tp": r["tp"], "res": results[uid]})

    def on_done(uid):
        nres[uid] = nres.get(uid, 0) + 1
        sweep()

    def emit(ev, **kw):
        sweep()
        d = {"vt": vt(), "ev": ev}
        d.update(kw)
        trace.append(d)

    def wrap_client(p):
        orig = p.client.send
        PR = env.produce.ProduceRequest

        async def send(node_id, request, **kw):
            if not isinstance(request, PR):
                return await orig(node_id, request, **kw)
            st["call"] += 1
            call = st["call"]
            batches = []
            try:
                topics = request._topics
            except AttributeError as ex:
                raise HarnessError(f"ProduceRequest has no _topics: {ex}")
            for topic, plist in topics:
                for partition, buf in plist:
                    b = env.drec.DefaultRecordBatch(bytes(buf))
                    uids = [_uid_of(r.value) for r in b]
                    batches.append({"tp": [topic, partition], "pid": b.producer_id, "epoch": b.producer_epoch,
                                    "seq": b.base_sequence, "uids": uids})
            emit("x_send", node=node_id, call=call, batches=batches, acks=request.required_acks)
            try:
                resp = await orig(node_id, request, **kw)
            except asyncio.CancelledError:
                emit("x_done", call=call, res="cancelled")
                raise
            except Exception as ex:  # noqa
                emit("x_done", call=call, res="X", exc=type(ex).__name__,
                     retriable=bool(getattr(ex, "retriable", False)))
                raise
            if resp is None or request.required_acks == 0:
                emit("x_done", call=call, res="N")
                return resp
            parts = {}
            for topic, plist in resp.topics:
                for info in plist:
                    parts[f"{topic}:{info[0]}"] = [int(x) for x in info[:5] if isinstance(x, int)]
            emit("x_done", call=call, res="F", version=resp.API_VERSION, parts=parts)
            return resp
        p.client.send = send

    async def main():
        kw = {}
        if sc["compression"]:
            kw["compression_type"] = sc["compression"]
        p = env.aiokafka.AIOKafkaProducer(
            bootstrap_servers=",".join(f"b{i}:9092" for i in range(sc["nodes"])), client_id="prod",
            enable_idempotence=sc["idem"], acks=("all" if sc["acks"] == -1 else sc["acks"]),
            **({"transactional_id": "tx"} if sc.get("txn") else {}),
            **({"metadata_max_age_ms": sc["metadata_max_age_ms"]} if sc.get("metadata_max_age_ms") else {}),
            linger_ms=sc["linger_ms"], max_batch_size=sc["batch_size"],
            request_timeout_ms=sc["request_timeout_ms"], retry_backoff_ms=sc["retry_backoff_ms"], **kw)
        try:
            await p.start()
        except env.errors.KafkaConnectionError:
            st["start_failed"] = True
            await p.stop()
            return
        if sc["idem"]:
            tm = p._txn_manager
            st["pid"], st["epoch"] = tm.producer_id, tm.producer_epoch
            for ps, s0 in sc["seq0"].items():
                if s0:
                    tm._sequence_numbers[TP(TOPIC, int(ps))] = s0
                    cluster.log((TOPIC, int(ps))).seed_producer(tm.producer_id, tm.producer_epoch, s0 - 1)
        wrap_client(p)
        # topic metadata is loaded before the workload starts: a send() that is still waiting for
        # metadata when stop() closes the client never returns (not a C01/C02 matter; noted in the report)
        await p.partitions_for(TOPIC)

        def accept(uid, tp, task, idx, ts, fut, kind, rel=0):
            recs[uid] = {"tp": tp, "task": task, "idx": idx, "ts": ts, "fut": fut, "kind": kind,
                         "rel": rel, "logged": False}
            order.append(uid)

        async def waitcall(name, coro):
            st["k"] += 1
            k = st["k"]
            emit("x_wcall", k=k, name=name)
            before = list(order)
            await coro
            # the clause itself, observed directly: futures of earlier records still pending at return
            late = [u for u in before if not recs[u]["fut"].done()]
            emit("x_wret", k=k, name=name, late=late)

        tstate = {}

        async def task(t, steps):
            idx = tstate.get(t, 0)
            try:
                return await task_(t, steps, idx)
            finally:
                pass

        async def task_(t, steps, idx):
            for step in steps:
                op = step[0]
                try:
                    if op == "send":
                        _, part, size, ts = step
                        st["uid"] += 1
                        uid = st["uid"]
                        fut = await p.send(TOPIC, _payload(uid, size), partition=part, timestamp_ms=ts)
                        sweep()
                        accept(uid, [TOPIC, part], t, idx, ts, fut, "send")
                        trace.append({"vt": vt(), "ev": "x_acc", "uid": uid, "tp": [TOPIC, part], "task": t,
                                      "idx": idx, "ts": ts})
                        fut.add_done_callback(lambda f, uid=uid: on_done(uid))
                        idx += 1
                        tstate[t] = idx
                    elif op == "batch":
                        _, part, tss = step
                        builder = p.create_batch()
                        uids = []
                        for ts in tss:
                            st["uid"] += 1
                            if builder.append(key=None, value=_payload(st["uid"], 4), timestamp=ts) is None:
                                break
                            uids.append((st["uid"], ts))
                        if not uids:
                            continue
                        fut = await p.send_batch(builder, TOPIC, partition=part)
                        sweep()
                        for rel, (uid, ts) in enumerate(uids):
                            accept(uid, [TOPIC, part], t, idx, ts, fut, "batch", rel)
                            trace.append({"vt": vt(), "ev": "x_acc", "uid": uid, "tp": [TOPIC, part],
                                          "task": t, "idx": idx, "ts": ts})
                            idx += 1
                            tstate[t] = idx
                        fut.add_done_callback(lambda f, uid=uids[0][0]: on_done(uid))
                    elif op == "sleep":
                        await asyncio.sleep(step[1] / 1000)
                    elif op == "restore":
                        cluster.set_leader((TOPIC, step[1]), step[2])
                    elif op == "migrate":
                        if step[3]:
                            cluster.stale_metadata(step[3])
                        cluster.set_leader((TOPIC, step[1]), step[2])
                    elif op == "flush":
                        await waitcall("flush", p.flush())
                except (env.errors.KafkaError, env.errors.IllegalOperation) as ex:
                    # the call was refused: the record is not accepted
                    send_errors.append([t, op, type(ex).__name__])
                    if isinstance(ex, (env.errors.ProducerClosed, env.errors.IllegalOperation)):
                        return

        async def stopper(ms):
            await asyncio.sleep(ms / 1000)
            await waitcall("stop", p.stop())

        if sc.get("txn"):
            # rounds: the k-th chunk of every task runs inside the k-th transaction
            chunks, ends = [], []
            for steps in sc["tasks"]:
                cs, cur = [], []
                for step in steps:
                    if step[0] == "round":
                        cs.append(cur)
                        cur = []
                        if len(cs) > len(ends):
                            ends.append(step[1])
                    else:
                        cur.append(step)
                cs.append(cur)
                chunks.append(cs)
            nround = max(len(cs) for cs in chunks)
            ends = (ends + [sc.get("last_end", "commit")] * nround)[:nround]
            for k in range(nround):
                try:
                    await p.begin_transaction()
                    emit("x_txn", op="begin", k=k)
                    await asyncio.gather(*[task(t, cs[k]) for t, cs in enumerate(chunks) if k < len(cs)])
                    if ends[k] == "commit":
                        await p.commit_transaction()
                    else:
                        await p.abort_transaction()
                    emit("x_txn", op=ends[k], k=k)
                except (env.errors.KafkaError, AssertionError) as ex:
                    # the transaction API refused (the sender died, the transaction is in an error state ...):
                    # an observation; what it did to the records shows in their futures and in the log
                    send_errors.append([-1, "txn-" + ends[k], type(ex).__name__])
                    break
            await waitcall("stop", p.stop())
            sweep()
            return
        jobs = [task(t, steps) for t, steps in enumerate(sc["tasks"])]
        if sc["stop_at"] is not None:
            jobs.append(stopper(sc["stop_at"]))
        await asyncio.gather(*jobs)
        if sc["stop_at"] is None:
            await waitcall("stop", p.stop())
        sweep()

    obs = Obs()
    obs.sc, obs.notes = sc, []
    obs.outcome, obs.where = "ok", None
    try:
        sim.run(main(), cluster, max_vt=max_vt)
    except sim.SimTimeout as ex:
        obs.outcome, obs.where = "sim-timeout", str(ex)[:400]
    except sim.SimBug as ex:
        raise HarnessError(f"simulator failure: {ex!r} in scenario {sc}")
    # futures that resolved while the loop was being torn down are not part of the observation
    obs.trace = trace
    if st.get("start_failed"):
        obs.outcome = "start-failed"
    obs.pid, obs.epoch = st["pid"], st["epoch"]
    vs = [e["version"] for e in trace if e["ev"] == "request" and e.get("api") == "Produce"]
    obs.version = vs[0] if vs else min(sc["produce_max"], 8)
    obs.recs = {u: {k: v for k, v in r.items() if k != "fut"} for u, r in recs.items()}
    for u, r in recs.items():
        obs.recs[u]["done"] = r["fut"].done()
        obs.recs[u]["callbacks"] = nres.get(u, 0)
    obs.results = results
    obs.send_errors = send_errors
    obs.leftover = cluster.leftover
    obs.logs, obs.log_batches, obs.full_logs = {}, {}, {}
    tt = 1 if sc["log_append"] else 0
    for part in range(sc["parts"]):
        log = cluster.log((TOPIC, part))
        obs.logs[part] = [[off, _uid_of(value), ts, tt] for off, _k, value, ts, _h in log.read_uncommitted()]
        # the whole log by offset, transaction markers included ("M")
        full = []
        for b in log.batches:
            if b.is_control:
                full += [[r[0], "M", 0, 2] for r in b.records]
            else:
                full += [[r[0], _uid_of(r[3]), r[1], tt] for r in b.records]
        if [x[0] for x in full] != list(range(len(full))):
            raise HarnessError(f"offsets of the simulated log of partition {part} are not dense from 0")
        obs.full_logs[part] = full
        obs.log_batches[part] = [{"base": b.base_offset, "uids": [_uid_of(r[3]) for r in b.records],
                                  "max_ts": b.max_ts, "seq": b.base_seq} for b in log.batches if not b.is_control]
    return obs


# ------------------------------------------------------------------------------ projection
def project(obs, part, wrap_fix):
    """-> (driver line, local-id map {uid: id}, summary dict) for partition `part`"""
    sc = obs.sc
    tp = [TOPIC, part]
    ids = {}
    evs = []
    calls = {}
    seqs, codes, nsend, nretry = [], [], 0, 0
    decisions = {}
    last_sent = None
    ats_of = {b["base"]: (b["max_ts"] if sc["log_append"] else -1) for b in obs.log_batches[part]}
    for e in obs.trace:
        ev = e["ev"]
        if ev == "x_acc":
            if e["tp"] == tp:
                ids[e["uid"]] = len(ids)
                evs.append(f"a:{e['task']}:{e['idx']}:{e['ts']}")
        elif ev == "x_send":
            for b in e["batches"]:
                if b["tp"] == tp:
                    calls[e["call"]] = True
                    loc = [ids.get(u, BIG) for u in b["uids"]]
                    evs.append(f"s:{b['pid']}:{b['epoch']}:{b['seq']}:" + (",".join(map(str, loc)) or "-"))
                    nsend += 1
                    if sc["idem"]:
                        seqs.append(b["seq"])
                    if last_sent == loc:
                        nretry += 1
                    last_sent = loc
        elif ev == "x_done":
            if e["call"] in calls:
                if e["res"] == "F":
                    fs = e["parts"].get(f"{TOPIC}:{part}")
                    if fs is None:
                        evs.append("d:F:-")
                    else:
                        evs.append("d:F:" + ",".join(map(str, fs)))
                elif e["res"] == "N":
                    evs.append("d:N")
                else:
                    evs.append("d:X")
        elif ev == "apply" and list(e["tp"]) == tp and e["outcome"] in ("commit_marker", "abort_marker"):
            evs.append(f"m:{e['base_offset']}")
            decisions[e["outcome"]] = decisions.get(e["outcome"], 0) + 1
        elif ev == "apply":
            if list(e["tp"]) == tp and e["outcome"] in ("append", "duplicate", "error"):
                if sc["acks"] == 0:
                    continue
                decisions[e["outcome"]] = decisions.get(e["outcome"], 0) + 1
                if e["outcome"] == "append":
                    k, off = "A", e["base_offset"]
                    ats = ats_of.get(off, -1)
                elif e["outcome"] == "duplicate":
                    k, off, ats = "D", e["base_offset"], -1
                else:
                    k, off, ats = f"E{e['error']}", -1, -1
                    codes.append(e["error"])
                evs.append(f"p:{e['seq']}:{e['n']}:{k}:{off}:{ats}")
        elif ev == "x_res":
            if e["tp"] == tp and e["uid"] in ids:
                r = e["res"]
                if r[0] == "O":
                    evs.append(f"r:{ids[e['uid']]}:O:{r[1]}:{r[2]}:{r[3]}")
                elif r[0] == "N":
                    evs.append(f"r:{ids[e['uid']]}:N")
                else:
                    evs.append(f"r:{ids[e['uid']]}:F")
        elif ev == "x_wcall":
            evs.append(f"w:{e['k']}")
        elif ev == "x_wret":
            evs.append(f"v:{e['k']}")
    flags = ("T" if sc["idem"] else "F") + ("T" if sc["acks"] == 0 else "F") + ("T" if wrap_fix else "F")
    pid, epoch = (obs.pid, obs.epoch) if sc["idem"] else (-1, -1)
    s0 = sc["seq0"].get(str(part), 0) if sc["idem"] else 0
    line = f"c01 run {flags} {pid} {epoch} {s0} {obs.version} " + (";".join(evs) if evs else "-")
    return line, ids, {"events": len(evs), "sends": nsend, "retries": nretry, "seqs": seqs, "codes": codes,
                       "decisions": decisions}


def truth_log(obs, part, ids):
    """the partition log as the cluster has it (by offset, markers included), in the model's notation"""
    return ",".join("0:0:2" if u == "M" else f"{ids.get(u, BIG)}:{ts}:{tt}"
                    for _off, u, ts, tt in obs.full_logs[part]) or "-"


def describe(sc):
    return {k: sc[k] for k in ("idem", "acks", "nodes", "parts", "linger_ms", "batch_size", "produce_max",
                               "log_append", "stop_at")} | {"txn": bool(sc.get("txn")),
                                                           "metadata_max_age_ms": sc.get("metadata_max_age_ms"),
                                                           "faults": len(sc["faults"]),
                                                           "records": sum(1 for t in sc["tasks"] for s in t if s[0] in ("send", "batch"))}
