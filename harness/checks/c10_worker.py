"""Child process of harness/checks/c10.py: runs the REAL record decoders on hostile bytes.

usage: python c10_worker.py <root> <mode> <jobfile>
  root  directory that contains the `aiokafka` package to exercise (a scratch build for the
        compiled codec, the repo itself for the pure-Python codec)
  mode  cy | py      (py requires AIOKAFKA_NO_EXTENSIONS=1 in the environment)
  jobfile  one job per line: idx entry crc magic pos guard hexbuf

Protocol on stdout (line buffered): `S <idx>` before an input is touched, `R <idx> <canonical
outcome>\t<codec oracle>` after it.  A crash / ASan abort / kill leaves an `S` without its `R`:
that pins the input.  The parent owns all time limits (a C loop ignores Python signal handlers).
"""
import ctypes
import mmap
import os
import struct
import sys
import types


def hx(b):
    if b is None:
        return "n"
    b = bytes(b)
    return b.hex() if b else "-"


class CodecRaised(Exception):
    def __init__(self, kind, n):
        super().__init__(kind, n)
        self.kind, self.n = kind, n


class Guard:
    """buffer whose last byte is the last byte of a page followed by a PROT_NONE page:
    a one-byte over-read is a SIGSEGV even without ASan"""

    def __init__(self, pages=2):
        self.page = mmap.PAGESIZE
        self.n = pages * self.page
        self.m = mmap.mmap(-1, self.n + self.page)
        addr = ctypes.addressof(ctypes.c_char.from_buffer(self.m))
        libc = ctypes.CDLL(None, use_errno=True)
        if libc.mprotect(ctypes.c_void_p(addr + self.n), ctypes.c_size_t(self.page), 0) != 0:
            raise OSError("mprotect failed")

    def view(self, data):
        n = len(data)
        if n > self.n:
            return None
        self.m[self.n - n:self.n] = data
        return memoryview(self.m)[self.n - n:self.n]


def main():
    root, mode, jobfile = sys.argv[1], sys.argv[2], sys.argv[3]
    if mode == "py":
        # a non-terminating Python loop that keeps allocating must hit a wall, not the machine
        import resource
        lim = 8 * 1024 ** 3        # (snappy may legitimately reserve up to 4 GiB of address space)
        resource.setrlimit(resource.RLIMIT_AS, (lim, lim))
    # import the record package without executing aiokafka/__init__.py (client, ssl, ...: slow
    # under ASan and irrelevant here)
    sys.path.insert(0, root)
    pkg = types.ModuleType("aiokafka")
    pkg.__path__ = [os.path.join(root, "aiokafka")]
    sys.modules["aiokafka"] = pkg
    import aiokafka.errors as E
    import aiokafka.codec as codec_mod

    # cramjam reserves the length a raw snappy stream CLAIMS (up to 4 GiB) before it finds out that
    # the stream cannot deliver it; under ASan that costs seconds per input (and under an address
    # space limit the Rust allocator aborts the process).  Snappy cannot expand more than ~21x, so a
    # claim above 64x the input (+4 KiB) is answered with the error cramjam would raise anyway.
    real_cramjam = codec_mod.cramjam

    class _Snappy:
        def __getattr__(self, name):
            return getattr(real_cramjam.snappy, name)

        def decompress_raw(self, data, *a, **k):
            d = bytes(data[:6])
            claim, shift = 0, 0
            for x in d:
                claim |= (x & 0x7F) << shift
                shift += 7
                if not x & 0x80:
                    break
            if claim > 64 * len(data) + 4096:
                raise ValueError("snappy: claimed length cannot be reached")
            return real_cramjam.snappy.decompress_raw(data, *a, **k)

    class _Cramjam:
        snappy = _Snappy()

        def __getattr__(self, name):
            return getattr(real_cramjam, name)

    if real_cramjam is not None:
        codec_mod.cramjam = _Cramjam()

    oracle = []

    def wrap(kind, fn):
        def w(payload, *a, **k):
            data = bytes(payload)
            try:
                out = fn(payload, *a, **k)
            except Exception:
                oracle.append(f"{kind}:{hx(data)}:!")
                raise CodecRaised(kind, len(data)) from None
            out = bytes(out)
            oracle.append(f"{kind}:{hx(data)}:{hx(out)}")
            return out
        return w

    kinds = {"gzip_decode": 1, "snappy_decode": 2, "lz4_decode": 3, "zstd_decode": 4}
    wrapped = {name: wrap(k, getattr(codec_mod, name)) for name, k in kinds.items()}

    if mode == "cy":
        import aiokafka.record._crecords.default_records as dmod
        import aiokafka.record._crecords.legacy_records as lmod
        import aiokafka.record._crecords.memory_records as mmod
        import aiokafka.record._crecords.cutil as cutil
        for mod in (dmod, lmod, mmod, cutil):
            if not os.path.abspath(mod.__file__).startswith(os.path.abspath(root)):
                print(f"F wrong-module {mod.__file__}", flush=True)
                sys.exit(3)
        Default, Legacy, Memory = dmod.DefaultRecordBatch, lmod.LegacyRecordBatch, mmod.MemoryRecords
        varint = cutil.decode_varint_cython
        patch_mods = (dmod, lmod)
    else:
        assert os.environ.get("AIOKAFKA_NO_EXTENSIONS"), "py mode needs AIOKAFKA_NO_EXTENSIONS=1"
        import aiokafka.record.default_records as dmod
        import aiokafka.record.legacy_records as lmod
        import aiokafka.record.memory_records as mmod
        import aiokafka.record.util as util
        Default, Legacy, Memory = dmod._DefaultRecordBatchPy, lmod._LegacyRecordBatchPy, mmod._MemoryRecordsPy
        assert mmod.DefaultRecordBatch is Default and mmod.LegacyRecordBatch is Legacy
        assert dmod.decode_varint is util.decode_varint_py
        varint = util.decode_varint_py
        patch_mods = (dmod, lmod)
    for mod in patch_mods:
        for name, w in wrapped.items():
            if hasattr(mod, name):
                setattr(mod, name, w)

    Corrupt, Unsupported = E.CorruptRecordException, E.UnsupportedCodecError

    def classify(e):
        if isinstance(e, CodecRaised):
            return f"exc:codec:{e.kind}:{e.n}"
        if isinstance(e, Corrupt):
            return "exc:corrupt"
        if isinstance(e, Unsupported):
            return "exc:unsupported"
        if isinstance(e, AssertionError):
            return "exc:assertion"
        if isinstance(e, UnicodeDecodeError):
            return "exc:unicode"
        if isinstance(e, struct.error):
            return "exc:struct-error"
        if isinstance(e, SystemError):
            return "fault:system-error"
        if isinstance(e, MemoryError):
            return "fault:memory-error"
        if isinstance(e, OverflowError):
            return "fault:overflow"
        if isinstance(e, RecursionError):
            return "fault:recursion"
        if isinstance(e, IndexError):
            return "exc:index-error"
        if isinstance(e, ValueError):
            return "exc:value-error"
        return "other:" + type(e).__name__

    def show_rec(r):
        hs = r.headers
        if hs:
            h = "+".join(hx(k.encode("utf-8")) + "=" + hx(v) for k, v in hs)
        else:
            h = "."
        ts = r.timestamp
        tt = r.timestamp_type
        crc = r.checksum
        return "/".join([str(r.offset), "n" if ts is None else str(ts), "n" if tt is None else str(tt),
                         hx(r.key), hx(r.value), h, "n" if crc is None else str(crc)])

    def run_batch(b, want_crc):
        """validate_crc + iteration of an already constructed batch -> (text, end)"""
        kind = "D" if isinstance(b, Default) else "L"
        crc = "n"
        recs = []
        try:
            if want_crc:
                crc = "t" if b.validate_crc() else "f"
            it = iter(b)
            while True:
                try:
                    r = next(it)
                except StopIteration:
                    break
                recs.append(show_rec(r))
            end = "done"
        except Exception as e:  # noqa: BLE001 - the exception class IS the observation
            end = classify(e)
        # implementation-only probe (not modelled): validate_crc() AFTER iteration must not crash the
        # interpreter or end in an internal error either (a compressed batch has replaced its buffer by
        # then); a clean result or an ordinary exception adds nothing to the compared text
        post = ""
        if want_crc:
            try:
                b.validate_crc()
            except Exception as e:  # noqa: BLE001
                c = classify(e)
                if c.startswith("fault:") or c.startswith("other:"):
                    post = " post-crc=" + c
        return f"{kind} crc={crc} recs={','.join(recs) if recs else '-'} end={end}{post}", end

    def run(entry, want_crc, magic, pos, buf):
        if entry in ("cyD", "pyD", "cyL", "pyL"):
            kind = entry[2]
            try:
                b = Default(buf) if kind == "D" else Legacy(buf, magic)
            except Exception as e:  # noqa: BLE001
                return f"{kind} crc=n recs=- end={classify(e)}"
            return run_batch(b, want_crc)[0]
        if entry in ("cyM", "pyM", "cyN", "pyN"):
            # M: `while records.has_next(): records.next_batch()` (the fetcher's way);
            # N: `next_batch()` until it returns None - no has_next() guard, so next_batch()'s own
            #    end-of-buffer tests are what is exercised
            guarded = entry[2] == "M"
            outs = []
            try:
                mr = Memory(buf)
                while (mr.has_next() if guarded else True):
                    b = mr.next_batch()
                    if b is None:
                        break
                    txt, end = run_batch(b, want_crc)
                    outs.append("[" + txt + "]")
                    if end != "done":
                        return ";".join(outs) + " end=" + end
                end = "done"
            except Exception as e:  # noqa: BLE001
                end = classify(e)
            return (";".join(outs) if outs else "-") + " end=" + end
        if entry in ("cyV", "pyV"):
            try:
                v, p = varint(buf, pos)
                return f"ok:{v}:{p}"
            except Exception as e:  # noqa: BLE001
                return classify(e)
        return "bad-entry"

    guard = Guard()
    print("READY", flush=True)
    out = sys.stdout
    with open(jobfile) as f:
        for line in f:
            idx, entry, crc, magic, pos, g, hexbuf = line.split()
            data = b"" if hexbuf == "-" else bytes.fromhex(hexbuf)
            out.write(f"S {idx}\n")
            out.flush()
            del oracle[:]
            if g == "1":
                buf = guard.view(data)
                if buf is None:
                    buf = data
            elif entry == "pyV":
                buf = bytearray(data)
            else:
                buf = data
            res = run(entry, crc == "1", int(magic), int(pos), buf)
            del buf
            out.write(f"R {idx} {res}\t{','.join(oracle) if oracle else '-'}\n")
            out.flush()
    print("END", flush=True)


if __name__ == "__main__":
    main()
