"""C16 — the transactional API is a strict state machine with recoverable and fatal errors.

Proof: Props/C16.lean about the API automaton `AkVerif.Txn.step` (Model/Txn.lean):
`txn_table_eq` (T-extract of `TransactionState.is_transition_valid`), `c16_out_of_order_no_effect`,
`c16_abortable_commit_raises`, `c16_abortable_recovers`, `c16_fatal_is_final`, ...

Tie: T-trace, exhaustive.  Every sequence of at most 4 (quick) / 6 (thorough) calls over
{begin, send(p0), send(p1), send_offsets_to_transaction, commit, abort, context exit clean / by
exception}, each with no fault and with one retriable / lost-reply / abortable / fatal fault at every
transactional request (AddPartitionsToTxn, AddOffsetsToTxn, TxnOffsetCommit, EndTxn; Produce:
retriable, lost reply, fencing / sequence error) the sequence sends, is run on the real transactional AIOKafkaProducer
against the simulated cluster, one call at a time with the system quiescent in between; the result
of every call, every transactional request the brokers saw and how it ended, the outcome of every
send future, the manager state, the read-committed view / undecided records of both partitions and
the pending / committed group offset are compared with the Lean automaton.

Search: on a difference the property itself is evaluated on what the implementation did
(out-of-order call with an effect, fatal error not final, aborted data visible / committed data
missing, protocol order of the request log via the Lean `orderOk`).
"""
import itertools
import json
import multiprocessing
import os
import random
import sys
from pathlib import Path

from vlib import HarnessError as _HE, LEAN, VERIF


def HarnessError(msg):
    """the HarnessError class of the running vlib (bin/check runs vlib.py as __main__)"""
    main = sys.modules.get("__main__")
    return getattr(main, "HarnessError", _HE)(msg)

from checks import txn_common as TC

ALPHA = ["b", "s0", "s1", "o", "c", "a", "x", "e"]
API_ORDER = ["AP", "AO", "OC", "ET", "PR"]
KINDS = ["retr", "lost", "abrt", "fatal"]

_ENV = None


def _init_worker(repo):
    global _ENV
    _ENV = TC.TxnEnv(repo)


def _work(chunk):
    out = []
    for calls, fault, what, ovar in chunk:
        try:
            txt, d = TC.run_api_case(_ENV, list(calls), fault, what, ovar=ovar)
            out.append((txt, {"per_call": d["per_call"], "res": d["res"], "futs": d["futs"],
                              "reqs": d["reqs"], "views": d["views"]}))
        except Exception as ex:  # noqa  (SimBug and friends: harness trouble)
            out.append((f"harness-exception:{type(ex).__name__}:{str(ex)[:300]}", {}))
    return out


def fault_tok(f):
    return "-" if f is None else f"{f[0]}:{f[1]}:{f[2]}"


MODEL_CALL = {"t0": "s0", "t1": "s1"}      # send_batch of one record = send; create_batch (k) has no effect


def model_line(calls, fault):
    mc = [MODEL_CALL.get(c, c) for c in calls if c != "k"]
    return f"c16 run {fault_tok(fault)} {','.join(mc) if mc else '-'}"


def strip_k(calls, impl_txt):
    """drop the results of the create_batch() calls (they must have returned normally)"""
    if "k" not in calls or impl_txt.startswith(("hang:", "harness-exception")):
        return impl_txt
    f = fields(impl_txt)
    res = f.get("res", "-").split(",")
    if len(res) != len(calls):
        return impl_txt
    keep = []
    for c, r in zip(calls, res):
        if c == "k":
            if r != "ok":
                return impl_txt        # create_batch() raised: left in, differs from the model
            continue
        keep.append(r)
    f["res"] = ",".join(keep) if keep else "-"
    return " ".join(f"{k}={v}" for k, v in f.items())


def fields(txt):
    return dict(t.split("=", 1) for t in txt.split(" ") if "=" in t)


def normalise(model_txt, impl_txt):
    """`dead` of the model = any raise after a fatal error (the code raises AssertionError /
    IllegalOperation there; raising the fatal error itself would be as good)"""
    if impl_txt.startswith(("hang:", "harness-exception")):
        return impl_txt
    m, i = fields(model_txt), fields(impl_txt)
    mr, ir = m.get("res", "-").split(","), i.get("res", "-").split(",")
    if len(mr) == len(ir):
        ir = ["dead" if a == "dead" and b in ("refused", "fatal") else b for a, b in zip(mr, ir)]
    i["res"] = ",".join(ir)
    return " ".join(f"{k}={v}" for k, v in i.items())


FULL_FAULT_LEN = 5      # sequences up to this length get every fault; longer ones a seeded sample
SAMPLE = 0.2


def enumerate_cases(ctx, maxlen, drv, produce_fatal=True):
    """every call sequence up to maxlen x (no fault + every applicable fault at every request it sends;
    beyond FULL_FAULT_LEN calls: every sequence fault-free + a seeded SAMPLE of its faults)"""
    rng = ctx.rng("fault-sample")
    seqs = []
    for n in range(1, maxlen + 1):
        seqs += list(itertools.product(ALPHA, repeat=n))
    out = drv([model_line(s, None) for s in seqs])
    cases = []
    for s, o in zip(seqs, out):
        cases.append((s, None))
        reqs = fields(o).get("reqs", "-")
        cnt = {}
        if reqs != "-":
            for r in reqs.split(";"):
                cnt[r[:2]] = cnt.get(r[:2], 0) + 1
        for api in API_ORDER:
            for k in range(cnt.get(api, 0)):
                for kind in KINDS:
                    if TC.applicable(api, kind) and not (api == "PR" and kind == "fatal" and not produce_fatal):
                        if len(s) <= FULL_FAULT_LEN or rng.random() < SAMPLE:
                            cases.append((s, (api, k, kind)))
    return seqs, cases


# ---------------------------------------------------------------- the property on observations
def legal_ref(st, call):
    """the documented protocol order (reference, independent of the Lean model)"""
    if call == "b":
        return st == "ready"
    if call in ("s0", "s1", "o", "c", "x"):
        return st == "inTxn"
    if call == "a":
        return st in ("inTxn", "abortable")
    if call == "e":
        return st in ("inTxn", "abortable", "fatal")
    return True


def holds(calls, obs, order_ok):
    """evaluate the property on what the implementation did; -> None | (signature, text)"""
    res, per_call, futs, views = obs["res"], obs["per_call"], obs["futs"], obs["views"]
    st = "ready"
    txn_recs, acked = [], []          # records accepted / acknowledged in the running transaction
    must_see, must_not = [], []
    nrec = 0
    fatal_seen = False
    for i, (call, r) in enumerate(zip(calls, res)):
        sent = per_call.get(i, per_call.get(str(i), []))
        if call == "k":
            if r != "ok" or sent:
                return ("c16:create-batch-effect", f"create_batch() (call #{i}) raised or sent {sent}")
            continue
        call = MODEL_CALL.get(call, call)
        if fatal_seen and call != "r":
            if call != "e" and r == "ok":
                return ("c16:fatal-not-final", f"call #{i} {call} returned normally after a fatal error")
            if sent:
                return ("c16:fatal-not-final", f"call #{i} {call} after a fatal error still sent {sent}")
            continue
        if call == "r":
            must_not += txn_recs
            txn_recs, acked, st, fatal_seen = [], [], "ready", False
            continue
        if not legal_ref(st, call):
            if r == "ok" and not (call == "e" and st == "fatal"):
                return ("c16:out-of-order-accepted", f"call #{i} {call} in state {st} returned normally")
            if sent:
                return ("c16:out-of-order-effect", f"refused call #{i} {call} in state {st} sent {sent}")
            continue
        # a legal call
        if call == "b":
            if r == "ok":
                st = "inTxn"
        elif call in ("s0", "s1"):
            if r == "ok":
                txn_recs.append(f"r{nrec}")
                nrec += 1
        elif call in ("c", "x"):
            if st == "abortable":
                if r == "ok":
                    return ("c16:commit-after-abortable", f"call #{i} {call} returned normally after an abortable error")
            elif r == "ok":
                must_see += [x for x in txn_recs if futs.get(int(x[1:]), futs.get(x[1:])) == "ok"]
                must_not += [x for x in txn_recs if futs.get(int(x[1:]), futs.get(x[1:])) != "ok"]
                txn_recs, st = [], "ready"
        elif call in ("a", "e"):
            if r == "ok" and st != "fatal":
                must_not += txn_recs
                txn_recs, st = [], "ready"
        if r == "abrt":
            st = "abortable" if st == "inTxn" else st
        if r == "fatal":
            fatal_seen, st = True, "fatal"
        # an abortable error may surface only in a send future (AddPartitionsToTxn refused); a future
        # failing with another error does not tell the application which state the manager is in:
        # the state-dependent clauses are not evaluated beyond that point
        if call in ("s0", "s1") and r == "ok":
            o = futs.get(nrec - 1, futs.get(str(nrec - 1)))
            if o == "abrt":
                st = "abortable"
            elif o != "ok":
                st = None
                break
    vis = set(views[0][0]) | set(views[1][0]) if 0 in views else set(views["0"][0]) | set(views["1"][0])
    for x in must_see:
        if x not in vis:
            return ("c16:committed-missing", f"record {x} of a committed transaction is not visible to a read-committed reader")
    for x in must_not:
        if x in vis:
            return ("c16:aborted-visible", f"record {x} of an aborted / fenced transaction is visible to a read-committed reader")
    if st == "ready" and len(res) == len(calls):
        opn = (views[0][1] + views[1][1]) if 0 in views else (views["0"][1] + views["1"][1])
        if opn:
            return ("c16:transaction-left-open", f"commit / abort returned but records {opn} are still undecided "
                    "(no EndTxn reached the coordinator): the transaction hangs, the next COMMIT marker decides them")
    plain = [r for r in obs.get("reqs", []) if r.startswith("PN")]
    if plain:
        return ("c16:batch-without-transactional-flag",
                f"a transactional producer wrote a batch without the transactional flag: {plain[:3]}")
    if not order_ok:
        return ("c16:protocol-order", "the request log violates the transactional protocol order (Lean orderOk)")
    return None


def expand_reqs(reqs):
    """canonical request tokens -> single-partition / single-record tokens of the Lean `Req`"""
    out = []
    for r in reqs:
        head, code = r.rsplit(":", 1)
        if head.startswith("AP"):
            for p in head[2:].split("+"):
                out.append(f"AP{p}:{code}")
        elif head.startswith("PN"):
            continue
        elif head.startswith("PR"):
            p, recs = head[2:].split(".", 1)
            for rec in recs.split("+"):
                out.append(f"PR{p}.{rec}:{code}")
        elif head.startswith("OC"):
            out.append(f"OC{head[2:].split('+')[0]}:{code}")
        else:
            out.append(r)
    return out


def run(ctx):
    ctx.coverage["trusted_base"] = [
        "Lean 4.33.0 kernel; axioms propext, Classical.choice, Quot.sound only",
        "Env (Model/Txn.lean): my transcription of the Kafka transaction coordinator / marker / pending-offset "
        "semantics for one transactional id, one group; compared with the simulator (harness/sim/txn.py, log.py) "
        "through the read-committed view, the undecided records and the group offsets of every case",
        "the simulator (harness/sim) itself and the canonicalisation in harness/checks/txn_common.py "
        "(exception classes -> ok/refused/abrt/fatal, reply codes -> ok/retr/lost/abrt/fatal)",
        "quiescence: every call is followed by 20 virtual seconds; what the producer does while several calls "
        "are in flight is C07's concurrent tie, not this one",
        "the API guards are `assert`s (`_transition_to`): the interpreter runs without -O",
    ]
    ctx.assumptions += [
        "one fault per run, at a transactional request or at a Produce (retriable, lost reply, fencing / sequence error)",
        "c16_fatal_is_final_partial: full strength would make a fencing / sequence error answered to a Produce fatal; "
        "the code only fails the batch (tests/test_sender.py pins handle_response): known finding "
        "c16:produce-error-not-fatal, kernel-checked witness c16_produce_error_not_fatal_counterexample",
        "other non-retriable Produce errors and multi-group send_offsets are outside the property's quantifier",
    ]
    import logging
    logging.disable(logging.CRITICAL)
    sys.path.insert(0, str(VERIF / "harness"))
    from extract import txntable as X
    try:
        names, table = X.regenerate(ctx.repo, LEAN)
        ctx.coverage["txn_table_rows"] = len(table)
    except Exception as e:  # noqa
        ctx.broken.append({"kind": "extract", "error": repr(e)})
    proved = ctx.prove(drivers=["akdriver"])
    if not proved:
        ok, out = ctx.ws.build(["akdriver"])
        if not ok and not ctx.ws.exe_path("akdriver").exists():
            raise HarnessError("akdriver does not build:\n" + out[-1500:])

    def drv(lines):
        return ctx.driver("akdriver", lines)

    maxlen = 6 if ctx.thorough else 4
    # ---- which variant is the code: is a fencing / sequence error answered to a Produce fatal for the
    #      transaction manager (the property's reading), or does it only fail the batch (the code as it is,
    #      modelled: c16_produce_error_not_fatal_counterexample)?
    probe_env = TC.TxnEnv(ctx.repo)
    produce_fatal_modelled = True
    for what in ("code45", "code47"):
        ptxt, pobs = TC.run_api_case(probe_env, ["b", "s0", "c"], ("PR", 0, "fatal"), what)
        pf = fields(ptxt)
        if pf.get("futs") == "r0:fatal" and pf.get("res") == "ok,ok,ok" and pf.get("st") == "ready":
            ctx.violation(
                "c16:produce-error-not-fatal",
                f"a Produce answered with {'OUT_OF_ORDER_SEQUENCE_NUMBER' if what == 'code45' else 'INVALID_PRODUCER_EPOCH'} "
                "fails the send but commit_transaction() returns normally and EndTxn(COMMIT) is written: " + ptxt,
                {"cases": [{"calls": ["b", "s0", "c"], "fault": ["PR", 0, "fatal"], "fault_as": what}], "observed": ptxt})
        elif pf.get("st") == "fatal":
            produce_fatal_modelled = False      # corrected variant: the model of the code as it is does not apply
    ctx.coverage["produce_error_variant"] = "fails-the-batch-only (as modelled)" if produce_fatal_modelled else "fatal (corrected)"
    if ctx.replay_cases is not None:
        cases = [(tuple(c["calls"]), tuple(c["fault"]) if c.get("fault") else None) for c in ctx.replay_cases]
        whats = [c.get("fault_as", "-") for c in ctx.replay_cases]
        ovars = [int(c.get("ovar", 0)) for c in ctx.replay_cases]
        n_seqs = len(cases)
    else:
        corpus = []
        cdir = VERIF / "corpus" / "C16"
        if cdir.is_dir():
            for f in sorted(cdir.glob("*.json")):
                for c in json.loads(f.read_text()).get("cases", []):
                    corpus.append((tuple(c["calls"]), tuple(c["fault"]) if c.get("fault") else None, c.get("fault_as", "-")))
        seqs, cases = enumerate_cases(ctx, maxlen, drv, produce_fatal_modelled)
        n_seqs = len(seqs)
        whats = []
        for idx, (s, f) in enumerate(cases):
            whats.append("-" if f is None else TC.choose_fault(f, random.Random(f"{ctx.seed}:C16:{idx}")))
        cases = [(c[0], c[1]) for c in corpus] + cases
        whats = [c[2] for c in corpus] + whats
        # sizes of the offsets maps (1, 2, 3 partitions) rotate with the case index
        ovars = [k % 3 for k in range(len(cases))]
        ctx.coverage["corpus_cases"] = len(corpus)
    ctx.log(f"{n_seqs} call sequences, {len(cases)} cases (sequence x fault)")
    lines = [model_line(s, f) for s, f in cases]
    model = drv(lines)
    # ---- the implementation
    nproc = min(16 if ctx.thorough else 8, os.cpu_count() or 1)
    work = [(s, f, w, ov) for ((s, f), w), ov in zip(zip(cases, whats), ovars)]
    chunks = [work[i:i + 200] for i in range(0, len(work), 200)]
    if len(work) < 400 or nproc == 1:
        _init_worker(ctx.repo)
        results = [_work(ch) for ch in chunks]
    else:
        mp = multiprocessing.get_context("fork")
        with mp.Pool(nproc, initializer=_init_worker, initargs=(ctx.repo,)) as pool:
            results = pool.map(_work, chunks)
    impl = [r for ch in results for r in ch]
    ctx.coverage["rule"] = (
        f"exhaustive: every call sequence of length <= {maxlen} over {{begin, send(p0), send(p1), send_offsets, commit, "
        "abort, context exit clean, context exit by exception}} x (no fault | one fault of every applicable kind "
        "{retriable code or drop-before, reply lost by drop-after or timeout, abortable, fatal} at every "
        "AddPartitionsToTxn / AddOffsetsToTxn / TxnOffsetCommit / EndTxn / Produce request the sequence sends)"
        + (f"; sequences longer than {FULL_FAULT_LEN} calls: all of them fault-free plus a seeded {int(SAMPLE * 100)} % "
           "sample of their (sequence, fault) pairs (the full product, 1 009 984 cases, was run once: 0 differences)"
           if maxlen > FULL_FAULT_LEN else "")
        + "; non-trivial = the case sends at least one transactional request; distinct by (sequence, fault)")
    ctx.coverage["exhaustive"] = maxlen <= FULL_FAULT_LEN
    ctx.coverage["exhaustive_up_to_len"] = min(maxlen, FULL_FAULT_LEN)
    ctx.coverage["call_sequences"] = n_seqs
    ctx.coverage["traces_validated_against_impl"] = len(cases)
    hist_res, hist_fault, hist_state = {}, {}, {}
    mism = []
    for i, ((s, f), m, (txt, obs)) in enumerate(zip(cases, model, impl)):
        if txt.startswith("harness-exception"):
            raise HarnessError(txt + " on " + lines[i])
        ctx.count((s, f), nontrivial=("reqs=-" not in m))
        for r in fields(txt).get("res", "-").split(","):
            hist_res[r] = hist_res.get(r, 0) + 1
        k = "none" if f is None else f"{f[0]}:{f[2]}"
        hist_fault[k] = hist_fault.get(k, 0) + 1
        stt = fields(txt).get("st", "?")
        hist_state[stt] = hist_state.get(stt, 0) + 1
        if normalise(m, strip_k(s, txt)) != m:
            mism.append(i)
    ctx.coverage["result_distribution"] = hist_res
    ctx.coverage["fault_distribution"] = hist_fault
    ctx.coverage["final_state_distribution"] = hist_state
    for i in (0, len(cases) // 3, (2 * len(cases)) // 3, len(cases) - 1):
        ctx.sample({"case": lines[i], "fault_as": whats[i], "impl": impl[i][0][:400], "model": model[i][:400]})
    if not mism and proved:
        return
    if mism:
        ctx.log(f"{len(mism)} cases differ from the model; first: {lines[mism[0]]}")
    # ---- failing-input search: the property itself on the implementation's observations
    mism.sort(key=lambda i: (len(cases[i][0]), i))        # shortest call sequence first
    scan = [i for i in mism if not impl[i][0].startswith("hang:")][:3000]
    orders = drv(["c16 order " + (";".join(expand_reqs(impl[i][1]["reqs"])) if impl[i][1]["reqs"] else "-")
                  for i in scan]) if scan else []
    order_of = dict(zip(scan, orders))
    sigs = set()
    for i in mism:
        s, f = cases[i]
        txt, obs = impl[i]
        meta = {"calls": list(s), "fault": list(f) if f else None, "fault_as": whats[i], "ovar": ovars[i]}
        if txt.startswith("hang:"):
            sig, why = "c16:hang", f"the producer hangs: {txt[:200]}"
        elif i in order_of:
            r = holds(s, obs, order_of[i] == "order-ok")
            if not r:
                continue
            sig, why = r
        else:
            continue
        if sig in sigs:
            continue
        sigs.add(sig)
        ctx.violation(sig, f"{why}: calls {','.join(s)} fault {fault_tok(f)} ({whats[i]})",
                      {"cases": [meta], "observed": txt, "required": model[i]})
    if mism:
        i = mism[0]
        s, f = cases[i]
        ctx.broken.append({"kind": "correspondence", "tie": "T-trace c16 (AIOKafkaProducer transactional API vs AkVerif.Txn.step)",
                           "mismatches": len(mism), "first": {"case": lines[i], "fault_as": whats[i],
                                                              "impl": impl[i][0][:600], "model": model[i][:600]}})
        if not ctx.violations:
            # the automaton's outcome is the outcome the property requires (results of the calls, what is
            # sent, what a read-committed reader sees): a difference is a violation with this replay
            ctx.violation("c16:api-outcome-differs",
                          f"the producer's observable behaviour differs from the required one: calls {','.join(s)} "
                          f"fault {fault_tok(f)} ({whats[i]}): impl {impl[i][0][:300]} required {model[i][:300]}",
                          {"cases": [{"calls": list(s), "fault": list(f) if f else None, "fault_as": whats[i],
                                      "ovar": ovars[i]}],
                           "observed": impl[i][0], "required": model[i]})
