"""C03 — the consumer yields each visible record once, in offset order, from its position.

Proof: Props/C03.lean about the model `AkVerif.Consume` (Model/Consume.lean).

Tie, three layers, all on the real classes of `ctx.repo`:
 1. T-diff `unpack`: real `MemoryRecords` + `PartitionRecords` iterate byte strings encoded here from
    generated abstract logs (v0/v1 messages and gzip wrappers starting before the fetch offset, v2
    plain / gzip / compacted / empty / control batches, every cut) — compared with `drain`.
 2. T-diff `fst`: a real `Fetcher` + `SubscriptionState` on a stub client executes operation scripts
    (`_proc_fetch_request` with encoded responses of every Fetch version, `next_record`,
    `fetched_records`, `seek_to`, `request_offset_reset`, pause / resume, reassignment) — every
    result compared with the model `FSt`.
 3. T-trace `acc`: a real `AIOKafkaConsumer` on the simulator (several brokers, jittered reply
    order, leader moves, retriable fetch errors, dropped connections; getone / getmany / seek /
    pause / resume from several tasks); the probe of cons_common records per partition every
    internal event with a snapshot of the real state; the Lean acceptor replays the model on it.
    Before the random traces a deterministic family of exact ties runs (cons_sim.c03tie_plans): two
    brokers, jitter 0, the application blocked in `getone()`, a record appended to one partition at
    the very instant (and ±1 tick / ±1–2 ms) at which the other broker's long-poll expires, or
    together with a leader move that makes the other broker answer NOT_LEADER — both fetch answers
    reach the consumer in the same loop iteration; the blocked call must return within 5 virtual s.
    A second deterministic family (cons_sim.c03sub_plans): partitions sharing a leader of which the
    application polls only a subset (`getone(B)` / `getmany(B)` / a slow loop) while the others keep
    prefetched data buffered; the polled ones must reach their log ends within 30 virtual s.  A
    livelock of the client's fetch loop (thousands of rounds within virtual milliseconds) is caught
    by cons_sim.spin_guard in every simulator run and reported as `c03:livelock`.
Search: the property itself (`c03 holds`: Lean `holdsC03`) is evaluated on what the application
saw against the ground-truth log, for every trace.
"""
import asyncio
import logging

from vlib import HarnessError
from . import cons_common as cc
from . import cons_sim


# ------------------------------------------------------------------------------------ layer 1
def run_unpack(ctx, env, rng, n):
    """real PartitionRecords over encoded logs vs `drain`"""
    F = env.fetcher
    lines, impl, meta = [], [], []
    hist = {}
    todo = []
    # exhaustive: every cut [a, b) of 5-batch logs of every format × every fetch offset of the first batch
    n_exh = 0
    for fmt0 in sorted(set(cc.FORMATS)):
        for _ in range(6 if ctx.thorough else 1):
            for _try in range(50):
                fmt, log = cc.gen_log(rng, fmt=fmt0, max_batches=5, max_recs=4)
                if len(log) == 5:
                    break
            else:
                continue
            for a in range(5):
                for b in range(a + 1, 6):
                    for f in range(max(0, log[a].base - 1), log[a].next):
                        todo.append((fmt, log[a:b], f))
                        n_exh += 1
    ctx.coverage["exhaustive_cuts"] = n_exh
    for i in range(n):
        fmt, log = cc.gen_log(rng)
        if not log:
            continue
        # a random cut [a, b) of the log and a fetch offset inside / before / at the first batch
        a = rng.randrange(0, len(log))
        b = rng.randrange(a + 1, len(log) + 1)
        first = log[a]
        f = rng.choice([first.base, first.next - 1, rng.randrange(first.base, first.next),
                        max(0, first.base - rng.randrange(0, 3))])
        todo.append((fmt, log[a:b], f))
    for fmt, resp, f in todo:
        first = resp[0]
        data = b"".join(x.raw for x in resp)
        iso = rng.choice([0, 1])
        try:
            pr = F.PartitionRecords(env.TP("t", 0), env.memrec.MemoryRecords(data), [], f, None, None, True, iso)
            offs = []
            foreign = None
            for m in pr:
                offs.append(m.offset)
                if m.value != cc.payload(m.offset) and foreign is None:
                    foreign = (m.offset, m.value)
            txt = (",".join(map(str, offs)) if offs else "-") + f" {pr.next_fetch_offset}"
            if foreign is not None:
                # something that is not a data record of the log (e.g. a transaction marker) was yielded
                txt += f" foreign-record@{foreign[0]}"
                ctx.violation("c03:non-data-record-delivered",
                              f"_unpack_records yielded a record at offset {foreign[0]} that is not a data record of the log "
                              f"(value {foreign[1]!r}); fetch offset {f}, isolation {iso}, batches {cc.batches_text(resp)[:200]}",
                              {"cases": [{"layer": "unpack", "fmt": fmt, "fetch_offset": f,
                                          "batches": cc.batches_text(resp), "isolation": iso}]})
        except HarnessError:
            raise
        except Exception as ex:  # noqa
            txt = f"exception:{type(ex).__name__}"
        lines.append(f"c03 unpack {f} {cc.batches_text(resp)}")
        impl.append(txt)
        meta.append({"layer": "unpack", "fmt": fmt, "fetch_offset": f, "batches": cc.batches_text(resp), "isolation": iso})
        hist[fmt] = hist.get(fmt, 0) + 1
        ctx.count(lines[-1], nontrivial=len(resp) >= 2 or f > first.base)
    return lines, impl, meta, hist


# ------------------------------------------------------------------------------------ layer 2
def parse_batches(txt, fmt):
    if txt in ("-", ""):
        return []
    out = []
    for item in txt.split("|"):
        base, nxt, skip, recs = item.split(":")
        ab = cc.AB(int(base), int(nxt), skip == "1", [] if recs == "_" else [int(x) for x in recs.split(".")], fmt)
        ab.raw = cc.encode_batch(ab)
        out.append(ab)
    return out


def flt_text(flt):
    return ".".join(map(str, flt)) if flt else "*"


class Chooser:
    """draws the next operation of a script, looking at the real objects to aim fetch answers"""

    def __init__(self, rng, long=False):
        self.rng = rng
        self.nparts = rng.choice([1, 1, 2, 3])
        self.policy = rng.choice([None, -1, -2])
        self.version = rng.randrange(0, 12)
        self.logs = [cc.gen_log(rng, max_batches=8, max_recs=5) for _ in range(self.nparts)]
        self.fmts = [f for f, _ in self.logs]
        self.n_ops = rng.randrange(4, 60 if long else 25)
        self.stale = [[] for _ in range(self.nparts)]
        self.unassigned = False
        self.queue = []
        for tp, (fmt, log) in enumerate(self.logs):
            if log and rng.random() < 0.85:
                b = rng.choice(log[:3])
                self.queue.append(f"{tp}@S{rng.choice([b.base, b.base, rng.randrange(b.base, b.next)])}")

    def __call__(self, rig, k):
        rng = self.rng
        if self.queue:
            return self.queue.pop(0)
        if k >= self.n_ops:
            return None
        tp = rng.randrange(self.nparts)
        fmt, log = self.logs[tp]
        c = rng.random()
        pos = rig.state(tp)._position
        if not self.unassigned and rng.random() < 0.5:
            # a partition without a valid position: let `_update_fetch_positions` make progress
            for i in rng.sample(range(self.nparts), self.nparts):
                st = rig.state(i)
                if st._position is None:
                    _, lg = self.logs[i]
                    lo, hi = (lg[0].base, lg[-1].next) if lg else (0, 0)
                    if st._reset_strategy is not None:
                        off = {-2: lo, -1: hi}.get(st._reset_strategy, lo)
                        return f"{i}@L{st._reset_strategy}@{rng.choice([off, off, rng.randrange(lo, hi + 1)])}"
                    v = rng.choice(["-", "-", str(rng.randrange(lo, hi + 1)), str(lo)])
                    return f"{i}@C{v}"
        if self.unassigned:
            c = rng.choice([0.1, 0.45, 0.55, 0.97])
        elif rng.random() < 0.6:
            # steer: answer a fetch where nothing is buffered, hand out where something is
            buffered = [i for i in range(self.nparts) if rig.tps[i] in rig.fetcher._records]
            if buffered and rng.random() < 0.7:
                c = rng.choice([0.4, 0.4, 0.6])
            else:
                cand = [i for i in range(self.nparts) if i not in buffered and rig.state(i)._position is not None]
                if cand:
                    tp = rng.choice(cand)
                    fmt, log = self.logs[tp]
                    pos = rig.state(tp)._position
                    c = 0.1
        if c < 0.30:
            if pos is None or (self.stale[tp] and rng.random() < 0.15):
                f = rng.choice(self.stale[tp]) if self.stale[tp] else rng.randrange(0, 5)
            else:
                f = pos
            k2 = rng.random()
            if k2 < 0.80:
                idx = next((i for i, b in enumerate(log) if b.next > f), len(log))
                if idx > 0 and rng.random() < 0.05:
                    idx -= 1                                   # a broker starting one batch early
                rest = log[idx:]
                resp = rest[:rng.randrange(1, 5)] if rest and rng.random() < 0.95 else []
                return f"{tp}@R{f}=D{cc.batches_text(resp)}"
            if k2 < 0.86:
                return f"{tp}@R{f}=L"
            if k2 < 0.93:
                return f"{tp}@R{f}=O"
            return f"{tp}@R{f}=X"
        if c < 0.52:
            flt = [] if rng.random() < 0.6 else sorted(rng.sample(range(self.nparts), rng.randrange(1, self.nparts + 1)))
            return "N" + flt_text(flt)
        if c < 0.70:
            flt = [] if rng.random() < 0.6 else sorted(rng.sample(range(self.nparts), rng.randrange(1, self.nparts + 1)))
            return f"M{rng.choice([0, 0, 1, 1, 2, 3, 5])}:" + flt_text(flt)
        if c < 0.82:
            if log and rng.random() < 0.85:
                b = rng.choice(log)
                x = rng.choice([b.base, b.next - 1, b.next, rng.randrange(b.base, b.next)])
            else:
                x = rng.randrange(0, 10)
            if pos is not None:
                self.stale[tp].append(pos)
            return f"{tp}@S{x}"
        if c < 0.85:
            if pos is not None:
                self.stale[tp].append(pos)
            return f"{tp}@T{rng.choice([-1, -2])}"
        if c < 0.91:
            return f"{tp}@P"
        if c < 0.96:
            return f"{tp}@U"
        if c < 0.985 or self.unassigned:
            return f"Q{tp}"
        self.unassigned = True
        self.queue = [f"{i}@Z" for i in range(1, self.nparts)]
        return "0@Z"


async def exec_op(env, rig, text, version, fmts):
    E = env.errors
    res = "ok"
    if text[0] == "N":
        flt = [] if text[1:] == "*" else [rig.tps[int(x)] for x in text[1:].split(".")]
        t = asyncio.ensure_future(rig.fetcher.next_record(flt))
        await cc.settle(4)
        if not t.done():
            t.cancel()
            await cc.settle(2)
            return "blocked"
        try:
            m = t.result()
            return f"rec:{m.partition}:{m.offset}"
        except AssertionError:
            return "assert"
        except E.KafkaError as ex:
            return f"raised:{_tp_of_error(env, ex)}:{cc.exc_code(ex)}"
        except Exception as ex:  # noqa: BLE001 - an internal error of the code under test is an observation
            return f"internal:{type(ex).__name__}"
    if text[0] == "M":
        mx, f = text[1:].split(":")
        flt = [] if f == "*" else [rig.tps[int(x)] for x in f.split(".")]
        try:
            d = await rig.fetcher.fetched_records(flt, 0, max_records=int(mx) or None)
            return "recs" + (":" + "/".join(f"{tp.partition}=" + ".".join(str(m.offset) for m in ms)
                                            for tp, ms in d.items()) if d else "")
        except AssertionError:
            return "assert"
        except E.KafkaError as ex:
            return f"raised:{_tp_of_error(env, ex)}:{cc.exc_code(ex)}"
        except Exception as ex:  # noqa: BLE001
            return f"internal:{type(ex).__name__}"
    if text[0] == "Q":
        p = rig.state(int(text[1:]))._position
        return "pos:" + ("-" if p is None else str(p))
    tp, op = text.split("@", 1)
    tp = int(tp)
    if op[0] == "R":
        f, what = op[1:].split("=", 1)
        f = int(f)
        if what[0] == "D":
            resp = parse_batches(what[1:], fmts[tp])
            row = (tp, 0, 1000, 1000, 0, [], b"".join(b.raw for b in resp))
        elif what == "L":
            raw = cc.encode_batch(cc.AB(f, f + 1, False, [f], fmts[tp]))
            row = (tp, 0, 1000, 1000, 0, [], raw[:-1])
        elif what == "O":
            row = (tp, 1, -1, -1, -1, None, b"")
        else:
            row = (tp, 6, -1, -1, -1, None, b"")
        respobj = cc.make_fetch_response(env, version, "t", [row])
        rig.client.auto = lambda node, req, r=respobj: r
        req = env.fetchproto.FetchRequest(100, 1, 1 << 20, 0, [("t", [(tp, f, 1 << 20)])])
        try:
            await rig.fetcher._proc_fetch_request(rig.assignment, 0, req)
        except AssertionError:
            res = "assert"
    elif op[0] == "L":
        # `_update_fetch_positions` for a partition that waits for a reset: the stub broker answers
        # the ListOffsets request at once with the given offset
        sent, off = op[1:].split("@")
        cls = env.offsetproto.OffsetResponse_v1
        rig.client.auto = lambda node, req, r=cls([("t", [(tp, 0, -1, int(off))])]): r
        await rig.fetcher._update_fetch_positions(rig.assignment, 0, [rig.tps[tp]])
    elif op[0] == "C":
        # … for a partition that waits for its committed offset: the coordinator delivers it, the
        # ListOffsets request that may follow stays unanswered
        rig.client.auto = None
        t = asyncio.ensure_future(rig.fetcher._update_fetch_positions(rig.assignment, 0, [rig.tps[tp]]))
        await cc.settle(3)
        v = -1 if op[1:] == "-" else int(op[1:])
        rig.state(tp).update_committed(env.structs.OffsetAndMetadata(v, ""))
        await cc.settle(4)
        if not t.done():
            t.cancel()
            await cc.settle(3)
        else:
            try:
                t.result()
            except AssertionError:
                res = "assert"
        for _n, _r, fut in rig.client.sends:
            if not fut.done():
                fut.cancel()
        rig.client.sends.clear()
    elif op[0] == "S":
        rig.fetcher.seek_to(rig.tps[tp], int(op[1:]))
    elif op[0] == "T":
        fut = rig.fetcher.request_offset_reset([rig.tps[tp]], int(op[1:]))
        fut.add_done_callback(lambda f: f.cancelled() or f.exception())
    elif op == "P":
        rig.subs.pause(rig.tps[tp])
    elif op == "U":
        rig.subs.resume(rig.tps[tp])
    elif op == "Z":
        if rig.assignment.active:
            rig.subs.assign_from_user(set(rig.tps))       # a new assignment object: the old one is revoked
    else:
        raise HarnessError(f"unknown op {text}")
    return res


async def exec_script(env, loop, nparts, policy, version, fmts, chooser):
    rig = cc.Rig(env, loop, nparts, policy)
    texts, out = [], []
    try:
        while True:
            text = chooser(rig, len(texts))
            if text is None:
                break
            out.append(await exec_op(env, rig, text, version, fmts))
            texts.append(text)
    finally:
        await rig.close()
    return texts, out


def _tp_of_error(env, ex):
    """which partition an error raised by next_record / fetched_records belongs to"""
    for x in ex.args:
        if isinstance(x, dict) and x:
            return next(iter(x)).partition
        if isinstance(x, env.TP):
            return x.partition
    return "?"


def fst_line(policy, nparts, texts):
    pol = "none" if policy is None else str(policy)
    return f"c03 fst 0 {pol} {nparts} " + (";".join(texts) if texts else "-")


def run_scripts(ctx, env, rng, n, replay=None):
    loop = asyncio.new_event_loop()
    asyncio.set_event_loop(loop)
    lines, impl, meta = [], [], []
    hist = {}
    try:
        todo = replay if replay is not None else range(n)
        for i in todo:
            if replay is not None:
                c = i
                it = iter(c["ops"])
                nparts, policy, version, fmts = c["nparts"], c["policy"], c["fetch_version"], c["formats"]
                chooser = lambda rig, k, it=it: next(it, None)   # noqa
            else:
                chooser = Chooser(rng, long=(i % 4 == 0))
                nparts, policy, version, fmts = chooser.nparts, chooser.policy, chooser.version, chooser.fmts
            texts, out = loop.run_until_complete(exec_script(env, loop, nparts, policy, version, fmts, chooser))
            lines.append(fst_line(policy, nparts, texts))
            impl.append(";".join(out))
            meta.append({"layer": "fst", "policy": policy, "nparts": nparts, "fetch_version": version,
                         "formats": fmts, "ops": texts})
            for o in out:
                k = o.split(":")[0]
                hist[k] = hist.get(k, 0) + 1
            ctx.count(lines[-1], nontrivial=sum(1 for o in out if o.startswith("rec")) >= 2)
    finally:
        loop.close()
        asyncio.set_event_loop(None)
    return lines, impl, meta, hist


# ------------------------------------------------------------------------------------ the check
def replay(ctx, env, guarded):
    """re-run the cases of a replay file: unpack inputs, Fetcher scripts, simulator plans"""
    cases = ctx.replay_cases
    lines, impl, meta = [], [], []
    F = env.fetcher
    for c in cases:
        if c.get("layer") == "unpack":
            resp = parse_batches(c["batches"], c["fmt"])
            data = b"".join(x.raw for x in resp)
            try:
                pr = F.PartitionRecords(env.TP("t", 0), env.memrec.MemoryRecords(data), [], c["fetch_offset"], None, None, True, c["isolation"])
                offs = [m.offset for m in pr]
                txt = (",".join(map(str, offs)) if offs else "-") + f" {pr.next_fetch_offset}"
            except Exception as ex:  # noqa
                txt = f"exception:{type(ex).__name__}"
            lines.append(f"c03 unpack {c['fetch_offset']} {c['batches']}"); impl.append(txt); meta.append(c)
    scripts = [c for c in cases if c.get("layer") == "fst"]
    if scripts:
        l2 = run_scripts(ctx, env, None, 0, replay=scripts)
        lines += l2[0]; impl += l2[1]; meta += l2[2]
    res = ctx.driver("akdriver", lines) if lines else []
    for i in range(len(lines)):
        if res[i] != impl[i]:
            sig = "c03:unpack-differs" if meta[i]["layer"] == "unpack" else "c03:handout-differs"
            ctx.violation(sig, f"{meta[i]['layer']}: implementation {impl[i][:160]} required {res[i][:160]}",
                          {"cases": [meta[i]], "observed": impl[i], "required": res[i], "line": lines[i]})
    cons_sim.replay(ctx, env, cases, "c03", guarded)


def run(ctx):
    logging.disable(logging.CRITICAL)
    ctx.coverage["trusted_base"] = [
        "Lean 4.33.0 kernel; axioms propext, Classical.choice, Quot.sound only",
        "harness/checks/cons_common.py: the encoders of abstract logs (v0/v1/v2 record bytes), the probe that "
        "records events and snapshots of the real objects, the line protocol and driver glue Driver/ConsumeIO.lean",
        "the record decoders (MemoryRecords / DefaultRecordBatch / LegacyRecordBatch, compiled) are exercised for "
        "real but their correctness is C09/C10's subject; one wire format per response (mixed magic is C09 finding #3)",
        "which batches of a read_committed response are skipped as aborted is C08's subject: here only control "
        "batches are skipped",
        "harness/sim (SimCluster, virtual-time loop): broker behaviour as in DESIGN.md Appendix F; a Fetch answer is "
        "a non-empty run of whole batches starting at the batch that contains the fetch offset",
        "the code between two probe points of the real consumer is covered by the traces only",
    ]
    ctx.assumptions += [
        "c03_progress_partial: 'delivery continues to the end of the log once faults cease' is proved for the "
        "model's fetch/drain iteration under a broker that answers every fetch with at least one batch; on the "
        "implementation it is a bounded virtual-time run per trace (exploration)",
    ]
    proved = ctx.prove(drivers=["akdriver"])
    env = cc.Env(ctx.repo)
    # which variant of `_update_fetch_positions` is this tree (see Props/C13.lean)?
    from . import c13
    loop = asyncio.new_event_loop()
    asyncio.set_event_loop(loop)
    try:
        guarded, _, _ = c13.detect_variant(env, loop)
    finally:
        loop.close()
        asyncio.set_event_loop(None)
    ctx.coverage["listoffsets_answer_checked_against_requested_strategy"] = guarded
    if ctx.replay_cases is not None:
        return replay(ctx, env, guarded)
    rng = ctx.rng("unpack")
    l1 = run_unpack(ctx, env, rng, 150000 if ctx.thorough else 1500)
    l2 = run_scripts(ctx, env, ctx.rng("scripts"), 100000 if ctx.thorough else 1200)
    lines = l1[0] + l2[0]
    impl = l1[1] + l2[1]
    meta = l1[2] + l2[2]
    res = ctx.driver("akdriver", lines)
    ctx.coverage["unpack_formats"] = l1[3]
    ctx.coverage["script_outcomes"] = l2[3]
    mism = [i for i in range(len(lines)) if res[i] != impl[i]]
    for i in (0, len(l1[0]), len(lines) - 1):
        if 0 <= i < len(lines):
            ctx.sample({"line": lines[i][:300], "impl": impl[i][:200], "model": res[i][:200]})
    ok_sim = cons_sim.run_c03(ctx, env, None, guarded)
    ctx.coverage["rule"] = (
        "unpack: random cut of a generated log (≤12 batches × ≤6 records, 8 format families, gaps / empty / control "
        "batches) and a fetch offset before / at / inside the first batch; non-trivial = ≥2 batches or offset inside "
        "the first batch.  fst: scripts of 4..60 operations over 1..3 partitions on the real Fetcher, Fetch v0..v11 "
        "responses; non-trivial = ≥2 records handed out.  acc: exact-tie schedules (co-arriving fetch answers of two "
        "brokers while getone() is blocked) then random simulator traces (40 % with appends landing on another broker's "
        "long-poll deadline), non-trivial = ≥5 records "
        "delivered and ≥1 seek or pause.  distinct by canonical input text")
    if not mism and proved and ok_sim:
        return
    for i in mism[:50]:
        if impl[i].startswith("exception"):
            ctx.violation("c03:decoder-exception", f"{lines[i][:200]} -> {impl[i]}", {"cases": [meta[i]], "observed": impl[i], "model": res[i]})
            return
    if mism:
        i = mism[0]
        ctx.broken.append({"kind": "correspondence", "tie": f"T-diff c03 {meta[i]['layer']} (real Fetcher classes vs AkVerif.Consume)",
                           "mismatches": len(mism), "first": {"line": lines[i][:600], "impl": impl[i][:400], "model": res[i][:400]}})
        # the model's answer IS what the property requires of this input (c03_unpack / c03_run_*):
        # a differing hand-out is a concrete failing input
        sig = "c03:unpack-differs" if meta[i]["layer"] == "unpack" else "c03:handout-differs"
        first_diff = next((k for k, (a, b) in enumerate(zip(impl[i].split(";"), res[i].split(";"))) if a != b), None)
        ctx.violation(sig, f"{meta[i]['layer']}: implementation {impl[i][:160]} required {res[i][:160]} (first differing op #{first_diff})",
                      {"cases": [meta[i]], "observed": impl[i], "required": res[i], "line": lines[i]})
