"""C19 - stop() always terminates within a bound and leaves nothing running.

Proof: Props/C19.lean (shutdown as a program over wait points with an adversarial environment:
bounded for the consumer and the plain producer, every loop that can be reached while closing makes
at most one attempt; resources: everything the client created is released; later calls fail;
closing phase of the member automaton `AkVerif.Membership`: no coordinator lookup and no commit retry
once closing, LeaveGroup attempted whenever the member is in a generation and knows its
coordinator).  `_partial` for the idempotent/transactional producer, whose batches never expire
(kernel-checked unbounded witness, KNOWN-FINDING).
Tie: T-trace - real producers / consumers on the simulator, `stop()` issued after every k-th
trace event of a workload with the cluster healthy, partly unreachable or failing over; observed:
virtual time `stop()` took (against the Lean bound), tasks / timers / transports created by that
client and still alive (attributed by a context variable), what later calls raise, whether the
member left, and - for group consumers - the member's own history through the Lean acceptor.
"""
import asyncio
import contextvars
import logging
import re

from vlib import HarnessError
from checks.member_common import OWNER, Env, member_tokens, owned, describe_task, describe_timer, corpus_cases

BOOT = "b0:9092,b1:9092,b2:9092"
RT = 3000              # request_timeout_ms
BACKOFF = 100
SESSION = 6000
REBALANCE = 2500       # < request timeout
NODES = 3
KINDS = ["prod", "iprod", "group", "group_manual", "group2", "group_f", "simple", "simple_sub"]
CONDS = ["healthy", "dead0", "dead1", "deadall", "failover", "coord_lost", "err16", "lose_reply",
         "auth_commit", "auth_hb", "auth_fetch"]
# a non-retriable coordination error is handed to the application, which calls stop() without polling again
AUTH_CONDS = {"auth_commit": "OffsetCommit", "auth_hb": "Heartbeat", "auth_fetch": "OffsetFetch"}
# start() itself raises that error (the fault is there from the beginning); stop() follows k/4 s later
AUTHFAIL_KINDS = {"group_authfind": "FindCoordinator", "group_authjoin": "JoinGroup"}
# the member's next SyncGroup is answered with this code; stop() is called k trace events after that reply,
# i.e. before the member has re-joined
SYNC_CONDS = {"sync27": 27, "sync16": 16, "sync15": 15}
GROUP_AUTHORIZATION_FAILED = 30


def make_client(env, kind, cid):
    K = env.aiokafka
    if kind == "prod":
        return K.AIOKafkaProducer(bootstrap_servers=BOOT, client_id=cid, request_timeout_ms=RT, linger_ms=5,
                                  retry_backoff_ms=BACKOFF, metadata_max_age_ms=2000)
    if kind == "iprod":
        return K.AIOKafkaProducer(bootstrap_servers=BOOT, client_id=cid, request_timeout_ms=RT, linger_ms=5,
                                  retry_backoff_ms=BACKOFF, enable_idempotence=True, metadata_max_age_ms=2000)
    if kind in ("group", "group2", "group_manual", "group_f") or kind in AUTHFAIL_KINDS:
        return K.AIOKafkaConsumer(
            "t", bootstrap_servers=BOOT, client_id=cid, group_id="g", auto_offset_reset="earliest",
            enable_auto_commit=(kind != "group_manual"),
            request_timeout_ms=RT, session_timeout_ms=SESSION, heartbeat_interval_ms=400,
            auto_commit_interval_ms=700, rebalance_timeout_ms=REBALANCE, retry_backoff_ms=BACKOFF,
            metadata_max_age_ms=2000)
    if kind == "simple":
        return K.AIOKafkaConsumer(bootstrap_servers=BOOT, client_id=cid, auto_offset_reset="earliest",
                                  request_timeout_ms=RT, retry_backoff_ms=BACKOFF, metadata_max_age_ms=2000)
    if kind == "simple_sub":
        return K.AIOKafkaConsumer("t", bootstrap_servers=BOOT, client_id=cid, auto_offset_reset="earliest",
                                  request_timeout_ms=RT, retry_backoff_ms=BACKOFF, metadata_max_age_ms=2000)
    raise HarnessError(kind)


def is_producer(kind):
    return kind in ("prod", "iprod")


def is_group(kind):
    return kind in ("group", "group2", "group_manual", "group_f") or kind in AUTHFAIL_KINDS


def apply_cond(cond, cluster, S, cid):
    if cond == "healthy":
        return
    if cond == "dead0":
        cluster.kill_node(0)
    elif cond == "dead1":
        cluster.kill_node(1)
    elif cond == "deadall":
        for i in range(NODES):
            cluster.kill_node(i)
    elif cond == "failover":
        n = cluster.coordinator_for("group", "g")
        cluster.move_coordinator("group", "g", (n + 1) % NODES, keep_state=True)
        cluster.kill_node(n, migrate_leaders=True)
    elif cond == "coord_lost":
        n = cluster.coordinator_for("group", "g")
        cluster.move_coordinator("group", "g", (n + 1) % NODES, keep_state=False)
    elif cond == "err16":
        cluster.faults.add(S.Fault("error", api="Heartbeat", code=16, client=cid))
        cluster.faults.add(S.Fault("error", api="Produce", code=6, client=cid))
    elif cond == "lose_reply":
        cluster.faults.add(S.Fault("lose_reply", client=cid, count=2))
    elif cond in AUTH_CONDS:
        cluster.faults.add(S.Fault("error", api=AUTH_CONDS[cond], code=GROUP_AUTHORIZATION_FAILED, client=cid, count=None))
    elif cond in SYNC_CONDS:
        pass            # installed when start() has returned, see scenario()
    else:
        raise HarnessError(cond)


async def usleep(dt):
    """the user's own sleep: its timer is not something the client created"""
    who = OWNER.get()
    OWNER.set("user")
    try:
        await asyncio.sleep(dt)
    finally:
        OWNER.set(who)


async def workload(env, kind, cl, cluster, aux, user):
    """what the user does with the client; runs until done or until the client is stopped"""
    sim = env.sim
    if is_producer(kind):
        for i in range(36):
            await cl.send("t", b"r%d" % i, partition=i % 3, timestamp_ms=sim.now_ms())
            if i % 6 == 0:
                await usleep(0.02)
        await cl.flush()
        await usleep(0.3)
        return
    if kind == "simple":
        cl.assign([env.aiokafka.TopicPartition("t", p) for p in range(3)])
    t_end = cluster.now() + 3.2
    started2 = False
    n = 0
    while cluster.now() < t_end:
        if kind in ("group2", "group_f") and not started2 and cluster.now() > t_end - 2.4:
            started2 = True
            c2 = make_client(env, "group", "aux")
            aux["client"] = c2
            ctx = contextvars.copy_context()

            async def start2():
                OWNER.set("aux")
                await c2.start()
            aux["task"] = ctx.run(lambda: asyncio.get_running_loop().create_task(start2()))
        got = await cl.getmany(timeout_ms=100)
        n += sum(len(v) for v in got.values())
        if kind == "group_manual" and n and n % 7 == 0:
            env.mark(cl._client._client_id, "P")
            user["commits"] = user.get("commits", 0) + 1
            try:
                await cl.commit()
            except env.errors.KafkaError as e:
                user.setdefault("commit_errors", []).append(type(e).__name__)


async def scenario(env, cluster, kind, cond, k, delta, out):
    S = env.sim
    loop = asyncio.get_running_loop()
    cid = "c"
    # tag transports with the owner of the task that opened them
    orig_cc = loop.create_connection

    async def create_connection(*a, **kw):
        tr, pr = await orig_cc(*a, **kw)
        tr.akverif_owner = OWNER.get()
        return tr, pr
    loop.create_connection = create_connection
    if not is_producer(kind):
        OWNER.set("pre")
        p = env.aiokafka.AIOKafkaProducer(bootstrap_servers=BOOT, client_id="pre")
        await p.start()
        for i in range(30):
            await p.send("t", b"x%d" % i, partition=i % 3, timestamp_ms=S.now_ms())
        await p.stop()
    aux, user = {}, {}
    if kind == "group_f":
        # another member is there first (and leads the group): the client under test is a follower
        OWNER.set("aux0")
        aux["client0"] = make_client(env, "group", "aux0")
        await aux["client0"].start()
        OWNER.set("pre")
    if kind in AUTHFAIL_KINDS:
        cluster.faults.add(S.Fault("error", api=AUTHFAIL_KINDS[kind], code=GROUP_AUTHORIZATION_FAILED, client=cid, count=None))
    trig = asyncio.Event()
    st = {"base": None, "cond": False, "hit": None}
    orig_ev = cluster._ev
    sync_code = SYNC_CONDS.get(cond)

    def ev(name, **kw):
        orig_ev(name, **kw)
        if k is None or st["base"] is None:
            return
        if sync_code is not None:
            if st["hit"] is None:
                if (name == "reply" and kw.get("api") == "SyncGroup" and kw.get("client") == cid
                        and (kw.get("fields") or {}).get("error_code") == sync_code):
                    st["hit"] = len(cluster.trace)
                    loop.call_later(2.0, trig.set, context=contextvars.Context())
                else:
                    return
            if len(cluster.trace) - st["hit"] >= k:
                trig.set()
            return
        n = len(cluster.trace) - st["base"]
        if not st["cond"] and n >= k - delta:
            st["cond"] = True
            # never from inside a broker callback; in an empty context (not the client's timers)
            loop.call_soon(apply_cond, cond, cluster, S, cid, context=contextvars.Context())
            # with the cluster disturbed the trace may never reach k events: stop after 2 s then
            loop.call_later(2.0, trig.set, context=contextvars.Context())
        if n >= k:
            trig.set()
    cluster._ev = ev
    harness_tasks = []
    box = {}

    async def user_main():
        OWNER.set(cid)
        cl = box["cl"] = make_client(env, kind, cid)
        try:
            try:
                await cl.start()
            except env.errors.KafkaError as e:
                box["start_failed"] = type(e).__name__
                out["work"] = "start-raised:" + type(e).__name__
                return
            st["base"] = len(cluster.trace)
            box["started"] = True
            if sync_code is not None:
                st["cond"] = True
                cluster.faults.add(S.Fault("error", api="SyncGroup", code=sync_code, client=cid))
            elif k == 0:
                st["cond"] = True
                loop.call_soon(apply_cond, cond, cluster, S, cid)
                trig.set()
            await workload(env, kind, cl, cluster, aux, user)
            out["work"] = "done"
        except (env.errors.ConsumerStoppedError, env.errors.ProducerClosed) as e:
            out["work"] = type(e).__name__
        except env.errors.KafkaError as e:
            out["work"] = "kafka:" + type(e).__name__
    ctx = contextvars.copy_context()
    wt = ctx.run(lambda: loop.create_task(user_main()))
    tw = loop.create_task(trig.wait())
    harness_tasks += [wt, tw]
    await asyncio.wait([wt, tw], return_when=asyncio.FIRST_COMPLETED)
    tw.cancel()
    cl = box.get("cl")
    if box.get("start_failed"):
        # the usual `try: await consumer.start() ... finally: await consumer.stop()`: no further poll
        out["start_failed"] = box["start_failed"]
        st["base"] = len(cluster.trace)
        st["cond"] = True
        if k:
            await asyncio.sleep(0.25 * k)
    elif not box.get("started"):
        out["skip"] = "start() did not return"
        wt.cancel()
        cluster._ev = orig_ev
        return
    if sync_code is not None and st["hit"] is None:
        out["skip"] = "no SyncGroup of the member was answered with the injected code"
        wt.cancel()
        for c0 in (aux.get("client0"), aux.get("client")):
            if c0 is not None:
                try:
                    await asyncio.wait_for(c0.stop(), 60)
                except (Exception, asyncio.CancelledError):  # noqa: BLE001
                    pass
        try:
            await asyncio.wait_for(cl.stop(), 60)
        except (Exception, asyncio.CancelledError):  # noqa: BLE001
            pass
        cluster._ev = orig_ev
        return
    out["events"] = len(cluster.trace) - st["base"]
    if not st["cond"]:
        st["cond"] = True
        apply_cond(cond, cluster, S, cid)
    await asyncio.sleep(0)
    g0 = cluster.group("g") if is_group(kind) else None
    out["member_before"] = bool(g0 and any(m["client"] == cid for m in g0["members"].values()))
    if is_group(kind):
        co = cl._coordinator
        out["coord_known_at_stop"] = co.coordinator_id
        out["generation_at_stop"] = co.generation
    t0 = cluster.now()
    n0 = len(cluster.trace)

    def coord_ok():
        n = out.get("coord_known_at_stop")
        if not is_group(kind) or n is None or not isinstance(n, int) or not (0 <= n < NODES):
            return False
        node = cluster.nodes[n]
        # judged against the coordinator's member table (member_before / member_after), not against
        # what the client believes its generation is
        # (an injected NOT_COORDINATOR / COORDINATOR_NOT_AVAILABLE tells the member that this node is not
        # its coordinator: it may not look for another one while closing, so nothing is owed then)
        return (node.up and cluster.coordinator_for("group", "g") == n and SYNC_CONDS.get(cond) not in (15, 16)
                and not any(c.blackholed for c in node.conns if c.client_id == cid) and not cluster.faults.active)
    reach0 = coord_ok()
    if is_group(kind):
        env.mark(cid, "Z")

    async def do_stop():
        OWNER.set(cid)
        await cl.stop()
    sctx = contextvars.copy_context()
    stask = sctx.run(lambda: loop.create_task(do_stop()))
    harness_tasks.append(stask)
    try:
        await stask
        out["stop"] = "returned"
        if is_group(kind):
            env.mark(cid, "z")
    except (Exception, asyncio.CancelledError) as e:  # noqa: BLE001
        out["stop"] = "raised:" + type(e).__name__
    out["stop_ms"] = int((cluster.now() - t0) * 1000 + 0.5)
    # environment during stop (for "could reach its coordinator")
    during = cluster.trace[n0:]
    out["faults_during_stop"] = sum(1 for e in during if e["ev"] == "fault" and e.get("client") == cid)
    out["reachable"] = bool(reach0 and coord_ok() and out["faults_during_stop"] == 0)
    out["leave_seen"] = any(e["ev"] == "group" and e["op"] == "leave" and e["outcome"] == 0 for e in during)
    for _ in range(10):
        await asyncio.sleep(0)
    # ---- what is left of that client
    tasks, timers = owned(loop, cid, S.vloop.SimCall)
    tasks = [t for t in tasks if t not in harness_tasks]

    def waiter_task(h):
        """the task a sleep / wait timeout timer will wake up"""
        for a in (h._args or ()):
            for cb in (getattr(a, "_callbacks", None) or ()):
                t = getattr(cb[0] if isinstance(cb, tuple) else cb, "__self__", None)
                if isinstance(t, asyncio.Task):
                    return t
        return None
    # a call of the user that is still pending (its task is the user's) may be sleeping inside the library
    timers = [h for h in timers if waiter_task(h) not in harness_tasks]
    out["left_tasks"] = sorted(describe_task(t, S.vloop.await_chain) for t in tasks)
    out["left_timers"] = sorted(describe_timer(h) for h in timers)
    out["left_transports"] = sorted(f"node{t.node.id}" for t in loop.transports
                                    if not t.closing and (t.client_id == cid or getattr(t, "akverif_owner", None) == cid))
    out["loop_errors"] = [re.sub(r" at 0x[0-9a-f]+", "", x)[:160] for x in loop.unhandled]
    # ---- later calls
    later = {}

    async def call(name, coro_fn):
        try:
            await asyncio.wait_for(coro_fn(), 30)
            later[name] = "no-error"
        except asyncio.TimeoutError:
            later[name] = "hang"
        except Exception as e:  # noqa: BLE001
            later[name] = type(e).__name__
    if is_producer(kind):
        await call("send", lambda: cl.send("t", b"late", partition=0, timestamp_ms=1))
        await call("send_new_topic", lambda: cl.send("never-seen", b"late", timestamp_ms=1))
        await call("send_and_wait", lambda: cl.send_and_wait("t", b"late", partition=0, timestamp_ms=1))
    else:
        await call("getone", lambda: cl.getone())
        await call("getmany", lambda: cl.getmany(timeout_ms=10))

        async def it():
            async for _ in cl:
                return
        try:
            await asyncio.wait_for(it(), 30)
            later["aiter"] = "no-error"
        except Exception as e:  # noqa: BLE001
            later["aiter"] = type(e).__name__
    out["later"] = later
    if not wt.done():
        try:
            await asyncio.wait_for(wt, 30)
        except (Exception, asyncio.CancelledError) as e:  # noqa: BLE001
            out["work"] = "pending-call-stuck:" + type(e).__name__
    g1 = cluster.group("g") if is_group(kind) else None
    out["member_after"] = bool(g1 and any(m["client"] == cid for m in g1["members"].values()))
    out["user"] = user
    cluster._ev = orig_ev
    # ---- teardown of the helpers
    for i in range(NODES):
        cluster.revive_node(i)
    cluster.faults.clear()
    t = aux.get("task")
    if t is not None and not t.done():
        t.cancel()
        try:
            await t
        except (Exception, asyncio.CancelledError):  # noqa: BLE001
            pass
    for c2 in (aux.get("client"), aux.get("client0")):
        if c2 is not None:
            try:
                await asyncio.wait_for(c2.stop(), 60)
            except (Exception, asyncio.CancelledError):  # noqa: BLE001
                pass


def run_one(env, kind, cond, k, delta, seed, max_vt=240.0):
    S = env.sim
    cluster = S.SimCluster(nodes=NODES, topics={"t": 3}, seed=seed)
    out = {"kind": kind, "cond": cond, "k": k, "delta": delta, "seed": seed}
    log = env.install_probe(lambda: int(cluster.now() * 1000 + 0.5))
    try:
        S.run(scenario(env, cluster, kind, cond, k, delta, out), cluster, max_vt=max_vt, grace=20)
        out["res"] = "ok"
    except S.SimTimeout as e:
        out["res"] = "hang"
        out["max_vt"] = max_vt
        out["hang_tasks"] = [re.sub(r"^Task-\d+:", "", t) for t in (cluster.leftover or {}).get("tasks", [])]
        out["where"] = [re.sub(r"\\(.*?:(\\d+)\\)", r"", w) for w in (e.where or ["?"])[-3:]]
        out["stop"] = out.get("stop", "hang")
    if is_group(kind):
        out["tokens"] = member_tokens(log.get("c", []))
    return out, cluster


EXPECT_LATER = {
    "getone": "ConsumerStoppedError", "getmany": "ConsumerStoppedError", "aiter": "ConsumerStoppedError",
    "send": "ProducerClosed", "send_new_topic": "ProducerClosed", "send_and_wait": "ProducerClosed",
}
KNOWN_IDEM = "c19:idempotent-producer-stop-unbounded"


def judge(out, bounds):
    """the clauses of C19 on one observed stop() -> list of (signature, text)"""
    kind, bad = out["kind"], []
    tag = f"{kind}/{out['cond']} k={out['k']} d={out['delta']}"
    if out.get("res") == "hang" or out.get("stop") == "hang":
        tasks = " ".join(out.get("hang_tasks", []))
        if kind in ("iprod", "txprod") and "MessageAccumulator.close" in tasks:
            bad.append((KNOWN_IDEM, f"{tag}: producer.stop() of an idempotent producer did not return within "
                                    f"{out.get('max_vt')} virtual s: an unsent batch never expires"))
        else:
            bad.append((f"c19:stop-hang:{kind}", f"{tag}: stop() did not return within {out.get('max_vt')} virtual s; "
                                                f"waiting in {out.get('where')}"))
        return bad
    if out.get("stop") != "returned":
        bad.append((f"c19:stop-raised:{out.get('stop')}", f"{tag}: stop() raised instead of returning: {out.get('stop')}"))
    bound = bounds["producer" if is_producer(kind) else "consumer"]
    if kind != "iprod" and out.get("stop_ms", 0) > bound:
        bad.append((f"c19:stop-over-bound:{kind}", f"{tag}: stop() took {out['stop_ms']} ms, bound {bound} ms"))
    if kind == "iprod" and out.get("stop_ms", 0) > bound:
        bad.append((KNOWN_IDEM, f"{tag}: stop() of the idempotent producer took {out['stop_ms']} ms (plain producer bound {bound})"))
    for what in ("left_tasks", "left_timers", "left_transports"):
        if out.get(what):
            first = re.sub(r"[^A-Za-z_.]", "", out[what][0].split(" @")[0])[:40]
            bad.append((f"c19:{what.replace('_', '-')}:{first}",
                        f"{tag}: after stop() returned still alive: tasks {out.get('left_tasks')} timers "
                        f"{out.get('left_timers')} transports {out.get('left_transports')}"))
            break
    for name, got in (out.get("later") or {}).items():
        if got != EXPECT_LATER[name]:
            bad.append((f"c19:later-call:{name}:{got}", f"{tag}: {name}() after stop() gave {got}, documented {EXPECT_LATER[name]}"))
    if is_group(kind) and out.get("member_before") and out.get("reachable") and out.get("member_after"):
        bad.append(("c19:did-not-leave-group", f"{tag}: the member was in generation {out.get('generation_at_stop')}, its "
                                               f"coordinator (node {out.get('coord_known_at_stop')}) was reachable during the "
                                               f"whole stop(), yet it is still a member of the group"))
    return bad


def run(ctx):
    import collections
    logging.disable(logging.CRITICAL)
    ctx.coverage["trusted_base"] = [
        "Lean 4.33.0 kernel; axioms propext, Classical.choice, Quot.sound only",
        "harness/sim (simulated cluster, virtual-time loop): a hang is 'virtual time passed max_vt'",
        "attribution of tasks / timers / transports to the client by a context variable set in the tasks that drive it",
        "Model/Shutdown.lean: the list of wait points of stop() and their bounds is a transcription of the code; it is "
        "tied to the implementation by the measured duration (<= the Lean bound), by the leftovers, and for group "
        "consumers by the closing phase of the member acceptor (no lookup / no commit retry while closing, LeaveGroup "
        "attempted iff due); assumed: MEMBER_ID_REQUIRED is answered at most once per rejoin, user callbacks return at once",
        "leaked OS resources other than tasks, timers and transports are not observable",
    ]
    ctx.assumptions += [
        "c19_producer_stop_bounded_partial: only the plain producer; idempotent / transactional batches never expire "
        "(c19_idempotent_producer_stop_unbounded, KNOWN-FINDING)",
        "stop() concurrent with a start() that has not returned yet is not explored (skipped)",
        "'could reach its coordinator' = the node the member knew as coordinator when stop() was called stayed up, "
        "stayed the group's coordinator, and no fault hit the member's requests during stop()",
    ]
    proved = ctx.prove(drivers=["akdriver"])
    env = Env(ctx.repo)
    b = ctx.driver("akdriver", [f"c19 bound consumer {RT} {BACKOFF} {NODES}", f"c19 bound producer {RT} {BACKOFF} {NODES}"])
    bounds = {"consumer": int(b[0]), "producer": int(b[1])}
    ctx.coverage["lean_bounds_ms"] = bounds
    hist = collections.Counter()
    stop_ms = collections.defaultdict(int)
    runs = []
    if ctx.replay_cases is not None:
        plan = [(c["kind"], c["cond"], c["k"], c["delta"], c.get("seed", ctx.seed)) for c in ctx.replay_cases if "kind" in c]
    else:
        plan = [(c["kind"], c["cond"], c["k"], c["delta"], c.get("seed", 1)) for c in corpus_cases("C19", None)]
        step = 1 if ctx.thorough else 6
        deltas = (0, 3, 6, 12) if ctx.thorough else (0, 6)
        seeds = [ctx.seed, ctx.seed + 100] if ctx.thorough else [ctx.seed]
        for seed in seeds:
            if seed != ctx.seed:
                step = 4
            for kind in AUTHFAIL_KINDS:
                for j in range(0, 3):
                    plan.append((kind, "healthy", j, 0, seed))
            for kind in KINDS:
                base, _ = run_one(env, kind, "healthy", None, 0, seed)
                n = base.get("events", 0)
                ctx.coverage.setdefault("events_per_workload", {})[f"{kind}/{seed}"] = n
                runs.append(base)
                if is_group(kind) and kind in ("group2", "group_f"):
                    for cond in SYNC_CONDS:
                        for j in range(0, 8):
                            plan.append((kind, cond, j, 0, seed))
                for cond in CONDS:
                    if cond in ("coord_lost", "err16") and not is_group(kind) and not is_producer(kind):
                        continue
                    if cond in AUTH_CONDS and not is_group(kind):
                        continue
                    if kind == "group_f" and cond not in ("healthy", "dead0", "deadall", "failover", "auth_commit"):
                        continue        # the follower differs from `group2` only in who leads the group
                    # a pushed error must be there before stop() is called
                    for delta in ((6, 12) if ctx.thorough else (6,)) if cond in AUTH_CONDS else deltas:
                        for k in range((seed + delta) % step, n + 1, step):
                            plan.append((kind, cond, k, delta, seed))
    lines, line_of = [], []
    for (kind, cond, k, delta, seed) in plan:
        out, cluster = run_one(env, kind, cond, k, delta, seed)
        if out.get("skip"):
            hist["skipped:start-in-flight"] += 1
            continue
        runs.append(out)
        if is_group(kind):
            lines.append("c06 run roundrobin " + (";".join(out["tokens"]) if out["tokens"] else "-"))
            line_of.append(out)
    res = ctx.driver("akdriver", lines) if lines else []
    for out, line, r in zip(line_of, lines, res):
        out["acceptor"] = r
        if r == "bad-op":
            raise HarnessError("driver could not parse: " + line[:300])
    n_pending_send = n_pending_get = 0
    for out in runs:
        if out.get("k") is None:
            out["k"] = -1
        verdicts = judge(out, bounds)
        case = {"kind": out["kind"], "cond": out["cond"], "k": out["k"] if out["k"] >= 0 else None, "delta": out["delta"],
                "seed": out["seed"]}
        obs = {k: v for k, v in out.items() if k not in ("tokens",)}
        for sig, text in verdicts:
            ctx.violation(sig, text, {"cases": [case], "observation": obs})
        r = out.get("acceptor")
        if r is not None:
            hist["acceptor:" + r.split(" ")[0].split("@")[0]] += 1
            if r.startswith("reject@"):
                toks = out["tokens"]
                at = int(r.split("@")[1].split(" ")[0])
                ctx.broken.append({"kind": "correspondence", "tie": "T-trace c19 (closing phase vs AkVerif.Membership acceptor)",
                                   "case": case, "rejected_event_index": at, "context": toks[max(0, at - 8):at + 2]})
                ctx.violation("c19:member-left-the-model:" + (toks[at].split(":")[1] if ":" in toks[at] else toks[at]),
                              f"{out['kind']}/{out['cond']} k={out['k']}: the member's history around stop() is not a behaviour "
                              f"of the member automaton at event {at} ({toks[at]}): lookup or commit retry while closing, "
                              f"request after LeaveGroup, or stop() returned without the LeaveGroup that was due",
                              {"cases": [case], "history": toks, "rejected_at": at})
        hist[f"{out['kind']}:{out.get('stop', out.get('res'))}"] += 1
        hist[f"cond:{out['cond']}"] += 1
        if is_group(out["kind"]):
            hist["left-group:" + ("n/a" if not out.get("member_before") else
                                  ("left" if not out.get("member_after") else
                                   ("stayed-unreachable" if not out.get("reachable") else "stayed")))] += 1
        if str(out.get("work", "")).startswith("pending-call-stuck"):
            # a call of the user that was pending when stop() was called and never ended: not a
            # clause of C19 (the task is the user's), reported in the evidence
            if is_producer(out["kind"]):
                n_pending_send += 1
            else:
                n_pending_get += 1
        stop_ms[out["kind"]] = max(stop_ms[out["kind"]], out.get("stop_ms") or 0)
        ctx.count((out["kind"], out["cond"], out["k"], out["delta"], out["seed"]), nontrivial=out["cond"] != "healthy" or out["k"] >= 0)
    ctx.coverage["rule"] = ("one case = (workload, cluster condition, k, delta, seed): stop() called when the k-th trace event "
                            "after start() returned is recorded, the condition applied delta events earlier; workloads: plain / "
                            "idempotent producer, group consumer with and without auto-commit, group consumer during a "
                            "rebalance (second member joins), group-less consumer with assign() / subscribe(); conditions: "
                            "healthy, one node dead (x2), all dead, coordinator failover, coordinator moved without state, "
                            "NOT_COORDINATOR/NOT_LEADER answers, lost replies. non-trivial = not the undisturbed full run")
    ctx.coverage["traces_validated_against_impl"] = len(lines)
    ctx.coverage["stops_observed"] = len(runs)
    ctx.coverage["outcomes"] = dict(hist)
    ctx.coverage["max_stop_ms_observed"] = dict(stop_ms)
    ctx.coverage["pending_producer_send_left_waiting"] = n_pending_send
    ctx.coverage["pending_getmany_left_waiting_mid_rebalance"] = n_pending_get
    for out in runs[:2] + runs[len(runs) // 2: len(runs) // 2 + 2]:
        ctx.sample({k: v for k, v in out.items() if k in ("kind", "cond", "k", "delta", "stop", "stop_ms", "later",
                                                         "member_before", "member_after", "reachable", "acceptor")})
