"""C08 — isolation filter: no aborted, no unstable, no control records delivered.

Proof: Props/C08.lean (c08_read_committed, c08_read_uncommitted, c08_no_control_ever,
c08_position, c08_progress, c08_session, c08_truth_sorted, ...) about the model `AkVerif.Iso`
(Model/Iso.lean) of `PartitionRecords._unpack_records` + the broker side it is fed by.

Tie: T-diff on the real synchronous classes `aiokafka.consumer.fetcher.PartitionRecords` and
`FetchResult`.  The harness generates abstract partition logs (<= 4 transactional producers with
interleaved committed / aborted / open transactions, plain and idempotent batches, solitary
markers, offset gaps, compaction: removed records, removed batches, emptied batches, removed or
emptied markers), plays broker (`Env` of DESIGN appendix F: batches with last offset >= fetch
offset, cut at a batch boundary, bounded by LSO / HW, aborted-transaction index in any order,
optional extra entries), encodes every response as real v2 record batches, feeds them to the real
classes (compiled and pure-Python batch readers) through whole consumer sessions (getall / getone
/ getmany(max_records) / buffer dropped mid-response and re-fetched from the position), and
compares per fetch
  (1) delivered offsets + position with the Lean model run on the same abstract input   (tie)
  (2) delivered offsets + position with the Lean ground truth (`truth`, `respEnd`)      (property)
and per session the union of everything delivered with an independent reference reader written
here.  Both transcriptions of the broker (Python here, Lean `resp`/`idxOk`/`decidedB`) are compared
on every generated case; a disagreement is harness trouble (exit 2), never a violation.
A second, faulty stream (arbitrary batch sequences and index lists that obey no broker contract)
ties the mechanism alone and checks the clauses that need no contract (`holdsRaw`).
A third stream ("wire" jobs, class `Wire`) covers the glue between the wire and PartitionRecords for
every Fetch version the client can negotiate (v1..v11) and both levels: whole sessions in which a real
`Fetcher` builds the FetchRequest from the position (`_get_actions_per_node`), a simulated broker
prepares it for exactly version v, reads offset / isolation level back from the encoded request and
answers with a real encoded-and-decoded `FetchResponse_v<v>` (batches, high watermark, LSO,
aborted-transaction list, sometimes a cut-off partial batch at the end), and the real
`Fetcher._proc_fetch_request` turns it into the FetchResult that is consumed and compared as above;
additionally the index that reached PartitionRecords and the LSO / high watermark recorded for the
partition must equal what the response carried.  Below v4 there is no isolation level on the wire:
a read_committed request must not yield uncommitted data (the builder refuses; observed).
Work is spread over worker processes; every job derives its PRNG from (VERIF_SEED, job name).
"""
import gc
import hashlib
import importlib
import itertools
import multiprocessing
import os
import random
import signal
import struct
import subprocess
import sys

from vlib import HarnessError

ABORT, COMMIT = 0, 1
ATTR_TXN, ATTR_CTRL = 0x10, 0x20


# ------------------------------------------------------------------------------- abstract log
class AB:
    """abstract batch (see Model/Iso.lean `Batch`)"""
    __slots__ = ("base", "last", "pid", "txn", "kind", "recs", "present", "gz")

    def __init__(self, base, last, pid, txn, kind, recs, present=True, gz=False):
        self.base, self.last, self.pid, self.txn, self.kind = base, last, pid, txn, kind
        self.recs, self.present, self.gz = list(recs), present, gz

    def text(self):
        r = ".".join(map(str, self.recs)) if self.recs else "-"
        return (f"{self.base}:{self.last}:{self.pid}:{'T' if self.txn else 'F'}:{self.kind}:"
                f"{'T' if self.present else 'F'}:{r}")


def log_text(log):
    return ";".join(b.text() for b in log) if log else "-"


def parse_log(text):
    out = []
    if text == "-":
        return out
    for t in text.split(";"):
        b, l, p, tx, k, pr, rs = t.split(":")
        out.append(AB(int(b), int(l), int(p), tx == "T", k, [] if rs == "-" else [int(x) for x in rs.split(".")],
                      pr == "T"))
    return out


def idx_text(idx):
    return ",".join(f"{p}:{f}" for p, f in idx) if idx else "-"


PID_POOL = [0, 1, 5, 6, 2**31 - 1, 2**31, 2**40 + 3, 2**63 - 1]
EXH_PIDS = [0, 2**63 - 1, 1]


def gen_log(rng, n_events=None, pids=None, compaction=None, dense=True):
    """original log (append order) + compaction; returns (batches, stats)"""
    if not pids:
        # producer ids incl. the boundary values: 0 (the first id a fresh cluster hands out), 1,
        # 2^31-1 / 2^31 (int32 edge), 2^63-1 (largest int64); -1 is "no producer id" and never transactional
        pids = rng.sample(PID_POOL, rng.randrange(1, 5))
        if 0 not in pids and rng.random() < 0.5:
            pids[rng.randrange(len(pids))] = 0
    n_events = n_events or rng.randrange(2, 22)
    compaction = rng.random() < 0.5 if compaction is None else compaction
    log, off = [], 0
    open_ = {}          # pid -> list of indices of its data batches in the open txn
    txns = []           # (pid, [data idx], marker idx or None, kind)
    for _ in range(n_events):
        c = rng.random()
        if c < 0.16:
            n = rng.randrange(1, 4)
            # non-idempotent, idempotent, or a non-transactional batch carrying the id of a
            # transactional producer (must be delivered even while that id is in the aborted set)
            pid = rng.choice([-1, -1, 99, 0, rng.choice(pids)])
            log.append(AB(off, off + n - 1, pid, False, "d", range(off, off + n)))
            off += n
        elif c < 0.62:
            pid = rng.choice(pids)
            n = rng.randrange(1, 4)
            log.append(AB(off, off + n - 1, pid, True, "d", range(off, off + n)))
            open_.setdefault(pid, []).append(len(log) - 1)
            off += n
        elif c < 0.94:
            if not open_:
                continue
            pid = rng.choice(sorted(open_))
            kind = "a" if rng.random() < 0.5 else "c"
            log.append(AB(off, off, pid, True, kind, [off]))
            txns.append((pid, open_.pop(pid), len(log) - 1, kind))
            off += 1
        else:
            # solitary marker: no data of this producer since its last marker
            cand = [p for p in pids if p not in open_]
            if not cand:
                continue
            pid = rng.choice(cand)
            log.append(AB(off, off, pid, True, "a" if rng.random() < 0.7 else "c", [off]))
            txns.append((pid, [], len(log) - 1, log[-1].kind))
            off += 1
    for pid, idxs in open_.items():
        txns.append((pid, idxs, None, None))
    stats = {"compacted": False}
    if not dense and rng.random() < 0.5:
        # offsets with gaps between batches (retention / earlier compaction of whole segments)
        shift = 0
        for b in log:
            shift += rng.choice([0, 0, 0, 1, 3])
            b.base += shift; b.last += shift; b.recs = [o + shift for o in b.recs]
    if compaction:
        stats["compacted"] = True
        for b in log:
            if b.kind == "d":
                r = rng.random()
                if r < 0.25:
                    b.recs = [o for o in b.recs if rng.random() < 0.5]        # inner records removed
                elif r < 0.40:
                    b.present = False                                          # whole batch removed
                elif r < 0.45:
                    b.recs = []                                                # emptied, header kept
        for pid, idxs, mi, kind in txns:
            if mi is None:
                continue
            if all(not log[i].present for i in idxs):
                r = rng.random()
                if r < 0.3:
                    log[mi].present = False                                    # marker removed as well
                elif r < 0.6:
                    log[mi].recs = []                                          # emptied marker batch kept
    for b in log:
        if b.kind == "d" and b.recs and rng.random() < 0.15:
            b.gz = True
    return log, stats


# ------------------------------------------------------------------------------- broker (Env, appendix F)
def env_aborted(log):
    """Kafka's transaction index of the log: (pid, first, marker, markerLive, dataLive)"""
    out, open_ = [], {}
    for b in log:
        if b.kind == "d":
            if b.txn:
                open_.setdefault(b.pid, []).append(b)
        else:
            data = open_.pop(b.pid, None)
            if b.kind == "a" and data:
                out.append((b.pid, data[0].base, b.base, b.present and bool(b.recs), any(d.present for d in data)))
    return out


def env_lso(log, hw):
    open_ = {}
    for b in log:
        if b.kind == "d":
            if b.txn:
                open_.setdefault(b.pid, b.base)
        else:
            open_.pop(b.pid, None)
    return min(open_.values()) if open_ else hw


def env_hw(log):
    return log[-1].last + 1 if log else 0


def env_fetch(log, lvl, f, rng, cut=None, extras=None):
    """one fetch response: (returned batches, e, index)"""
    hw = env_hw(log)
    upper = env_lso(log, hw) if lvl == "rc" else hw
    avail = [b for b in log if b.present and b.last >= f and b.base < upper]
    if not avail:
        return [], upper, []
    if cut is None:
        cut = len(avail) if rng.random() < 0.4 else rng.randrange(1, len(avail) + 1)
    cut = max(1, min(cut, len(avail)))
    ret = avail[:cut]
    e = upper if cut == len(avail) else ret[-1].last + 1
    idx = []
    extras = rng.random() < 0.3 if extras is None else extras
    for pid, first, marker, mlive, dlive in env_aborted(log):
        if marker >= f and mlive:
            if first < e and dlive:
                idx.append((pid, first))
            elif extras and rng.random() < 0.6:
                idx.append((pid, first))          # later or fully compacted transaction: optional entry
    rng.shuffle(idx)
    return ret, e, idx


def reference_reader(log, lvl, f0):
    """independent ground truth for a whole session from f0: offsets a consumer is entitled to"""
    outcome, pending = {}, {}
    for i, b in enumerate(log):
        if b.kind == "d":
            if b.txn:
                pending.setdefault(b.pid, []).append(i)
        else:
            for j in pending.pop(b.pid, ()):
                outcome[j] = b.kind
    hw = env_hw(log)
    stable = min([log[v[0]].base for v in pending.values()] + [hw])
    out = []
    for i, b in enumerate(log):
        if not b.present or b.kind != "d":
            continue
        if lvl == "rc":
            if b.base >= stable:
                break
            if b.txn and outcome.get(i) != "c":
                continue
        out += [o for o in b.recs if o >= f0]
    return out


# ------------------------------------------------------------------------------- real classes
def key_of(o):
    return b"k%d" % o


def val_of(o, pid):
    return b"v%d/%d" % (o, pid)


class _Hang(BaseException):
    pass


class _JobAbort(Exception):
    """a response did not terminate: one such observation per job is enough (each costs CPU_LIMIT_S)"""


def _on_alarm(signum, frame):
    raise _Hang()


CPU_LIMIT_S = 2.0      # per response, CPU seconds of this process (a response takes ~100 us)


class Impl:
    def __init__(self, repo):
        sys.path.insert(0, str(repo))
        for m in [m for m in sys.modules if m.startswith("aiokafka")]:
            del sys.modules[m]
        self.fetcher = importlib.import_module("aiokafka.consumer.fetcher")
        if not str(self.fetcher.__file__).startswith(str(repo)):
            raise HarnessError(f"aiokafka imported from {self.fetcher.__file__}, not {repo}")
        self.dr = importlib.import_module("aiokafka.record.default_records")
        self.mr = importlib.import_module("aiokafka.record.memory_records")
        self.util = importlib.import_module("aiokafka.record.util")
        self.structs = importlib.import_module("aiokafka.structs")
        self.fetch_proto = importlib.import_module("aiokafka.protocol.fetch")
        self.errors = importlib.import_module("aiokafka.errors")
        self.wire = None
        self.tp = self.structs.TopicPartition("t", 0)
        self.compiled = self.mr.MemoryRecords is not self.mr._MemoryRecordsPy
        self.cache = {}

    def encode(self, b):
        """a real v2 batch for the abstract batch (builder of the library, header patched like a
        broker / log cleaner would: base offset, last offset delta, control bit, CRC)"""
        key = (b.base, b.last, b.pid, b.txn, b.kind, tuple(b.recs), b.gz)
        raw = self.cache.get(key)
        if raw is not None:
            return raw
        pid = b.pid
        bld = self.dr.DefaultRecordBatchBuilder(2, 1 if b.gz else 0, 1 if b.txn else 0, pid,
                                                0 if pid >= 0 else -1, 0 if pid >= 0 else -1, 1 << 20)
        for o in b.recs:
            if b.kind == "d":
                k, v = key_of(o), val_of(o, pid)
            else:
                k = struct.pack(">hh", 0, ABORT if b.kind == "a" else COMMIT)
                v = struct.pack(">hi", 0, 0)
            if bld.append(o - b.base, 1000 + o, k, v, []) is None:
                raise HarnessError("builder refused a record")
        raw = bytearray(bld.build())
        struct.pack_into(">q", raw, 0, b.base)
        (attrs,) = struct.unpack_from(">h", raw, 21)
        if b.kind != "d":
            attrs |= ATTR_CTRL
        if b.txn:
            attrs |= ATTR_TXN
        struct.pack_into(">h", raw, 21, attrs)
        struct.pack_into(">i", raw, 23, b.last - b.base)
        struct.pack_into(">I", raw, 17, self.util.calc_crc32c(bytes(raw[21:])))
        raw = bytes(raw)
        self.cache[key] = raw
        return raw

    def records(self, data, variant):
        if variant == "py":
            return self.mr._MemoryRecordsPy(data)
        return self.mr.MemoryRecords(data)

    def run(self, batches, idx, f, lvl, script, variant):
        """feed one response to PartitionRecords/FetchResult, consume per `script`.
        Returns (delivered offsets, position, status, took) with status all|part|raise:<exc>"""
        data = b"".join(self.encode(b) for b in batches)
        saved = self.mr.DefaultRecordBatch
        if variant == "py":
            self.mr.DefaultRecordBatch = self.dr._DefaultRecordBatchPy
        try:
            recs = self.records(data, variant)
            if not recs.has_next():
                return [], f, "empty", 0
            F = self.fetcher
            pr = F.PartitionRecords(self.tp, recs, (None if idx is None else list(idx)), f, None, None, True,
                                    F.READ_COMMITTED if lvl == "rc" else F.READ_UNCOMMITTED)
            st = _State(f)
            fr = F.FetchResult(self.tp, assignment=_Assign(st), partition_records=pr, backoff=0)
            got = []
            old = signal.signal(signal.SIGVTALRM, _on_alarm)
            signal.setitimer(signal.ITIMER_VIRTUAL, CPU_LIMIT_S)
            try:
                status = consume(fr, script, batches, got)
            except _Hang:
                status = "hang"
            except Exception as ex:  # noqa
                status = "raise:" + type(ex).__name__
            finally:
                signal.setitimer(signal.ITIMER_VIRTUAL, 0)
                signal.signal(signal.SIGVTALRM, old)
            return got, st.position, status, len(got)
        finally:
            self.mr.DefaultRecordBatch = saved


def consume(fr, script, batches, got):
    """drive a FetchResult per `script`; appends delivered offsets to `got`; returns all|part"""
    pids = {}
    for b in batches:
        for o in b.recs:
            pids[o] = b.pid
    for op in script:
        if not fr.has_more():
            break
        if op == "all":
            msgs = fr.getall()
        elif op == "one":
            m = fr.getone()
            msgs = [] if m is None else [m]
        else:
            msgs = fr.getall(max_records=op)
        for m in msgs:
            if m.key != key_of(m.offset) or m.value != val_of(m.offset, pids.get(m.offset, 0)):
                # not a data record of this log at that offset (e.g. a marker's payload)
                got.append(-1 - m.offset)
            else:
                got.append(m.offset)
    return "part" if fr.has_more() else "all"


class Wire:
    """The glue between a Fetch response on the wire and PartitionRecords, for every Fetch version
    the client can negotiate: a real `Fetcher` (one per isolation level) on a private event loop;
    its own `_get_actions_per_node` builds the FetchRequest from the position, `client.send` is a
    simulated broker that prepares the request for exactly version v (as a connection whose
    ApiVersions range is (v, v) would), reads fetch offset and isolation level back from the encoded
    request, and answers with a real, encoded-and-decoded `FetchResponse_v<v>` struct carrying the
    planned batches, high watermark, last stable offset and aborted-transaction list; the real
    `_proc_fetch_request` turns that into the FetchResult that is then consumed like everywhere
    else.  Observed besides the delivery: isolation level / offset on the wire, the index that
    reached PartitionRecords, the LSO / high watermark recorded for the partition."""

    def __init__(self, impl):
        import asyncio
        self.asyncio = asyncio
        self.impl = impl
        self.loop = asyncio.new_event_loop()
        self.fetchers = {}
        self.plan = None
        self.obs = None
        F = impl.fetcher
        self.req_classes = {c.API_VERSION: c for c in impl.fetch_proto.FetchRequest._CLASSES}
        self.versions = sorted(self.req_classes)
        wire = self

        class _Cluster:
            def leader_for_partition(self, tp_):
                return 0

            def broker_metadata(self, n):
                return object()

        class _Client:
            _loop = self.loop
            _metadata_max_age_ms = 300000
            cluster = _Cluster()

            def force_metadata_update(self):
                pass

            async def send(self, node, req):
                return wire.broker(req)

        class _Subs:
            subscription = None

            def register_fetch_waiters(self, w):
                pass

            def wait_for_assignment(self):
                return wire.loop.create_future()

        async def mk(name):
            return F.Fetcher(_Client(), _Subs(), isolation_level=name, retry_backoff_ms=0)

        for lvl, name in (("rc", "read_committed"), ("ru", "read_uncommitted")):
            self.fetchers[lvl] = self.loop.run_until_complete(mk(name))

    def close(self):
        try:
            for f in self.fetchers.values():
                self.loop.run_until_complete(f.close())
        finally:
            self.loop.close()

    # ---- the simulated broker
    def broker(self, req):
        plan, obs = self.plan, self.obs
        v = plan["v"]
        try:
            st = req.prepare({req.API_KEY: (v, v)})
        except self.impl.errors.IncompatibleBrokerVersion:
            obs["refused"] = True
            raise
        if st.API_VERSION != v:
            raise HarnessError(f"prepare((v,v)) gave version {st.API_VERSION} for v={v}")
        back = type(st).decode(st.encode())
        obs["wire_level"] = getattr(back, "isolation_level", None)
        (topic, parts), = back.topics
        names = st.SCHEMA.fields[st.SCHEMA.names.index("topics")].array_of.fields[1].array_of.names
        off_name = "fetch_offset" if "fetch_offset" in names else "offset"
        obs["wire_offset"] = parts[0][names.index(off_name)]
        if v < 4 and plan["lvl"] == "rc":
            # a broker that knows no isolation level answers with everything below the high watermark
            ret, e, idx = env_fetch(plan["log"], "ru", obs["wire_offset"], random.Random(0), cut=plan["cutn"], extras=False)
            idx = None
            obs["answered_as_ru"] = {"ret": [b.base for b in ret], "e": e}
        else:
            ret, e, idx = plan["ret"], plan["e"], plan["idx"]
        obs["ret"] = ret
        data = b"".join(self.impl.encode(b) for b in ret) + plan["tail"]
        Resp = st.RESPONSE_TYPE
        sch = Resp.SCHEMA
        tf = sch.fields[sch.names.index("topics")]
        pnames = tf.array_of.fields[1].array_of.names
        pv = {"partition": 0, "error_code": 0, "highwater_offset": plan["hw"], "last_stable_offset": plan["lso"],
              "log_start_offset": 0, "aborted_transactions": (None if idx is None else [tuple(t) for t in idx]),
              "preferred_read_replica": -1, "message_set": data}
        tv = {"throttle_time_ms": 0, "error_code": 0, "session_id": 0}
        try:
            ptuple = tuple(pv[n] for n in pnames)
            args = [([("t", [ptuple])] if n == "topics" else tv[n]) for n in sch.names]
        except KeyError as ex:
            raise HarnessError(f"FetchResponse v{v}: field {ex} unknown to the harness")
        obs["resp_fields"] = list(pnames)
        return Resp.decode(Resp(*args).encode())

    def run(self, log, ret, e, idx, f, lvl, script, variant, v, tailn, cutn):
        """one fetch over the wire at Fetch version v.  Returns (got, pos, status, took, obs)"""
        impl = self.impl
        F = impl.fetcher
        hw = env_hw(log)
        nxt = [b for b in log if b.present and b.base >= e and ret and b.base > ret[-1].last]
        # a strictly partial copy of the next batch (what max_bytes cuts off); never the whole batch
        tail = impl.encode(nxt[0])[:min(tailn, len(impl.encode(nxt[0])) - 1)] if (nxt and tailn) else b""
        self.plan = {"v": v, "lvl": lvl, "log": log, "ret": ret, "e": e,
                     "idx": (idx if lvl == "rc" else None), "hw": hw, "lso": env_lso(log, hw), "tail": tail, "cutn": cutn}
        self.obs = obs = {}
        fetcher = self.fetchers[lvl]
        st = _WState(f)
        assign = _WAssign(st, impl.tp)
        saved = (impl.mr.DefaultRecordBatch, F.MemoryRecords)
        if variant == "py":
            impl.mr.DefaultRecordBatch = impl.dr._DefaultRecordBatchPy
            F.MemoryRecords = impl.mr._MemoryRecordsPy
        got = []
        old = signal.signal(signal.SIGVTALRM, _on_alarm)
        signal.setitimer(signal.ITIMER_VIRTUAL, CPU_LIMIT_S)
        try:
            fetcher._records.clear()
            reqs = fetcher._get_actions_per_node(assign)[0]
            if len(reqs) != 1:
                return got, st.position, "no-request", 0, obs
            node, req = reqs[0]
            self.loop.run_until_complete(fetcher._proc_fetch_request(assign, node, req))
            fr = fetcher._records.pop(impl.tp, None)
            if obs.get("refused"):
                status = "refused" if fr is None else "refused-but-result"
            elif fr is None:
                status = "all"           # response dropped: nothing delivered, position unchanged
            elif not hasattr(fr, "getall"):
                try:
                    fr.check_raise()
                    status = "raise:unknown"
                except Exception as ex:  # noqa
                    status = "raise:" + type(ex).__name__
            else:
                pr = getattr(fr, "_partition_records", None)
                handed = getattr(pr, "_aborted_transactions", None)
                if handed is not None:
                    obs["handed_index"] = sorted((int(p), int(o)) for p, o in handed)
                obs["state_lso"] = st.lso
                obs["state_hw"] = st.highwater
                status = consume(fr, script, obs.get("ret") or ret, got)
        except _Hang:
            status = "hang"
        except HarnessError:
            raise
        except Exception as ex:  # noqa
            status = "raise:" + type(ex).__name__
        finally:
            signal.setitimer(signal.ITIMER_VIRTUAL, 0)
            signal.signal(signal.SIGVTALRM, old)
            impl.mr.DefaultRecordBatch, F.MemoryRecords = saved
            fetcher._records.clear()
        obs.pop("ret", None)
        return got, st.position, status, len(got), obs


class _WState:
    paused = False
    has_valid_position = True
    resume_fut = None
    highwater = "unset"
    lso = "unset"
    timestamp = None

    def __init__(self, pos):
        self.position = pos

    def consumed_to(self, pos):
        self.position = pos


class _WAssign:
    active = True

    def __init__(self, st, tp):
        self.st = st
        self.tps = [tp]

    def state_value(self, tp):
        return self.st


class _State:
    paused = False

    def __init__(self, pos):
        self.position = pos

    def consumed_to(self, pos):
        self.position = pos


class _Assign:
    active = True

    def __init__(self, st):
        self.st = st

    def state_value(self, tp):
        return self.st


def csv(xs):
    return ",".join(map(str, xs)) if xs else "-"


def gen_script(rng):
    r = rng.random()
    if r < 0.45:
        return ["all"]
    if r < 0.6:
        return ["one"] * rng.randrange(0, 6)                    # then the buffer is dropped
    if r < 0.75:
        return [rng.randrange(1, 4) for _ in range(rng.randrange(1, 4))]
    if r < 0.9:
        return [rng.choice(["one", 1, 2, 3]) for _ in range(rng.randrange(1, 5))] + ["all"]
    return ["one"] * 40


# ------------------------------------------------------------------------------- cases
def session_cases(log, lvl, f0, rng, variant, max_fetches=60, cuts=None, scripts=None, extras=None, wire=None):
    """plan a consumer session lazily: yields fetch descriptions; the caller sends back the position.
    wire = Fetch API version: the response travels as a real FetchResponse_v<wire> struct through the
    real Fetcher._proc_fetch_request"""
    pos = f0
    n = 0
    while n < max_fetches:
        ret, e, idx = env_fetch(log, lvl, pos, rng, cut=None if cuts is None else cuts, extras=extras)
        if not ret:
            return
        script = gen_script(rng) if scripts is None else scripts
        c = {"kind": "fetch", "lvl": lvl, "f": pos, "e": e, "idx": idx, "log": log_text(log),
             "script": script, "variant": variant,
             "gz": [b.base for b in log if b.gz], "ret": [b.base for b in ret]}
        if wire is not None:
            c["wire"] = wire
            c["tail"] = rng.choice([0, 0, 0, 5, 20, 61, 70])     # bytes of the next batch cut off by max_bytes
        newpos = yield c
        n += 1
        pos = newpos


def exec_case(impl, c):
    """run one case on the real code; fills c['impl'] = (delivered, pos, status, took)"""
    log = parse_log(c["log"])
    gz = set(c.get("gz") or [])
    for b in log:
        b.gz = b.base in gz
    if c["kind"] == "fetch":
        # the broker side again (replay files carry the abstract input only)
        upper = c["e"]
        ret = [b for b in log if b.present and b.last >= c["f"] and b.base < upper]
        c.setdefault("ret", [b.base for b in ret])
    else:
        ret = log
    idx = c["idx"]
    if c.get("wire") is not None:
        if impl.wire is None:
            impl.wire = Wire(impl)
        got, pos, status, took, obs = impl.wire.run(log, ret, c["e"], idx or [], c["f"], c["lvl"], c["script"],
                                                    c["variant"], c["wire"], c.get("tail", 0), len(ret))
        if "answered_as_ru" in obs:
            # Fetch < v4 knows no isolation level and the request was not refused: the broker answered
            # as for read_uncommitted; the case now describes what really travelled
            c["e"], c["idx"], c["ret"] = obs["answered_as_ru"]["e"], [], obs["answered_as_ru"]["ret"]
            c["unrefused"] = True
        c["obs"] = obs
    else:
        got, pos, status, took = impl.run(ret, idx if idx is not None else None, c["f"], c["lvl"], c["script"], c["variant"])
    c["impl"] = [got, pos, status, took]
    if status == "hang":
        raise _JobAbort(c)
    return ret


def model_line(c):
    got, pos, status, took = c["impl"]
    tk = str(took) if status == "part" else "all"
    idx = c["idx"] or []
    if c["kind"] == "fetch":
        return f"c08 fetch {c['lvl']} {c['f']} {c['e']} {idx_text(idx)} {c['log']} {tk}"
    return f"c08 raw {c['lvl']} {c['f']} {idx_text(idx)} {c['log']} {tk}"


def impl_text(c):
    got, pos, status, took = c["impl"]
    if status not in ("all", "part", "empty"):
        return f"{csv(got)} {pos} {status}"
    return f"{csv(got)} {pos}"


def classify(c, truth, end):
    """signature + text for a property failure of a well-formed case"""
    sig, text = _classify(c, truth, end)
    if c.get("wire") is not None:
        sig += f"@fetch-v{c['wire']}"
        text += f" (response travelled as FetchResponse_v{c['wire']} through Fetcher._proc_fetch_request)"
    return sig, text


def _classify(c, truth, end):
    got, pos, status, took = c["impl"]
    log = parse_log(c["log"])
    lvl = c["lvl"]
    if status.startswith("raise"):
        return f"c08:{lvl}:{status}", f"iteration raised {status[6:]}; position stays at {pos}"
    if status == "hang":
        return f"c08:{lvl}:hang", f"iteration did not terminate within {CPU_LIMIT_S} CPU seconds"
    if status in ("refused", "refused-but-result", "no-request"):
        return f"c08:{lvl}:{status}", f"the fetch was not performed ({status}); position stays at {pos}"
    by_off = {}
    for b in log:
        for o in b.recs:
            by_off[o] = b
    extra = [o for o in got if o not in truth]
    if extra:
        o = extra[0]
        if o < 0:
            return f"c08:{lvl}:control-record-delivered", f"a transaction marker (offset {-1 - o}) was delivered"
        b = by_off.get(o)
        if b is None:
            return f"c08:{lvl}:unknown-record-delivered", f"offset {o} is not a record of the log"
        if b.kind != "d":
            return f"c08:{lvl}:control-record-delivered", f"a transaction marker (offset {o}) was delivered"
        if o < c["f"]:
            return f"c08:{lvl}:record-below-position-delivered", f"offset {o} is below the fetch offset {c['f']}"
        if b.base >= c["e"]:
            return f"c08:{lvl}:record-beyond-response-delivered", f"offset {o} is not part of the response"
        return f"c08:{lvl}:aborted-record-delivered", f"offset {o} of an aborted transaction (producer {b.pid}) was delivered"
    if len(got) != len(set(got)):
        return f"c08:{lvl}:record-delivered-twice", "a record was delivered twice"
    if got != sorted(got):
        return f"c08:{lvl}:out-of-order", "records delivered out of offset order"
    upto = truth if status in ("all", "empty") else [o for o in truth if got and o <= got[-1]]
    missing = [o for o in upto if o not in got]
    if missing:
        o = missing[0]
        b = by_off[o]
        what = "committed" if b.txn else "non-transactional"
        return f"c08:{lvl}:{what}-record-dropped", f"offset {o} ({what}, producer {b.pid}) was not delivered"
    if status in ("all", "empty"):
        if pos != end and pos <= c["f"]:
            return f"c08:{lvl}:no-progress", (f"non-empty response left the position at {pos} (fetch offset {c['f']}): "
                                               "the same batch is fetched forever")
        return f"c08:{lvl}:position-{'behind' if pos < end else 'ahead'}", f"position {pos} after the response, required {end}"
    want = c["f"] if took == 0 else got[-1] + 1
    return f"c08:{lvl}:position-{'behind' if pos < want else 'ahead'}-partial", \
        f"position {pos} after {took} records of the response, required {want}"


def replay_of(c):
    return {k: c[k] for k in ("kind", "lvl", "f", "e", "idx", "log", "script", "variant", "gz", "wire", "tail") if k in c}


# ------------------------------------------------------------------------------- evaluation of a batch of cases
def drive(exe, lines):
    if not lines:
        return []
    p = subprocess.run([exe], input=("\n".join(lines) + "\n").encode(), capture_output=True, timeout=1200)
    if p.returncode != 0:
        raise HarnessError(f"driver exited {p.returncode}: {p.stderr.decode()[-500:]}")
    out = p.stdout.decode().splitlines()
    if len(out) != len(lines):
        raise HarnessError(f"driver: {len(lines)} lines in, {len(out)} out")
    return out


def evaluate(exe, cases, sessions, generated):
    """cases have been run on the real code; run the model, compare, return a summary (picklable)"""
    R = {"n": 0, "hashes": [], "hist": {}, "tie_bad": [], "tie_bad_n": 0, "prop_bad": [], "prop_bad_n": 0,
         "harness": None, "samples": [], "sess_total": len(sessions), "sess_full": 0}
    hist = R["hist"]

    def bump(k):
        hist[k] = hist.get(k, 0) + 1

    lines = [model_line(c) for c in cases]
    res = drive(exe, lines)
    seen_sigs = set()

    def prop_fail(sig, text, cs, observed, required):
        R["prop_bad_n"] += 1
        if sig not in seen_sigs and len(R["prop_bad"]) < 12:
            seen_sigs.add(sig)
            R["prop_bad"].append({"sig": sig, "text": text, "cases": [replay_of(c) for c in cs],
                                  "observed": observed, "required": required})

    for i, (c, r) in enumerate(zip(cases, res)):
        got, pos, status, took = c["impl"]
        it = impl_text(c)
        if r == "bad-op":
            R["harness"] = "driver rejected " + lines[i][:300]
            return R
        R["n"] += 1
        h = int.from_bytes(hashlib.blake2b(lines[i].encode(), digest_size=8).digest(), "big")
        bump("status:" + status.split(":")[0])
        w = c.get("wire")
        if w is not None:
            obs = c.get("obs", {})
            bump(f"wire:v{w}:{c['lvl']}")
            must_refuse = w < 4 and c["lvl"] == "rc"
            if status == "refused" and must_refuse:
                bump("wire:read_committed-below-v4-refused")
                R["hashes"].append(h)
                continue
            if must_refuse:
                bump("wire:read_committed-below-v4-NOT-refused")
            ws = f"@fetch-v{w}"
            where = f"fetch offset {c['f']}, log {c['log'][:300]}"
            if "wire_offset" in obs and obs["wire_offset"] != c["f"]:
                prop_fail("c08:wire:fetch-offset-on-wire" + ws, f"FetchRequest v{w} asks for offset {obs['wire_offset']}, "
                          f"the position is {c['f']}; {where}", [c], str(obs["wire_offset"]), str(c["f"]))
            if w >= 4 and "wire_level" in obs and obs["wire_level"] != (1 if c["lvl"] == "rc" else 0):
                prop_fail("c08:wire:isolation-level-on-wire" + ws, f"consumer level {c['lvl']}: FetchRequest v{w} carries "
                          f"isolation_level {obs['wire_level']}; {where}", [c], str(obs["wire_level"]), c["lvl"])
            if "handed_index" in obs:
                sent_idx = sorted((int(p_), int(o_)) for p_, o_ in (c["idx"] or [])) if (c["lvl"] == "rc" and w >= 4) else []
                if obs["handed_index"] != sent_idx:
                    prop_fail("c08:wire:aborted-index-not-handed-over" + ws,
                              f"FetchResponse v{w} carried aborted_transactions {sent_idx} but PartitionRecords was built "
                              f"with {obs['handed_index']}; {where}", [c], str(obs["handed_index"]), str(sent_idx))
                else:
                    bump("wire:index-handed-over-intact")
            if w >= 4 and "state_lso" in obs:
                log_ = parse_log(c["log"])
                want_lso = env_lso(log_, env_hw(log_))
                if obs["state_lso"] != want_lso or obs["state_hw"] != env_hw(log_):
                    prop_fail("c08:wire:lso-not-recorded" + ws,
                              f"FetchResponse v{w} carried last_stable_offset {want_lso} / high watermark {env_hw(log_)} but "
                              f"the partition state holds lso={obs['state_lso']} highwater={obs['state_hw']}; {where}",
                              [c], f"{obs['state_lso']} {obs['state_hw']}", f"{want_lso} {env_hw(log_)}")
        if c["kind"] == "fetch":
            head, _, tail = r.partition(" | ")
            flags = dict(t.split("=", 1) for t in tail.split(" "))
            if generated and not c.get("unrefused") and (flags["wf"] != "T" or flags["idx"] != "T" or (c["lvl"] == "rc" and flags["dec"] != "T")
                              or flags["resp"] != csv(c["ret"])):
                # the two transcriptions of the broker must agree (else the harness is wrong, not the code)
                R["harness"] = f"broker transcriptions disagree: {lines[i][:400]} -> {tail} (python ret {c['ret']})"
                return R
            valid = flags["wf"] == "T" and (c["lvl"] == "ru" or (flags["idx"] == "T" and flags["dec"] == "T"))
            truth = [] if flags["truth"] == "-" else [int(x) for x in flags["truth"].split(",")]
            end = int(flags["end"])
            if it != head:
                R["tie_bad_n"] += 1
                if len(R["tie_bad"]) < 3:
                    R["tie_bad"].append({"op": lines[i][:600], "impl": it, "model": head, "case": replay_of(c)})
            if valid:
                if status in ("all", "empty"):
                    ok = got == truth and pos == end and (not c["ret"] or pos > c["f"])
                elif status == "part":
                    ok = got == truth[:took] and pos == (c["f"] if took == 0 else got[-1] + 1)
                else:
                    ok = False
                if not ok:
                    sig, text = classify(c, truth, end)
                    prop_fail(sig, f"{text}; fetch offset {c['f']}, cut {c['e']}, index {c['idx']}, log {c['log'][:300]}",
                              [c], it, f"{csv(truth)} {end}")
            log = parse_log(c["log"])
            rset = set(c["ret"])
            ret_b = [b for b in log if b.base in rset]
            if any(b.txn or b.kind != "d" for b in ret_b):
                R["hashes"].append(h)
            bump(("wire-" if w is not None else "") + "fetch:" + c["lvl"] + ":" + c["variant"])
            if c["idx"]:
                bump("index-nonempty")
                firsts = [f_ for _, f_ in c["idx"]]
                if any(f_ < c["f"] for f_ in firsts):
                    bump("index-entry-begins-below-fetch-offset")
                if c["ret"] and any(f_ > c["ret"][0] for f_ in firsts):
                    bump("index-entry-begins-inside-response")
                if c["ret"] and any(f_ > c["ret"][-1] for f_ in firsts):
                    bump("index-entry-begins-beyond-response")
                if len(c["idx"]) >= 2:
                    bump("index-2plus-entries")
            if ret_b and ret_b[0].base < c["f"]:
                bump("fetch-offset-inside-first-batch")
            if any(b.kind != "d" and not b.recs for b in ret_b):
                bump("emptied-marker-in-response")
            if any(b.kind == "a" for b in ret_b):
                bump("abort-marker-in-response")
            if any(b.pid == 0 and b.txn for b in ret_b):
                bump("producer-id-0-transactional-in-response")
                if c["lvl"] == "rc" and any(p_ == 0 for p_, _ in (c["idx"] or [])):
                    bump("producer-id-0-aborted-in-index")
            if any(b.pid >= 2**31 - 1 and b.txn for b in ret_b):
                bump("producer-id-ge-2^31-1-in-response")
            if any(not b.present for b in log):
                bump("log-with-removed-batches")
            if c["e"] < env_hw(log):
                bump("response-cut-before-log-end")
            ru_all = sum(len([o for o in b.recs if o >= c["f"]]) for b in ret_b if b.kind == "d")
            if c["lvl"] == "rc" and status == "all" and len(got) < ru_all:
                bump("aborted-records-filtered-in-response")
        else:
            R["hashes"].append(h)
            bump("raw:" + c["lvl"] + ":" + c["variant"])
            if it != r:
                R["tie_bad_n"] += 1
                if len(R["tie_bad"]) < 3:
                    R["tie_bad"].append({"op": lines[i][:600], "impl": it, "model": r, "case": replay_of(c)})
            if status.startswith("raise") or status == "hang":
                prop_fail(f"c08:raw:{status}", f"iteration raised / hung on a byte-correct batch sequence: {lines[i][:300]}",
                          [c], it, "no exception, termination")
    # faulty stream: the contract-free clauses, evaluated by Lean on what the implementation did
    raw_idx = [i for i, c in enumerate(cases) if c["kind"] == "raw" and c["impl"][2] in ("all", "empty")]
    q = []
    for i in raw_idx:
        c = cases[i]
        got = [o if o >= 0 else 10**9 for o in c["impl"][0]]
        q.append(f"c08 holdsraw {c['f']} {c['log']} {csv(got)} {c['impl'][1]}")
    for i, r in zip(raw_idx, drive(exe, q)):
        if r != "T":
            c = cases[i]
            bad_ctrl = any(o < 0 for o in c["impl"][0])
            sig = "c08:raw:control-record-delivered" if bad_ctrl else "c08:raw:position-or-records-wrong"
            prop_fail(sig, f"contract-free clause fails: {lines[i][:300]} -> {impl_text(c)}", [c], impl_text(c),
                      "only records of data batches; position one past the last batch")
    # session level: union of everything delivered vs the independent reference reader
    for start, n, log, lvl, f0 in sessions:
        cs = cases[start:start + n]
        if not cs:
            continue
        delivered = [o for c in cs for o in c["impl"][0]]
        ref = reference_reader(log, lvl, f0)
        last = cs[-1]
        finished = not any(c["impl"][2] not in ("all", "part") for c in cs) and \
            not env_fetch(log, lvl, last["impl"][1], random.Random(0), cut=1)[0]
        if finished:
            R["sess_full"] += 1
        if (finished and delivered != ref) or (not finished and delivered != ref[:len(delivered)]):
            ws = f"@fetch-v{cs[0]['wire']}" if cs[0].get("wire") is not None else ""
            prop_fail(f"c08:{lvl}:session-differs-from-reference-reader{ws}",
                      f"session from {f0} delivered {delivered[:40]} but the log entitles to {ref[:40]}; log {log_text(log)[:300]}",
                      cs, csv(delivered), csv(ref))
    for i in (0, len(cases) // 2):
        if cases:
            R["samples"].append({"op": lines[i][:300], "impl": impl_text(cases[i]), "model": res[i][:200]})
    return R


# ------------------------------------------------------------------------------- jobs (run in worker processes)
_W = {}


def _run_sessions(impl, cases, sessions, log, lvl, f0, rng, variant, **kw):
    gen = session_cases(log, lvl, f0, rng, variant, **kw)
    start = len(cases)
    try:
        c = next(gen)
        while True:
            exec_case(impl, c)
            cases.append(c)
            got, pos, status, took = c["impl"]
            if status not in ("all", "part") or pos < c["f"] or (status == "all" and pos == c["f"]):
                break                   # no progress / error / refusal: the property check reports it
            c = gen.send(pos)
    except StopIteration:
        pass
    sessions.append((start, len(cases) - start, log, lvl, f0))


def job(spec):
    impl, exe, variants = _W["impl"], _W["exe"], _W["variants"]
    kind = spec[0]
    cases, sessions = [], []
    try:
        if kind == "random":
            _, seedstr, n = spec
            rng = random.Random(seedstr)
            for i in range(n):
                log, _ = gen_log(rng, dense=(i % 3 != 0))
                hw = env_hw(log)
                for lvl in ("rc", "ru"):
                    f0 = rng.choice([0, rng.randrange(0, hw + 1), rng.randrange(0, hw + 1)])
                    _run_sessions(impl, cases, sessions, log, lvl, f0, rng, variants[i % len(variants)])
        elif kind == "exh":
            _, seedstr, logs = spec
            rng = random.Random(seedstr)
            for j, text in enumerate(logs):
                log = parse_log(text)
                hw = env_hw(log)
                for lvl in ("rc", "ru"):
                    for f in range(0, hw + 1):
                        avail = len(env_fetch(log, lvl, f, rng, cut=10**6)[0])
                        for cut in range(1, avail + 1):
                            ret, e, idx = env_fetch(log, lvl, f, rng, cut=cut, extras=False)
                            c = {"kind": "fetch", "lvl": lvl, "f": f, "e": e, "idx": idx, "log": text,
                                 "script": ["all"], "variant": variants[(j + f) % len(variants)], "gz": [],
                                 "ret": [b.base for b in ret]}
                            exec_case(impl, c)
                            cases.append(c)
        elif kind == "wire":
            # every Fetch version the client can negotiate x both levels: sessions over the real
            # Fetcher._get_actions_per_node -> FetchRequest -> FetchResponse_v<N> -> _proc_fetch_request
            _, seedstr, n = spec
            rng = random.Random(seedstr)
            if impl.wire is None:
                impl.wire = Wire(impl)
            versions = impl.wire.versions
            for i in range(n):
                log, _ = gen_log(rng, dense=(i % 3 != 0))
                hw = env_hw(log)
                for v in versions:
                    for lvl in ("rc", "ru"):
                        f0 = rng.choice([0, 0, rng.randrange(0, hw + 1)])
                        _run_sessions(impl, cases, sessions, log, lvl, f0, rng, variants[(i + v) % len(variants)], wire=v)
        elif kind == "raw":
            _, seedstr, n = spec
            rng = random.Random(seedstr)
            for i in range(n):
                c = raw_case(rng, variants[i % len(variants)])
                exec_case(impl, c)
                cases.append(c)
        elif kind == "cases":
            for c in spec[1]:
                c = dict(c)
                c["idx"] = None if c["idx"] is None else [tuple(t) for t in c["idx"]]
                c.pop("ret", None)
                exec_case(impl, c)
                cases.append(c)
    except _JobAbort as ja:
        cases.append(ja.args[0])
        sessions = [t for t in sessions if t[0] + t[1] <= len(cases) - 1]
    except HarnessError as ex:
        return {"harness": str(ex)}
    finally:
        if impl.wire is not None:
            impl.wire.close()
            impl.wire = None
    try:
        return evaluate(exe, cases, sessions, generated=(kind in ("random", "exh", "wire")))
    except HarnessError as ex:
        return {"harness": str(ex)}


# ------------------------------------------------------------------------------- glue: the level on the wire
def glue_isolation_on_wire(impl):
    """mechanism 3 of the property: a real Fetcher built with isolation_level=<name> must put that
    level into every FetchRequest and ListOffsets request it builds (the broker bounds the data by
    LSO / HW from it).  Returns a list of (signature, text) failures and the number of observations."""
    import asyncio
    F = impl.fetcher
    tp = impl.tp
    fails, seen = [], 0

    class _Cluster:
        def leader_for_partition(self, tp_):
            return 0

        def broker_metadata(self, n):
            return object()

    class _Sent(Exception):
        pass

    async def one(name, want):
        nonlocal seen
        loop = asyncio.get_running_loop()
        sent = []

        class _Client:
            _loop = loop
            _metadata_max_age_ms = 300000
            cluster = _Cluster()

            async def send(self, node, req):
                sent.append(req)
                raise _Sent()

        class _Subs:
            subscription = None

            def register_fetch_waiters(self, w):
                pass

            def wait_for_assignment(self):
                return loop.create_future()

        class _St:
            paused = False
            has_valid_position = True
            position = 7

        class _As:
            active = True
            tps = [tp]

            def state_value(self, tp_):
                return _St()

        f = F.Fetcher(_Client(), _Subs(), isolation_level=name)
        try:
            reqs = f._get_actions_per_node(_As())[0]
            if len(reqs) != 1:
                fails.append(("c08:glue:no-fetch-request", f"{name}: expected one FetchRequest, got {len(reqs)}"))
            for _node, req in reqs:
                for cls in type(req)._CLASSES:
                    v = cls.API_VERSION
                    if v < 4:
                        continue
                    st = req.prepare({req.API_KEY: (v, v)})
                    back = type(st).decode(st.encode())
                    seen += 1
                    if back.isolation_level != want:
                        fails.append(("c08:glue:fetch-isolation-level",
                                      f"consumer isolation_level={name}: FetchRequest v{v} carries isolation_level "
                                      f"{back.isolation_level}, required {want}"))
                        break
            try:
                await f._proc_offset_request(0, {"t": [(0, -1)]})
            except _Sent:
                pass
            for req in sent:
                for cls in type(req)._CLASSES:
                    v = cls.API_VERSION
                    if v < 2:
                        continue
                    st = req.prepare({req.API_KEY: (v, v)})
                    back = type(st).decode(st.encode())
                    seen += 1
                    if back.isolation_level != want:
                        fails.append(("c08:glue:listoffsets-isolation-level",
                                      f"consumer isolation_level={name}: ListOffsets v{v} carries isolation_level "
                                      f"{back.isolation_level}, required {want}"))
                        break
            if not sent:
                fails.append(("c08:glue:no-listoffsets-request", f"{name}: _proc_offset_request sent nothing"))
        finally:
            await f.close()

    async def main():
        await one("read_committed", 1)
        await one("read_uncommitted", 0)

    asyncio.run(main())
    return fails, seen


# minimised past failures, run first on every check (DESIGN 2.6 step 2)
CORPUS = [
    # 2ef78cd: emptied control batch (compaction kept only the header of producer 7's last batch)
    {"kind": "fetch", "lvl": "rc", "f": 0, "e": 3, "idx": [], "log": "0:0:7:T:a:T:-;1:2:-1:F:d:T:1.2",
     "script": ["all"], "variant": "cy", "gz": []},
    {"kind": "fetch", "lvl": "rc", "f": 0, "e": 3, "idx": [], "log": "0:0:7:T:c:T:-;1:2:-1:F:d:T:1.2",
     "script": ["one", "one", "one"], "variant": "py", "gz": []},
    # the two hand-built cases of tests/test_fetcher.py: solitary abort marker, compacted aborted transaction
    {"kind": "fetch", "lvl": "rc", "f": 0, "e": 3, "idx": [], "log": "0:0:5:T:a:T:0;1:2:-1:F:d:T:1.2",
     "script": ["all"], "variant": "cy", "gz": []},
    {"kind": "fetch", "lvl": "rc", "f": 0, "e": 8, "idx": [[5, 0]],
     "log": "0:2:5:T:d:F:0.1.2;3:4:5:T:d:T:4;5:5:5:T:a:T:5;6:7:5:T:d:T:6.7;8:8:5:T:c:T:8", "script": ["all"],
     "variant": "cy", "gz": []},
    # producer id 0 (the first id a fresh cluster hands out) is a producer id like any other: its aborted
    # transaction is filtered, its non-transactional batch is delivered (independent mutant of round 3)
    {"kind": "fetch", "lvl": "rc", "f": 0, "e": 6, "idx": [[0, 0]],
     "log": "0:1:0:T:d:T:0.1;2:2:0:T:a:T:2;3:3:0:F:d:T:3;4:4:0:T:d:T:4;5:5:0:T:c:T:5", "script": ["all"],
     "variant": "cy", "gz": []},
    {"kind": "fetch", "lvl": "rc", "f": 0, "e": 4, "idx": [[9223372036854775807, 1]],
     "log": "0:0:-1:F:d:T:0;1:2:9223372036854775807:T:d:T:1.2;3:3:9223372036854775807:T:a:T:3", "script": ["all"],
     "variant": "py", "gz": [], "wire": 7, "tail": 0},
    # Fetch v4 is the first version that carries last_stable_offset / aborted_transactions: the response
    # must reach PartitionRecords with its index (independent mutant of round 2, missed before the wire jobs)
    {"kind": "fetch", "lvl": "rc", "f": 0, "e": 4, "idx": [[5, 0]], "log": "0:1:5:T:d:T:0.1;2:2:5:T:a:T:2;3:3:-1:F:d:T:3",
     "script": ["all"], "variant": "cy", "gz": [], "wire": 4, "tail": 0},
    {"kind": "fetch", "lvl": "rc", "f": 1, "e": 4, "idx": [[5, 0]], "log": "0:1:5:T:d:T:0.1;2:2:5:T:a:T:2;3:3:-1:F:d:T:3",
     "script": ["one", "one"], "variant": "py", "gz": [], "wire": 11, "tail": 20},
]


def run(ctx):
    ctx.coverage["trusted_base"] = [
        "Lean 4.33.0 kernel; axioms propext, Classical.choice, Quot.sound only",
        "broker model (DESIGN appendix F): which batches a fetch returns, LSO/HW bound, Kafka's aborted-transaction "
        "index (collectAbortedTxns + log-cleaner retention) — transcribed twice (Python env_fetch/env_aborted here, "
        "Lean resp/abortedTxns/idxOk/decidedB) and compared on every case; real brokers are not in the sandbox",
        "T-diff harness harness/checks/c08.py: abstract log -> real v2 batches via the library's "
        "DefaultRecordBatchBuilder with base offset / last-offset-delta / control bit / CRC patched in; records are "
        "identified by offset and checked by payload",
        "the compiled batch reader (_crecords .so as found in the tree) and the pure-Python reader are both driven; "
        "byte-level decoding itself is C09/C10's subject, here only base_offset, next_offset, producer_id, "
        "is_transactional, is_control_batch and the first control record's key are relied on",
        "the asynchronous Fetcher loop around PartitionRecords (which response is accepted, when to fetch) belongs to C03; "
        "of the Fetcher the synchronous glue is exercised for real at every Fetch version (wire jobs): "
        "_get_actions_per_node (position + level -> FetchRequest), _proc_fetch_request (FetchResponse_vN -> index, LSO, "
        "records -> PartitionRecords/FetchResult), and the level in ListOffsets v2+ (glue observation); the broker "
        "behind client.send is simulated and the ApiVersions negotiation is replaced by prepare({1: (v, v)})",
    ]
    ctx.coverage["modelled_not_proved"] = [
        "position after a partially consumed response (getone / getmany(max_records): Model `partialPos`/`takeK`) is "
        "tied by T-diff and checked against the ground-truth prefix here; its theorem belongs to C03",
    ]
    ctx.assumptions += [
        "transactions live in message-format-v2 batches (legacy batches carry no producer id and are not filtered)",
        "compaction never removes or empties a marker while a batch of its transaction is still in the log, and the "
        "index lists no transaction whose marker is gone (Kafka's log cleaner rebuilds the index that way)",
    ]
    proved = ctx.prove(drivers=["akdriver"])
    ctx.log("proved" if proved else "proof obligations FAILED")
    impl = Impl(ctx.repo)
    ctx.coverage["compiled_reader_present"] = impl.compiled
    variants = ["cy", "py"] if impl.compiled else ["py"]
    exe = str(ctx.ws.exe_path("akdriver"))
    _W.update(impl=impl, exe=exe, variants=variants)

    # mechanism 3: the level reaches the broker
    try:
        gfails, gseen = glue_isolation_on_wire(impl)
    except Exception as ex:  # noqa
        gfails, gseen = [("c08:glue:raises:" + type(ex).__name__, f"building the requests raised {ex!r}")], 0
    ctx.coverage["glue_isolation_level_on_wire"] = {"request_versions_observed": gseen, "failures": len(gfails)}
    for sig, text in gfails:
        ctx.violation(sig, text, {"cases": [], "glue": "Fetcher(isolation_level=...)._get_actions_per_node / "
                                                     "_proc_offset_request -> prepare(v) -> encode -> decode",
                                  "observed": text})
    jobs = []
    if ctx.replay_cases is not None:
        jobs.append(("cases", ctx.replay_cases))
    else:
        jobs.append(("cases", CORPUS))
        seed = f"{ctx.seed}:C08"
        n_logs = 48000 if ctx.thorough else 1400
        per = 400 if ctx.thorough else 100
        for k in range(0, n_logs, per):
            jobs.append(("random", f"{seed}:logs:{k}", min(per, n_logs - k)))
        # bounded exhaustive part: every fetch offset x every cut of small interleavings
        ex3 = [log_text(l) for l in exhaustive_logs(3)]
        if ctx.thorough:
            ex2 = [log_text(l) for l in exhaustive_logs(2)]
            sel = ex3 + ex2[ctx.seed % 8::8]
            ctx.coverage["exhaustive_small_logs"] = {
                "three_producers_one_txn_le2_batches": f"all {len(ex3)}",
                "two_producers_le2_txns_le2_batches": f"{len(ex2[ctx.seed % 8::8])} of {len(ex2)} (every 8th from {ctx.seed % 8})"}
            del ex2
        else:
            r = ctx.rng("exh")
            sel = r.sample(ex3, 120)
            ctx.coverage["exhaustive_small_logs"] = {"three_producers_one_txn_le2_batches": f"120 of {len(ex3)} (seeded sample)"}
        del ex3
        per = 250 if ctx.thorough else 30
        for k in range(0, len(sel), per):
            jobs.append(("exh", f"{seed}:exh:{k}", sel[k:k + per]))
        n_wire = 2400 if ctx.thorough else 90        # logs; each runs 11 versions x 2 levels sessions
        per = 40 if ctx.thorough else 6
        for k in range(0, n_wire, per):
            jobs.append(("wire", f"{seed}:wire:{k}", min(per, n_wire - k)))
        n_raw = 40000 if ctx.thorough else 1500
        for k in range(0, n_raw, 500):
            jobs.append(("raw", f"{seed}:raw:{k}", min(500, n_raw - k)))

    ctx.log(f"{len(jobs)} jobs prepared")
    nproc = max(1, min(16, (os.cpu_count() or 2), len(jobs)))
    gc.collect()
    gc.freeze()
    if nproc > 1:
        with multiprocessing.get_context("fork").Pool(nproc) as pool:
            try:
                results = pool.map_async(job, jobs, chunksize=1).get(timeout=3000)
            except multiprocessing.TimeoutError:
                raise HarnessError("worker pool did not finish within 3000 s")
    else:
        results = [job(j) for j in jobs]

    ctx.log("jobs done")
    hist, tie_bad, prop_bad = {}, [], []
    tie_n = prop_n = 0
    sess_total = sess_full = 0
    for spec, R in zip(jobs, results):
        if R.get("harness"):
            raise HarnessError(R["harness"])
        ctx.coverage["evaluations"] += R["n"]
        ctx._distinct.update(R["hashes"])
        for k, v in R["hist"].items():
            hist[k] = hist.get(k, 0) + v
        tie_n += R["tie_bad_n"]
        prop_n += R["prop_bad_n"]
        tie_bad += R["tie_bad"]
        prop_bad += R["prop_bad"]
        sess_total += R["sess_total"]
        sess_full += R["sess_full"]
        for smp in R["samples"]:
            if spec[0] in ("random", "exh", "wire"):
                ctx.sample(smp, limit=9)
    ctx.coverage["branch_histogram"] = dict(sorted(hist.items()))
    ctx.coverage["traces_validated_against_impl"] = ctx.coverage["evaluations"]
    ctx.coverage["sessions"] = {"total": sess_total, "run_to_log_end": sess_full}
    ctx.coverage["tie_mismatches"] = tie_n
    ctx.coverage["property_failures"] = prop_n
    ctx.coverage["rule"] = (
        "one case = one fetch response fed to the real PartitionRecords+FetchResult (delivered offsets, position, "
        "exception) compared with the Lean model and with the Lean ground truth; sessions chain fetches from the "
        "position the real code reports (start offsets inside batches / transactions / gaps arise from dropped "
        "buffers and random starts) and are compared as a whole with an independent reference reader; logs: 1-4 "
        "transactional producers (ids drawn from {0, 1, 5, 6, 2^31-1, 2^31, 2^40+3, 2^63-1}, id 0 forced into half of "
        "the logs and used by every exhaustive log), 2-21 append events, committed/aborted/open transactions, plain + idempotent "
        "batches (also under a transactional producer id), solitary markers, offset gaps, compaction (records "
        "removed, batches removed, emptied batches, markers removed or emptied once their data is gone), gzip "
        "batches; index in random order with optional extra entries; plus every (fetch offset, cut, level) of small "
        "interleavings (see exhaustive_small_logs); plus a faulty stream without broker contract; plus wire sessions "
        "(every Fetch request version v1..v11 x both levels through the real Fetcher glue and real FetchResponse structs, "
        "see branch_histogram wire:*); plus the corpus "
        "of past failures. non-trivial = the response contains a transactional or control batch; distinct by "
        "model input line")

    # ------------------------------------------------------------------ S: the property on observations
    for pb in prop_bad:
        ctx.violation(pb["sig"], pb["text"], {"cases": pb["cases"], "observed": pb["observed"], "required": pb["required"]})
    if tie_bad:
        ctx.broken.append({"kind": "correspondence", "tie": "T-diff c08 (PartitionRecords/FetchResult vs AkVerif.Iso.unpack)",
                           "mismatches": tie_n, "first": {k: tie_bad[0][k] for k in ("op", "impl", "model")}})
        if not ctx.violations and not ctx.known_hits:
            # the mechanism differs from the model but no clause failed on the inputs of this run:
            # look further on targeted inputs around the mismatches
            for tb in tie_bad[:3]:
                if search(ctx, impl, tb["case"], variants):
                    break
    _ = proved


def raw_case(rng, variant):
    """arbitrary batch sequence + arbitrary index"""
    pids = [0, 5, 2**63 - 1]
    log, off = [], rng.randrange(0, 5)
    for _ in range(rng.randrange(1, 9)):
        n = rng.randrange(1, 4)
        kind = rng.choice(["d", "d", "d", "a", "c"])
        pid = rng.choice(pids + [-1])
        if kind != "d":
            n = 1
            pid = rng.choice(pids)
        recs = [o for o in range(off, off + n) if rng.random() < 0.85]
        txn = kind != "d" or (pid >= 0 and rng.random() < 0.75)
        log.append(AB(off, off + n - 1, pid, txn, kind, recs))
        off += n + rng.choice([0, 0, 1, 2])
    idx = [(rng.choice(pids), rng.randrange(0, off + 2)) for _ in range(rng.randrange(0, 5))]
    f = rng.randrange(0, off + 1)
    return {"kind": "raw", "lvl": rng.choice(["rc", "rc", "ru"]), "f": f, "e": 0,
            "idx": None if (not idx and rng.random() < 0.5) else idx, "log": log_text(log), "script": gen_script(rng),
            "variant": variant, "gz": []}


def exhaustive_logs(n_prod):
    """all interleavings of n_prod producers' scripts, one plain batch in front, single-record batches.
    n_prod = 2: <= 2 transactions of <= 2 batches each; n_prod = 3: one transaction of <= 2 batches each;
    every transaction committed or aborted, a producer's last one possibly left open"""
    def scripts(max_txn):
        out = [[]]
        ends = ["c", "a"]
        for n1 in (1, 2):
            for e1 in ends + ["o"]:
                out.append(["d"] * n1 + ([e1] if e1 != "o" else []))
            if max_txn >= 2:
                for e1 in ends:
                    for n2 in (1, 2):
                        for e2 in ends + ["o"]:
                            out.append(["d"] * n1 + [e1] + ["d"] * n2 + ([e2] if e2 != "o" else []))
        return out

    def interleave(seqs):
        if not any(seqs):
            yield []
            return
        for i, s in enumerate(seqs):
            if not s:
                continue
            rest = seqs[:i] + [s[1:]] + seqs[i + 1:]
            for tail in interleave(rest):
                yield [(i, s[0])] + tail

    logs = []
    sc = scripts(2 if n_prod == 2 else 1)
    for combo in itertools.combinations_with_replacement(range(1, len(sc)), n_prod):
        for order in interleave([list(sc[ci]) for ci in combo]):
            log, off = [AB(0, 0, -1, False, "d", [0])], 1
            for (i, ev) in order:
                log.append(AB(off, off, EXH_PIDS[i], True, ev, [off]))
                off += 1
            logs.append(log)
    return logs


def search(ctx, impl, c0, variants):
    """enlarged targeted generation around a tie mismatch: same log, every fetch offset and cut,
    both levels, with and without optional index entries; reports the first clause failure"""
    if c0["kind"] != "fetch":
        return False
    log = parse_log(c0["log"])
    rng = ctx.rng("search")
    hw = env_hw(log)
    cs = []
    for lvl in ("rc", "ru"):
        for f in range(0, hw + 1):
            avail = len(env_fetch(log, lvl, f, rng, cut=10**6)[0])
            for cut in range(1, avail + 1):
                for extras in (False, True):
                    ret, e, idx = env_fetch(log, lvl, f, rng, cut=cut, extras=extras)
                    c = {"kind": "fetch", "lvl": lvl, "f": f, "e": e, "idx": idx, "log": c0["log"],
                         "script": ["all"], "variant": c0["variant"], "gz": c0.get("gz", []),
                         "ret": [b.base for b in ret]}
                    try:
                        exec_case(impl, c)
                    except _JobAbort:
                        pass
                    cs.append(c)
    res = ctx.driver("akdriver", [model_line(c) for c in cs])
    for c, r in zip(cs, res):
        head, _, tail = r.partition(" | ")
        flags = dict(t.split("=", 1) for t in tail.split(" "))
        if flags["wf"] != "T" or (c["lvl"] == "rc" and (flags["idx"] != "T" or flags["dec"] != "T")):
            continue
        truth = [] if flags["truth"] == "-" else [int(x) for x in flags["truth"].split(",")]
        end = int(flags["end"])
        got, pos, status, took = c["impl"]
        if not (status == "all" and got == truth and pos == end):
            sig, text = classify(c, truth, end)
            ctx.violation(sig, text + f"; log {c['log'][:300]}",
                          {"cases": [replay_of(c)], "observed": impl_text(c), "required": f"{csv(truth)} {end}"})
            return True
    return False
