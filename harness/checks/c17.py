"""C17 — keyed records choose the same partition as the Java client.

Proof: Props/C17.lean (murmur2_py_eq_java, keyed_partition, keyed_independent_of_available,
unkeyed_in_available, ...).  Tie: T-diff of `aiokafka.partitioner.murmur2`,
`DefaultPartitioner.__call__` and `AIOKafkaProducer._partition` against the Lean model
`AkVerif.Murmur.{pyMurmur2, partition}`.  Failing-input search: the Lean statement itself
(`holdsKeyed`, `holdsUnkeyed`, evaluated with the *Java* transcription) on what the
implementation returned.
"""
import importlib
import itertools
import sys

from vlib import HarnessError


def hx(b: bytes) -> str:
    return b.hex() if b else "-"


def csv(xs):
    return ",".join(map(str, xs)) if xs else "-"


class FakeRandom:
    def __init__(self):
        self.c = 0

    def choice(self, xs):
        return xs[self.c % len(xs)]


class StubMeta:
    def __init__(self, allp, avail):
        self.allp, self.avail = allp, avail

    def partitions_for_topic(self, t):
        return set(self.allp)

    def available_partitions_for_topic(self, t):
        return set(self.avail)


def gen_cases(ctx):
    rng = ctx.rng("gen")
    keys = []
    # all byte strings of length 0..2
    keys.append(b"")
    keys += [bytes([a]) for a in range(256)]
    keys += [bytes([a, b]) for a in range(256) for b in range(256)]
    n_exh = len(keys)
    # all tail lengths 0..3 after 0 or 1 whole words, every high-bit pattern
    pat = [0x00, 0x7F, 0x80, 0xFF]
    for ln in range(3, 8):
        for combo in itertools.product(pat, repeat=ln):
            keys.append(bytes(combo))
    n_rand = 200000 if ctx.thorough else 4000
    for i in range(n_rand):
        ln = rng.choice([rng.randrange(0, 16), rng.randrange(0, 64), rng.randrange(0, 4097)])
        style = rng.randrange(4)
        if style == 0:
            keys.append(bytes(rng.choice(pat) for _ in range(ln)))
        else:
            keys.append(rng.randbytes(ln))
    return keys, n_exh


def run(ctx):
    ctx.coverage["trusted_base"] = [
        "Lean 4.33.0 kernel; axioms propext, Classical.choice, Quot.sound only",
        "javaMurmur2/jToPositive (Model/Murmur.lean) is my transcription of Kafka's Utils.murmur2/toPositive over BitVec 32",
        "T-diff harness (harness/checks/c17.py) and the line protocol driver",
        "random.choice modelled as an arbitrary index oracle; CPython int/bytes semantics",
    ]
    ctx.assumptions += ["key length < 2^32 bytes (Java array limit)",
                        "all_partitions handed to the partitioner is the metadata's partition collection (glue checked for ids 0..n-1)"]
    proved = ctx.prove(drivers=["akdriver"])

    sys.path.insert(0, str(ctx.repo))
    for m in [m for m in sys.modules if m.startswith("aiokafka")]:
        del sys.modules[m]
    part = importlib.import_module("aiokafka.partitioner")
    if not str(part.__file__).startswith(str(ctx.repo)):
        raise HarnessError(f"aiokafka imported from {part.__file__}, not {ctx.repo}")

    lines, impl, meta = [], [], []

    def add(line, out, m):
        lines.append(line); impl.append(out); meta.append(m)

    def call(f, *a):
        try:
            return str(f(*a))
        except Exception as e:  # noqa
            return "raise"

    if ctx.replay_cases is not None:
        cases = ctx.replay_cases
        for c in cases:
            if c["kind"] == "murmur":
                k = bytes.fromhex(c["key"])
                add(f"c17 murmur {hx(k)}", call(part.murmur2, k), c)
            else:
                key = None if c["key"] is None else bytes.fromhex(c["key"])
                fr = FakeRandom(); fr.c = c.get("choice", 0)
                part.random = fr
                add(f"c17 part {'none' if key is None else hx(key)} {csv(c['all'])} {csv(c['avail'])} {fr.c}",
                    call(part.DefaultPartitioner(), key, c["all"], c["avail"]), c)
    else:
        keys, n_exh = gen_cases(ctx)
        rng = ctx.rng("parts")
        for k in keys:
            add(f"c17 murmur {hx(k)}", call(part.murmur2, k), {"kind": "murmur", "key": k.hex()})
            ctx.count(("m", k))
        ctx.coverage["exhaustive_len_0_2"] = n_exh
        # partitioner: every partition count 1..1000 with a few keys, availability subsets
        fr = FakeRandom()
        real_random = part.random
        part.random = fr
        dp = part.DefaultPartitioner()
        some_keys = [keys[i] for i in range(0, len(keys), max(1, len(keys) // 40))]
        counts = list(range(1, 1001)) if ctx.thorough else list(range(1, 33)) + \
            sorted(rng.sample(range(33, 1001), 60)) + [1000]
        for n in counts:
            allp = list(range(n))
            for _ in range(3):
                k = rng.choice(some_keys) if rng.random() < 0.5 else rng.randbytes(rng.randrange(0, 40))
                avail = rng.sample(allp, rng.randrange(0, min(n, 8) + 1))
                fr.c = rng.randrange(0, 5000)
                add(f"c17 part {hx(k)} {csv(allp)} {csv(avail)} {fr.c}", call(dp, k, allp, avail),
                    {"kind": "part", "key": k.hex(), "all": allp, "avail": avail, "choice": fr.c})
                ctx.count(("p", k, n, tuple(avail)))
            # unkeyed
            for _ in range(2):
                avail = rng.sample(allp, rng.randrange(0, min(n, 8) + 1))
                fr.c = rng.randrange(0, 5000)
                add(f"c17 part none {csv(allp)} {csv(avail)} {fr.c}", call(dp, None, allp, avail),
                    {"kind": "part", "key": None, "all": allp, "avail": avail, "choice": fr.c})
                ctx.count(("u", n, tuple(avail), fr.c))
        # non-contiguous partition ids / odd orders handed directly to the partitioner
        for _ in range(200 if not ctx.thorough else 5000):
            n = rng.randrange(1, 12)
            allp = rng.sample(range(0, 50), n)
            avail = rng.sample(allp, rng.randrange(0, n + 1))
            k = rng.choice([None, rng.randbytes(rng.randrange(0, 12))])
            fr.c = rng.randrange(0, 100)
            add(f"c17 part {'none' if k is None else hx(k)} {csv(allp)} {csv(avail)} {fr.c}",
                call(dp, k, allp, avail),
                {"kind": "part", "key": None if k is None else k.hex(), "all": allp, "avail": avail, "choice": fr.c})
            ctx.count(("q", k, tuple(allp), tuple(avail), fr.c))
        # producer glue: AIOKafkaProducer._partition with a stub metadata object
        try:
            prod_mod = importlib.import_module("aiokafka.producer.producer")
            P = prod_mod.AIOKafkaProducer
            for n in ([1, 2, 3, 7, 12, 64, 100, 1000] if not ctx.thorough else range(1, 1001)):
                allp = list(range(n))
                for _ in range(4):
                    k = rng.randbytes(rng.randrange(0, 24))
                    avail = rng.sample(allp, rng.randrange(0, min(n, 6) + 1))
                    obj = P.__new__(P)
                    obj._metadata = StubMeta(allp, avail)
                    obj._partitioner = dp
                    fr.c = rng.randrange(0, 100)
                    add(f"c17 part {hx(k)} {csv(allp)} {csv(sorted(avail))} {fr.c}",
                        call(obj._partition, "t", None, None, None, k, None),
                        {"kind": "glue", "key": k.hex(), "all": allp, "avail": sorted(avail), "choice": fr.c})
                    ctx.count(("g", k, n))
            # real ClusterMetadata fed by a MetadataResponse: leaders in {-1, 0, 1, 2}
            cl_mod = importlib.import_module("aiokafka.cluster")
            md_mod = importlib.import_module("aiokafka.protocol.metadata")
            for it in range(300 if not ctx.thorough else 6000):
                n = rng.randrange(1, 9)
                style = rng.randrange(4)
                leaders = [(p, rng.choice([-1, 0, 1, 2]) if style else rng.choice([-1, 0])) for p in range(n)]
                if style == 1:
                    leaders = [(p, 0 if p == rng.randrange(n) else -1) for p in range(n)]
                order = leaders[:]
                rng.shuffle(order)
                cm = cl_mod.ClusterMetadata(metadata_max_age_ms=10000)
                cm.update_metadata(md_mod.MetadataResponse_v1(
                    brokers=[(i, f"b{i}", 9092, None) for i in range(3)], controller_id=0,
                    topics=[(0, "t", False, [(0, p, l, [0], [0]) for p, l in order])]))
                obj = P.__new__(P)
                obj._metadata = cm
                obj._partitioner = dp
                k = None if rng.random() < 0.7 else rng.randbytes(rng.randrange(0, 9))
                fr.c = rng.randrange(0, 100)
                ls = ",".join(f"{p}:{l}" for p, l in order)
                add(f"c17 partmd {'none' if k is None else hx(k)} {ls} {fr.c}",
                    call(obj._partition, "t", None, None, None, k, None),
                    {"kind": "md", "key": None if k is None else k.hex(), "leaders": order, "choice": fr.c,
                     "all": list(range(n)), "avail": sorted(p for p, l in leaders if l != -1)})
                ctx.count(("md", k, tuple(order), fr.c))
        finally:
            part.random = real_random

    out = ctx.driver("akdriver", lines)
    mism = [i for i in range(len(lines)) if out[i] != impl[i]]
    ctx.sample({"op": lines[0], "impl": impl[0], "model": out[0]})
    for i in (len(lines) // 2, len(lines) - 1):
        ctx.sample({"op": lines[i][:200], "impl": impl[i], "model": out[i]})
    ctx.coverage["rule"] = ("cases: every byte string of length 0..2, every {00,7f,80,ff} pattern of length 3..7, "
                            "seeded random keys to 4 KiB; partitioner with counts 1..1000, random availability "
                            "subsets, keyed and unkeyed, and the producer._partition glue. distinct = distinct "
                            "(key, partitions, available, choice) tuples; all are non-trivial (each runs the hash)")
    ctx.coverage["traces_validated_against_impl"] = len(lines)
    if mism:
        ctx.broken.append({"kind": "correspondence", "tie": "T-diff c17 (murmur2 / DefaultPartitioner vs AkVerif.Murmur)",
                           "mismatches": len(mism),
                           "first": {"op": lines[mism[0]][:300], "impl": impl[mism[0]], "model": out[mism[0]]}})
    # the translation of the source text (Gen/MurmurSrc.lean, regenerated by this run) evaluated on the same keys
    src_idx = [i for i in range(len(lines)) if meta[i]["kind"] == "murmur"]
    src_out = ctx.driver("akdriver", ["c17s srcmurmur " + lines[i].split(" ", 2)[2] for i in src_idx]) if src_idx else []
    src_mism = [i for i, o in zip(src_idx, src_out) if o != impl[i]]
    ctx.coverage["translated_source_evaluated_on_keys"] = len(src_idx)
    if src_mism:
        j = src_mism[0]
        ctx.broken.append({"kind": "correspondence",
                           "tie": "T-diff c17s (translated source text of murmur2, Gen/MurmurSrc.lean, vs the running murmur2)",
                           "mismatches": len(src_mism),
                           "first": {"op": lines[j][:300], "impl": impl[j], "translated_source": src_out[src_idx.index(j)]}})
    # S: failing-input search — evaluate the Lean statement on the implementation's results
    if src_mism and not mism and proved:
        search(ctx, part, lines, impl, meta, [])
    if mism or not proved:
        search(ctx, part, lines, impl, meta, mism)


def search(ctx, part, lines, impl, meta, mism):
    """the property statement (Lean `holdsKeyed` / `holdsUnkeyed`, Java arithmetic) on observations"""
    q, idx = [], []
    for i in (mism or range(len(lines))):
        m = meta[i]
        if m["kind"] == "murmur":
            # murmur2(key) observed; the property only constrains (h & 0x7fffffff) % n for n in 1..1000:
            if impl[i] == "raise":
                ctx.violation("murmur2-raises", f"murmur2 raises on key {m['key'] or '(empty)'}",
                              {"cases": [m], "observed": "raise"})
                return
            h = int(impl[i]) & 0x7FFFFFFF
            for n in (1000, 999, 7, 2**31 - 1):
                q.append(f"c17 holds-keyed {m['key'] or '-'} {csv(list(range(n)) if n <= 1000 else [])} {h % n}")
                idx.append((i, n))
                if n > 1000:
                    q.pop(); idx.pop()
        else:
            if impl[i] == "raise":
                if m["all"]:
                    ctx.violation("partitioner-raises", "partitioner raises on a non-empty topic",
                                  {"cases": [m], "observed": "raise"})
                    return
                continue
            if m["key"] is None:
                q.append(f"c17 holds-unkeyed {csv(m['avail'])} {impl[i]}")
            else:
                q.append(f"c17 holds-keyed {m['key'] or '-'} {csv(m['all'])} {impl[i]}")
            idx.append((i, None))
    res = ctx.driver("akdriver", q)
    for (i, n), r in zip(idx, res):
        if r != "true":
            m = dict(meta[i])
            if n:
                m = {"kind": "part", "key": m["key"], "all": list(range(n)), "avail": [], "choice": 0}
            sig = "keyed-partition-differs-from-java" if m["key"] is not None else "unkeyed-not-in-available"
            ctx.violation(sig, f"{sig}: observed {impl[i]} for {lines[i][:120]}",
                          {"cases": [m], "observed": impl[i], "lean_statement": q[res.index(r)][:200]})
            return
