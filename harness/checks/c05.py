"""C05 — within a generation partitions have one owner; revoked partitions go silent; revoke callbacks
finish before assign callbacks.

Proof: lean/AkVerif/Props/C05.lean about the acceptor lean/AkVerif/Model/Member.lean.
Tie (T-trace): real AIOKafkaConsumer group members (1..4 slots, restarted incarnations, range / roundrobin /
sticky, one assignor per group) run on the simulator against its group coordinator; the merged history
(listener callbacks, assignment() snapshots, every delivered record, subscription changes; every JoinGroup /
SyncGroup / Fetch request and reply and the coordinator's generation and assignment decisions) must be
accepted by the Lean acceptor.  Search: the property evaluated directly on the observations
(group_common.check_c05).
"""
from checks import group_common as G

CLAUSE = {
    "delivered-while-gate-closed": "silent_after_revoke",
    "delivered-partition-not-in-assignment": "silent_after_revoke",
    "delivered-record-not-fetched-under-current-assignment": "stale_data_never_delivered",
    "adopted-differs-from-distributed": "adopt_exactly",
    "assignment()-differs-from-adopted": "adopt_exactly",
    "assign-callback-without-sync-reply": "adopt_exactly",
    "leader-assignment-overlaps": "disjoint_in_generation",
    "leader-assignment-not-subscribed": "only_subscribed",
    "leader-assignment-to-non-member": "adopt_exactly",
    "join-before-revoke-callback-finished": "revoke_before_assign_groupwide",
    "join-sent-during-callback": "revoke_before_assign_groupwide",
    "session-expired-during-revoke-callback": "revoke_before_assign_groupwide",
    "adopted-under-superseded-subscription": "stale_data_never_delivered",
}


def run(ctx):
    ctx.coverage["trusted_base"] = [
        "Lean 4.33.0 kernel; axioms propext, Classical.choice, Quot.sound only",
        "harness/sim (virtual-time loop, simulated brokers and group coordinator: join barrier, generations, "
        "SyncGroup pass-through, session expiry) — its decisions are re-derived by the Env guards of the Lean "
        "acceptor (genStart / joinR / syncR / distribute-once); a disagreement is exit 2",
        "harness/checks/group_common.py: hooks (ConsumerRebalanceListener, assignment(), subscription(), "
        "getone/getmany results), merging with the cluster trace, translation to Ev tokens, Driver/GroupIO.lean",
        "the generation of an on_partitions_assigned callback is taken from the member's last delivered successful "
        "SyncGroup reply (public observation), not from coordinator internals",
        "code between two events (scheduling inside aiokafka) is covered only by the sampled histories",
    ]
    ctx.assumptions += [
        "one assignor per member (two assignors trigger the C06 join-loop defect, handled under C06)",
        "the leader's assignment is checked for validity on every history (disjoint, only subscribed topics); that the "
        "three assignors always produce such assignments is C14's theorem, not re-proved here",
        "leaveR (own LeaveGroup answered → gate closed) and expire (no session expiry during the revoke callback) are "
        "judged only for members with an undisturbed coordination channel so far (no fault aimed at them, no coordinator "
        "failover) and, for expire, only for the member id the member currently uses; the application does not poll in "
        "the 20 ms after a LeaveGroup answer (travel time + one auto-commit round trip before the gate closes)",
        "crash points, fault placements and schedules of the implementation are sampled by the simulator",
    ]
    ctx.coverage["rule"] = (
        "seeded scenarios: 1..4 member slots × ≤3 incarnations, equal / different / pattern subscriptions, "
        "range|roundrobin|sticky, getmany/getone mixes, async listener callbacks with 0..200 ms sleeps, stop / kill "
        "(abort_client + cancel all tasks) after k deliveries or at time t, subscribe() to other topics mid-run, "
        "add_partitions, add_topic (pattern match appears), coordinator failover with/without state, error / "
        "drop_before / drop_after / lose_reply / delay faults on JoinGroup, SyncGroup, Heartbeat, OffsetCommit, "
        "OffsetFetch, FindCoordinator, Fetch, ListOffsets aimed at single members, a producer (25 % transactional) "
        "appending during the run, raising key/value deserializers and CRC-corrupted fetch batches (the application "
        "catches the exception and keeps polling), non-retriable coordination errors, held / stale fetch answers, "
        "members with max_poll_interval_ms 1..1.5 s whose application pauses longer than that (they leave the group "
        "by themselves and poll again later), members whose revoke callback (2..3.3 s) outlasts their session timeout "
        "(1.5 s; rebalance timeout 5 s). non-trivial = ≥2 generations, ≥1 delivery, ≥1 commit; distinct by (scenario, sizes)")
    G.run_check(ctx, "C05", CLAUSE.get, n_quick=100, n_thorough=4000)
