"""C10 — decoding untrusted bytes is memory-safe, terminating and fails cleanly.

Proof: Props/C10.lean about the models of Model/Safe.lean (every buffer access of the Cython
decoders through `rd`, Python primitives for the pure-Python decoders; the `Cfg` flags select
between the code before and after the `fix:` commits of this property).

Tie (T-diff): the same byte strings go to
  * the compiled decoders, REBUILT from the .pyx of the repo under test into a scratch directory,
    once plain (gcc -O2) and once with AddressSanitizer (clang, system allocator);
  * the plain build again with the buffer placed directly in front of a PROT_NONE page (a CPython
    bytes object keeps a NUL behind its data, so a 1-byte over-read is invisible to ASan there);
  * the pure-Python decoders (AIOKAFKA_NO_EXTENSIONS=1);
all in child processes under a hard wall-clock kill, and to the Lean models; outcome class,
validate_crc() result and every decoded record are compared.  The codec (gzip/snappy/lz4/zstd) is
an oracle: what the implementation's codec call returned is handed to the model.

Failing-input search: a crash / sanitizer report / kill / SystemError / MemoryError IS the failing
input; a mere difference between model and implementation is followed by a sweep over all
truncations and byte mutations of the differing input under ASan and the guard page.
"""
import gzip
import json
import os
import queue
import re
import shutil
import struct
import subprocess
import sys
import threading
import time
import zlib
from pathlib import Path

from vlib import HarnessError, PY, scratch_dir

HERE = Path(__file__).resolve().parent
WORKER = HERE / "c10_worker.py"
FIXED = "1111111"          # the seven repair flags of Model/Safe.lean `Cfg`; 8th = magicRel (probed)
INPUT_LIMIT_S = 10         # wall-clock per input (a decoder needs microseconds)
CONFIRM_LIMIT_S = 45       # a suspected hang is re-run alone with this limit before it is believed
STARTUP_LIMIT_S = 240      # ASan start-up of CPython is slow on a loaded machine


# --------------------------------------------------------------------------- reference encoders
# (generator side only: nothing of /repo is used to BUILD inputs)

def hx(b):
    return bytes(b).hex() if b else "-"


def zigzag(v):
    return (v << 1) ^ (v >> 63)


def uvarint(u, pad=0):
    out = bytearray()
    while u >= 0x80:
        out.append((u & 0x7F) | 0x80)
        u >>= 7
    out.append(u)
    for _ in range(pad):            # over-long form: continuation bit + zero groups
        out[-1] |= 0x80
        out.append(0)
    return bytes(out)


def varint(v, pad=0):
    return uvarint(zigzag(v) & ((1 << 64) - 1) if v < 0 else zigzag(v), pad)


_CRC32C_TABLE = []
for _i in range(256):
    _c = _i
    for _ in range(8):
        _c = (_c >> 1) ^ 0x82F63B78 if _c & 1 else _c >> 1
    _CRC32C_TABLE.append(_c)


def crc32c(data):
    c = 0xFFFFFFFF
    for x in data:
        c = _CRC32C_TABLE[(c ^ x) & 0xFF] ^ (c >> 8)
    return c ^ 0xFFFFFFFF


class Spans(list):
    """(name, start, end, kind) of the fields of an encoded buffer; kind: i32 | i16 | i64 | varint | i8"""


def v2_record(offset_delta, ts_delta, key, value, headers, spans=None, base=0, ov=None):
    """ov: overrides {field: value} for length/keylen/vallen/hcount/...; spans get (name, start, end, kind)
    relative to the buffer in which the record starts at `base`"""
    ov = ov or {}
    body = bytearray()
    rel = []

    def put(name, v):
        enc = varint(ov.get(name, v))
        rel.append((name, len(body), len(body) + len(enc), "varint"))
        body.extend(enc)

    put("attrs", 0)
    put("ts_delta", ts_delta)
    put("offset_delta", offset_delta)
    put("keylen", -1 if key is None else len(key))
    if key is not None:
        body.extend(key)
    put("vallen", -1 if value is None else len(value))
    if value is not None:
        body.extend(value)
    put("hcount", len(headers))
    for hk, hv in headers:
        put("hkeylen", len(hk))
        body.extend(hk)
        put("hvallen", -1 if hv is None else len(hv))
        if hv is not None:
            body.extend(hv)
    ln = varint(ov.get("length", len(body)))
    if spans is not None:
        spans.append(("length", base, base + len(ln), "varint"))
        for n, s0, e0, k in rel:
            spans.append((n, base + len(ln) + s0, base + len(ln) + e0, k))
    return ln + bytes(body)


def compress(codec, data, rng=None):
    import cramjam
    if codec == 1:
        return gzip.compress(data, mtime=0)
    if codec == 2:
        if rng is not None and rng.random() < 0.5:
            return bytes(cramjam.snappy.compress_raw(data))
        out = bytearray(b"\x82SNAPPY\x00" + struct.pack("!ii", 1, 1))
        for i in range(0, len(data), 32 * 1024) or [0]:
            blk = bytes(cramjam.snappy.compress_raw(data[i:i + 32 * 1024]))
            out += struct.pack("!i", len(blk)) + blk
        return bytes(out)
    if codec == 3:
        return bytes(cramjam.lz4.compress(data))
    if codec == 4:
        return bytes(cramjam.zstd.compress(data))
    return data


V2_FIELDS = [("base_offset", 0, 8, "i64"), ("length", 8, 12, "i32"), ("leader_epoch", 12, 16, "i32"),
             ("magic", 16, 17, "i8"), ("crc", 17, 21, "i32"), ("attributes", 21, 23, "i16"),
             ("last_offset_delta", 23, 27, "i32"), ("first_ts", 27, 35, "i64"), ("max_ts", 35, 43, "i64"),
             ("producer_id", 43, 51, "i64"), ("producer_epoch", 51, 53, "i16"),
             ("base_sequence", 53, 57, "i32"), ("count", 57, 61, "i32")]


def v2_batch(payload, count, attrs=0, base_offset=0, first_ts=1000, max_ts=1000, magic=2,
             fix_crc=True, length=None, rng=None):
    codec = attrs & 7
    data = compress(codec, payload, rng) if codec in (1, 2, 3, 4) else payload
    tail = struct.pack(">hiqqqhii", attrs, max(count - 1, 0), first_ts, max_ts, -1, -1, -1, count) + data
    crc = crc32c(tail) if fix_crc else 0
    body = struct.pack(">ibI", 0, magic, crc) + tail
    return struct.pack(">qi", base_offset, len(body) if length is None else length) + body


def legacy_msg(magic, offset, attrs=0, ts=0, key=None, value=b"", keysize=None, valsize=None,
               length=None, fix_crc=True, spans=None, base=0):
    body = bytearray(struct.pack(">bb", magic, attrs))
    if magic == 1:
        body += struct.pack(">q", ts)
    ko = 12 + 4 + len(body)
    body += struct.pack(">i", (-1 if key is None else len(key)) if keysize is None else keysize)
    if key is not None:
        body += key
    vo = 12 + 4 + len(body)
    body += struct.pack(">i", (-1 if value is None else len(value)) if valsize is None else valsize)
    if value is not None:
        body += value
    crc = zlib.crc32(bytes(body)) & 0xFFFFFFFF if fix_crc else 0
    msg = struct.pack(">I", crc) + bytes(body)
    if spans is not None:
        spans += [("offset", base, base + 8, "i64"), ("length", base + 8, base + 12, "i32"),
                  ("crc", base + 12, base + 16, "i32"), ("magic", base + 16, base + 17, "i8"),
                  ("attributes", base + 17, base + 18, "i8"),
                  ("keysize", base + ko, base + ko + 4, "i32"), ("valsize", base + vo, base + vo + 4, "i32")]
        if magic == 1:
            spans.append(("timestamp", base + 18, base + 26, "i64"))
    return struct.pack(">qi", offset, len(msg) if length is None else length) + msg


def legacy_wrapper(magic, codec, inner, offset=10, ts=5000, attrs_extra=0, rng=None, **kw):
    return legacy_msg(magic, offset, attrs=codec | attrs_extra, ts=ts, key=None,
                      value=compress(codec, inner, rng), **kw)


BOUNDARY = {"i8": [-128, -1, 0, 1, 2, 127], "i16": [-2 ** 15, -2, -1, 0, 8, 2 ** 15 - 1],
            "i32": [-2 ** 31, -13, -12, -2, -1, 0, 1, 13, 14, 2 ** 31 - 1],
            "i64": [-2 ** 63, -2, -1, 0, 2 ** 63 - 1],
            "varint": [-2 ** 63, -2 ** 31, -2, -1, 0, 1, 2 ** 31 - 1, 2 ** 63 - 1]}
PACK = {"i8": ">b", "i16": ">h", "i32": ">i", "i64": ">q"}


def replace_field(buf, span, v):
    name, s, e, kind = span
    enc = varint(v) if kind == "varint" else struct.pack(PACK[kind], v)
    return buf[:s] + enc + buf[e:]


def fix_v2(buf):
    """re-establish length and crc of a (tampered) uncompressed v2 batch"""
    if len(buf) < 61:
        return buf
    b = bytearray(buf)
    b[8:12] = struct.pack(">i", len(b) - 12)
    b[17:21] = struct.pack(">I", crc32c(bytes(b[21:])))
    return bytes(b)


# --------------------------------------------------------------------------- input generation

class Gen:
    def __init__(self, ctx):
        self.ctx = ctx
        self.rng = ctx.rng("inputs")
        self.jobs = []        # (entry, crc, magic, pos, guard, buf)
        self.cat = []         # category of each job
        self.seen = set()
        self.inputs = 0       # distinct (category-independent) byte strings

    def add(self, cat, entry, buf, crc=1, magic=0, pos=0, guard=0):
        key = (entry, crc, magic, pos, guard, buf)
        if key in self.seen:
            return
        self.seen.add(key)
        self.jobs.append(key)
        self.cat.append(cat)

    def batch_d(self, cat, buf, crc=None, mem=True):
        """a buffer meant for DefaultRecordBatch: both implementations, bytes / guard page, and
        (mem) through MemoryRecords"""
        crc = self.rng.randrange(2) if crc is None else crc
        self.inputs += 1
        for e in ("cyD", "pyD"):
            self.add(cat, e, buf, crc)
        self.add(cat, "cyD", buf, crc, guard=1)
        if mem:
            for e in self.mem_entries(cat):
                self.add(cat, e, buf, crc)

    N_CATS = ("valid", "corpus", "short-batch", "truncated-consistent")

    def mem_entries(self, cat):
        """MemoryRecords under the has_next()-guarded driver (M) and, for the categories where the end of
        the buffer matters (everything in the thorough tier), also driven by next_batch() until None (N)"""
        if cat in self.N_CATS:
            return ("cyM", "pyM", "cyN", "pyN")
        if self.ctx.thorough:
            # single batches differ between the drivers only at the end of the buffer: every 3rd suffices
            self._nth = getattr(self, "_nth", 0) + 1
            if cat != "byte-mutation" or self._nth % 3 == 0:
                return ("cyM", "pyM", "cyN", "pyN")
        return ("cyM", "pyM")

    def batch_l(self, cat, buf, magic, crc=None, also_other_magic=False, mem=True):
        crc = self.rng.randrange(2) if crc is None else crc
        self.inputs += 1
        for e in ("cyL", "pyL"):
            self.add(cat, e, buf, crc, magic)
        self.add(cat, "cyL", buf, crc, magic, guard=1)
        if also_other_magic:
            for e in ("cyL", "pyL"):
                self.add(cat, e, buf, crc, 1 - magic)
        if mem:
            for e in self.mem_entries(cat):
                self.add(cat, e, buf, crc)

    def mem(self, cat, buf, crc=None):
        crc = self.rng.randrange(2) if crc is None else crc
        self.inputs += 1
        for e in ("cyM", "pyM", "cyN", "pyN"):
            self.add(cat, e, buf, crc)

    def var(self, cat, buf, pos=0):
        self.inputs += 1
        self.add(cat, "cyV", buf, 0, 0, pos)
        self.add(cat, "cyV", buf, 0, 0, pos, guard=1)
        self.add(cat, "pyV", buf, 0, 0, pos)

    # ------------------------------------------------------------------ corpus of valid buffers
    def records(self, n, rich):
        rng = self.rng
        spans = Spans()
        out = bytearray()
        for i in range(n):
            key = None if rng.random() < 0.3 else rng.randbytes(rng.choice([0, 1, 3, 9]))
            value = None if rng.random() < 0.15 else rng.randbytes(rng.choice([0, 1, 5, 20, 70 if rich else 7]))
            hs = []
            if rich and rng.random() < 0.6:
                for _ in range(rng.randrange(1, 3)):
                    hk = rng.choice([b"h", b"k\xc3\xa9y", b"", b"trace-id"])
                    hs.append((hk, None if rng.random() < 0.3 else rng.randbytes(rng.randrange(0, 4))))
            out += v2_record(i, rng.choice([0, 1, 63, 64, 8191, -1]), key, value, hs, spans, base=61 + len(out))
        return bytes(out), spans

    def corpus(self):
        """valid buffers with their field maps: list of (tag, kind, magic, buf, spans, payload-builder)"""
        rng = self.rng
        out = []
        for codec in (0, 1, 2, 3, 4):
            for n, rich in ((1, False), (3, True)):
                payload, spans = self.records(n, rich)
                attrs = codec | rng.choice([0, 8, 16, 0x20])
                buf = v2_batch(payload, n, attrs=attrs, base_offset=rng.choice([0, 5, 2 ** 40]), rng=rng)
                out.append((f"v2-c{codec}-n{n}", "D", 2, buf, list(V2_FIELDS) + (list(spans) if codec == 0 else []),
                            (payload, n, attrs)))
        for magic in (0, 1):
            for codec in (0, 1, 2, 3):
                if codec == 0:
                    sp = Spans()
                    buf = legacy_msg(magic, 7, ts=123456, key=rng.choice([None, b"k", b"key1"]),
                                     value=rng.choice([None, b"", b"value-bytes"]), spans=sp)
                    out.append((f"v{magic}-plain", "L", magic, buf, list(sp), None))
                else:
                    inner = b"".join(legacy_msg(magic, i, ts=1000 + i, key=rng.choice([None, b"k"]),
                                                value=None if rng.random() < 0.25 else
                                                rng.randbytes(rng.randrange(0, 6))) for i in range(3))
                    sp = Spans()
                    buf = legacy_wrapper(magic, codec, inner, rng=rng, spans=sp,
                                         attrs_extra=rng.choice([0, 8]))
                    out.append((f"v{magic}-c{codec}", "L", magic, buf, list(sp), (inner, codec)))
        return out

    # ------------------------------------------------------------------ the hostile streams
    def generate(self):
        ctx, rng = self.ctx, self.rng
        thorough = ctx.thorough
        corpus = self.corpus()
        rounds = 5 if thorough else 1
        for rnd in range(rounds):
            if rnd:
                corpus = self.corpus()
            for tag, kind, magic, buf, spans, extra in corpus:
                put = (lambda c, b, **k: self.batch_d(c, b, **k)) if kind == "D" else \
                      (lambda c, b, **k: self.batch_l(c, b, magic, **k))
                if kind == "D":
                    self.batch_d("valid", buf, crc=1)
                else:
                    self.batch_l("valid", buf, magic, crc=1, also_other_magic=True)
                # every truncation point
                for cut in range(len(buf)):
                    t = buf[:cut]
                    put("truncated", t)
                    if cut >= 12 and (thorough or cut % 3 == 0):
                        # ... with the length field made consistent again (a slice MemoryRecords hands out)
                        put("truncated-consistent", t[:8] + struct.pack(">i", cut - 12) + t[12:])
                # every single-byte mutation (several values per position)
                for i in range(len(buf)):
                    vals = {buf[i] ^ 0x01, buf[i] ^ 0x80, 0xFF, rng.randrange(256)}
                    if thorough:
                        vals |= {buf[i] ^ (1 << k) for k in range(8)} | {0x00, 0x7F, 0x80, (buf[i] + 1) & 255}
                    for k, v in enumerate(sorted(vals - {buf[i]})):
                        # quick tier: every mutation through the batch classes, one per position also
                        # through MemoryRecords (same decoder behind the slicing)
                        put("byte-mutation", buf[:i] + bytes([v]) + buf[i + 1:], mem=(thorough or k == i % 3))
                # every length / count / size / varint field replaced by boundary values
                for sp in spans:
                    for v in BOUNDARY[sp[3]] + [rng.randrange(-300, 300)]:
                        try:
                            m = replace_field(buf, sp, v)
                        except struct.error:
                            continue
                        put("field-boundary", m)
                        if kind == "D" and sp[1] >= 21 and (buf[21] << 8 | buf[22]) & 7 == 0:
                            put("field-boundary-crc-ok", fix_v2(m))
            # nested payloads with inconsistent inner structure
            self.nested(thorough)
            self.short_batches()
            self.mixed(corpus)
            self.random_strings(4000 if thorough else 500)
            self.varints(3000 if thorough else 400)

    def nested(self, thorough):
        rng = self.rng
        for magic in (0, 1):
            for codec in (1, 2, 3):
                base_inner = [legacy_msg(magic, i, ts=50 + i, key=None, value=b"v%d" % i) for i in range(3)]
                variants = [("nested-empty", b"")]
                # null (tombstone) / empty keys and values inside a compressed set, at every place
                for where in (0, 1, 2):
                    for k, v in ((None, None), (b"k", None), (b"", b""), (None, b"")):
                        msgs = list(base_inner)
                        msgs[where] = legacy_msg(magic, where, ts=50 + where, key=k, value=v)
                        variants.append(("nested-null-fields", b"".join(msgs)))
                variants.append(("nested-null-fields", b"".join(
                    legacy_msg(magic, i, ts=50 + i, key=None, value=None) for i in range(3))))
                for L in BOUNDARY["i32"] + [25, 26, 40]:
                    for where in (0, 1, 2):
                        msgs = list(base_inner)
                        msgs[where] = msgs[where][:8] + struct.pack(">i", L) + msgs[where][12:]
                        variants.append(("nested-inner-length", b"".join(msgs)))
                whole = b"".join(base_inner)
                for cut in range(1, len(whole), 1 if thorough else 2):
                    variants.append(("nested-inner-truncated", whole[:cut]))
                for off in (-1, -2, 2 ** 63 - 1, -2 ** 63):
                    variants.append(("nested-inner-offset", whole[:-len(base_inner[2])] +
                                     legacy_msg(magic, off, ts=1, value=b"z")))
                for ks, vs in ((-2, None), (None, -2), (-2 ** 31, None), (None, -2 ** 31), (5, None), (None, 5),
                               (2 ** 31 - 1, None), (None, 2 ** 31 - 1)):
                    variants.append(("nested-inner-size", whole + legacy_msg(magic, 9, ts=1, key=b"ab" if ks else None,
                                                                             value=b"cd", keysize=ks, valsize=vs)))
                variants.append(("nested-double-compressed", legacy_msg(magic, 0, attrs=1, ts=1, value=b"x")))
                variants.append(("nested-other-magic", legacy_msg(1 - magic, 0, ts=1, value=b"x") * 2))
                for cat, inner in variants:
                    for extra in (0, 8):
                        self.batch_l(cat, legacy_wrapper(magic, codec, inner, rng=rng, attrs_extra=extra), magic)
            # wrapper whose value is null / sizes are hostile
            for ks, vs in ((None, -1), (-2, None), (None, -2), (3, None), (None, 100), (-2 ** 31, None)):
                self.batch_l("wrapper-sizes", legacy_msg(magic, 1, attrs=1, ts=2, key=None, value=b"abcd",
                                                         keysize=ks, valsize=vs), magic)
            for codec in (4, 5, 6, 7):
                self.batch_l("unknown-codec", legacy_msg(magic, 1, attrs=codec, ts=2, value=b"abcd"), magic)
        # v2: tampered records inside a compressed payload (crc valid)
        for codec in (1, 2, 3, 4):
            payload, spans = self.records(2, True)
            for sp in spans:
                for v in BOUNDARY["varint"]:
                    rel = (sp[0], sp[1] - 61, sp[2] - 61, sp[3])
                    self.batch_d("nested-v2-field", v2_batch(replace_field(payload, rel, v), 2, attrs=codec, rng=rng))
            for cut in range(len(payload)):
                self.batch_d("nested-v2-truncated", v2_batch(payload[:cut], 2, attrs=codec, rng=rng))
            for cnt in (-2 ** 31, -1, 0, 1, 3, 2 ** 31 - 1):
                self.batch_d("nested-v2-count", v2_batch(payload, cnt, attrs=codec, rng=rng))
            self.batch_d("nested-empty", v2_batch(b"", 0, attrs=codec, rng=rng))
        for codec in (5, 6, 7):
            payload, _ = self.records(1, False)
            self.batch_d("unknown-codec", v2_batch(payload, 1, attrs=codec))
        # garbage handed to the codecs
        for codec in (1, 2, 3, 4):
            for _ in range(6):
                junk = rng.randbytes(rng.randrange(0, 40))
                b = struct.pack(">hiqqqhii", codec, 0, 0, 0, -1, -1, -1, 1) + junk
                body = struct.pack(">ibI", 0, 2, crc32c(b)) + b
                self.batch_d("codec-garbage", struct.pack(">qi", 0, len(body)) + body)
                if codec < 4:
                    self.batch_l("codec-garbage", legacy_msg(1, 0, attrs=codec, ts=1, value=junk), 1)

    def short_batches(self):
        """batches shorter than their format's header, length field consistent (what MemoryRecords
        slices out) and inconsistent"""
        rng = self.rng
        for magic in (0, 1, 2, 3, 127, 128, 255):
            for n in list(range(0, 70)):
                body = bytes([0] * 4 + [magic]) + rng.randbytes(max(n - 17, 0))
                buf = (struct.pack(">qi", 3, n - 12) + body)[:n]
                if magic >= 2 and magic < 128:
                    self.batch_d("short-batch", buf)
                else:
                    self.batch_l("short-batch", buf, magic & 1)
                self.mem("short-batch", buf + rng.randbytes(rng.choice([0, 0, 5, 30])))

    def mixed(self, corpus):
        rng = self.rng
        bufs = [c[3] for c in corpus]
        plain = [c[3] for c in corpus if c[0] in ("v2-c0-n1", "v0-plain", "v1-plain", "v2-c1-n1", "v1-c1", "v0-c1")]
        for a in plain:
            for b in plain:
                self.mem("mixed-magic", a + b)
                self.mem("mixed-magic", a + b + a[:rng.randrange(0, len(a))])
        for _ in range(60):
            parts = [rng.choice(bufs) for _ in range(rng.randrange(2, 5))]
            cat = b"".join(parts)
            self.mem("mixed-magic", cat)
            i = rng.randrange(len(cat))
            self.mem("mixed-magic-mutated", cat[:i] + bytes([rng.randrange(256)]) + cat[i + 1:])
            self.mem("mixed-magic-truncated", cat[:rng.randrange(len(cat))])
        self.trailing_partial(plain)
        # hostile outer length fields
        a = plain[0]
        for L in BOUNDARY["i32"] + [len(a) - 12 - 1, len(a) - 12 + 1, 2 * len(a)]:
            self.mem("outer-length", a[:8] + struct.pack(">i", L) + a[12:] + a)
            self.mem("outer-length", a + a[:8] + struct.pack(">i", L) + a[12:] + a)

    def trailing_partial(self, plain):
        """complete batches followed by a partial one, at EVERY truncation point; the prefix is longer
        than the partial batch, so its announced size always fits the whole buffer and only a test
        against what is LEFT (buffer_len - pos) keeps the slice inside - both drivers, both
        implementations; plus bare 12..20-byte trailers announcing sizes around that boundary"""
        rng = self.rng
        prefixes = [plain[0] + plain[2] + plain[1], plain[3] + plain[4] + plain[5] + plain[0]]
        if self.ctx.thorough:
            prefixes += [plain[1] + plain[1] + plain[1] + plain[1], plain[5] + plain[2] + plain[0] + plain[3]]
        for a in prefixes:
            for b in plain:
                for k in range(1, len(b)):
                    self.mem("trailing-partial", a + b[:k])
            for extra in (12, 13, 17, 20, 26):
                left = extra - 12
                for L in (left - 1, left, left + 1, 14, 26, len(a) - 12, len(a) + left - 12, len(a) + left - 11,
                          len(a) + left - 13):
                    tail = struct.pack(">qi", 7, L) + bytes([0, 0, 0, 0, rng.choice([0, 1, 2])] + [0] * 20)[:left]
                    self.mem("trailing-partial-length", a + tail)

    def random_strings(self, n):
        rng = self.rng
        for i in range(n):
            ln = rng.choice([rng.randrange(0, 30), rng.randrange(0, 100), rng.randrange(26, 90)])
            s = bytearray(rng.randbytes(ln))
            style = i % 4
            if style >= 1 and ln >= 17:
                s[8:12] = struct.pack(">i", ln - 12)
                s[16] = rng.choice([0, 1, 2, 2, 3, 255])
            if style == 3 and ln >= 23:
                s[21:23] = struct.pack(">h", rng.choice([0, 0, 8, 1]))
            s = bytes(s)
            magic = s[16] if len(s) > 16 else 0
            if magic >= 2 and magic < 128:
                self.batch_d("random", s)
            else:
                self.batch_l("random", s, magic & 1, also_other_magic=(i % 8 == 0))

    def varints(self, n):
        rng = self.rng
        fixed = [b"", b"\x00", b"\x01", b"\x7f", b"\x80", b"\x80\x00", b"\xff" * 9 + b"\x01", b"\xff" * 9 + b"\x7f",
                 b"\xff" * 10, b"\xff" * 10 + b"\x01", b"\x80" * 9 + b"\x02", b"\x80" * 12, b"\xfe" + b"\xff" * 8 + b"\x01"]
        for f in fixed:
            for pos in (0, 1, len(f), len(f) + 1, -1):
                self.var("varint", f, pos)
        for _ in range(n):
            v = rng.choice([rng.randrange(-2 ** 63, 2 ** 63), rng.randrange(-300, 300), rng.randrange(-2 ** 35, 2 ** 35)])
            enc = varint(v, pad=rng.choice([0, 0, 0, 1, 3]))
            pre = rng.randbytes(rng.randrange(0, 3))
            buf = pre + enc
            cut = rng.choice([len(buf), len(buf), rng.randrange(0, len(buf) + 1)])
            self.var("varint", buf[:cut], len(pre))
            self.var("varint", rng.randbytes(rng.randrange(0, 14)), rng.randrange(0, 4))


# --------------------------------------------------------------------------- child processes

def asan_env():
    lib = subprocess.run(["clang", "-print-file-name=libclang_rt.asan-x86_64.so"], capture_output=True, text=True).stdout.strip()
    if not lib or not os.path.exists(lib):
        raise HarnessError("libclang_rt.asan-x86_64.so not found")
    return {"LD_PRELOAD": lib, "PYTHONMALLOC": "malloc",
            "ASAN_OPTIONS": "detect_leaks=0:allocator_may_return_null=1:handle_segv=1:malloc_context_size=0:"
                            "quarantine_size_mb=8"}


class Runner:
    """runs job lists through worker processes of one flavour; survives crashes and hangs"""

    def __init__(self, name, root, mode, env, nproc, tmp, limit=INPUT_LIMIT_S):
        self.name, self.root, self.mode, self.env, self.nproc, self.tmp = name, root, mode, env, nproc, tmp
        self.limit = limit
        self.suspects = []      # (idx, job) killed for exceeding the per-input limit; to be confirmed
        self.results = {}       # idx -> (canon, oracle)   or  ("crash:...", "-")
        self.restarts = 0
        self.crashes = 0
        self.skipped = 0
        self.crash_budget = 2 * nproc + 6    # a broken build crashes on thousands of inputs: a few suffice

    def _spawn(self, wid, jobs):
        jf = self.tmp / f"{self.name}-{wid}-{self.restarts}.jobs"
        with open(jf, "w") as f:
            for idx, (entry, crc, magic, pos, guard, buf) in jobs:
                f.write(f"{idx} {entry} {crc} {magic} {pos} {guard} {hx(buf)}\n")
        env = dict(os.environ)
        env.pop("PYTHONPATH", None)
        env["PYTHONHASHSEED"] = "0"
        env.update(self.env)
        errf = open(self.tmp / f"{self.name}-{wid}-{self.restarts}.err", "wb")
        p = subprocess.Popen([PY, "-u", str(WORKER), str(self.root), self.mode, str(jf)], env=env,
                             stdout=subprocess.PIPE, stderr=errf, cwd=str(self.tmp))
        return p, errf

    def _work(self, wid, jobs):
        """one worker slot: (re)spawns children until its job list is done"""
        jobs = list(jobs)
        while jobs:
            p, errf = self._spawn(wid, jobs)
            self.restarts += 1
            state = {"last": time.time(), "ready": False, "cur": None, "killed": False, "done": False}

            def watchdog():
                while not state["done"]:
                    time.sleep(0.25)
                    lim = self.limit if state["ready"] else STARTUP_LIMIT_S
                    if time.time() - state["last"] > lim and p.poll() is None:
                        state["killed"] = True
                        p.kill()
                        return
            th = threading.Thread(target=watchdog, daemon=True)
            th.start()
            ended = False
            for raw in p.stdout:
                state["last"] = time.time()
                line = raw.decode("utf-8", "replace").rstrip("\n")
                if line.startswith("S "):
                    state["cur"] = int(line[2:])
                elif line.startswith("R "):
                    _, idx, rest = line.split(" ", 2)
                    canon, _, orc = rest.partition("\t")
                    self.results[int(idx)] = (canon, orc or "-")
                    state["cur"] = None
                elif line == "READY":
                    state["ready"] = True
                elif line == "END":
                    ended = True
                elif line.startswith("F "):
                    state["done"] = True
                    raise HarnessError(f"worker {self.name}: {line}")
            rc = p.wait()
            state["done"] = True
            errf.close()
            err = Path(errf.name).read_bytes().decode("utf-8", "replace")
            if ended and rc == 0:
                return
            if not state["ready"] and not state["killed"]:
                raise HarnessError(f"worker {self.name} died during start-up (rc={rc}): {err[-600:]}")
            if not state["ready"]:
                raise HarnessError(f"worker {self.name} did not start within {STARTUP_LIMIT_S}s")
            cur = state["cur"]
            if cur is None:
                # died between inputs: treat as harness trouble unless it was an ASan exit report
                raise HarnessError(f"worker {self.name} ended between inputs (rc={rc}): {err[-600:]}")
            if state["killed"]:
                out = "crash:hang"
                self.suspects.append(next((idx, j) for idx, j in jobs if idx == cur))
            else:
                m = re.search(r"ERROR: AddressSanitizer: ([\w-]+)", err)
                sm = re.search(r"SUMMARY: AddressSanitizer: [^\n]* in (\w+)", err)
                if m:
                    out = "crash:asan-" + m.group(1)
                    if sm:
                        out += ":" + sm.group(1)[-48:]
                elif rc < 0:
                    out = f"crash:signal-{-rc}"
                else:
                    out = f"crash:exit-{rc}"
            self.results[cur] = (out, "-")
            self.crashes += 1
            # continue after the pinned input
            pos = next(i for i, (idx, _) in enumerate(jobs) if idx == cur)
            jobs = jobs[pos + 1:]
            if self.crashes > self.crash_budget:
                for idx, _ in jobs:
                    self.results[idx] = ("skipped", "-")
                self.skipped += len(jobs)
                return

    def run(self, jobs):
        """jobs: list of (idx, job)"""
        if len(jobs) < 400:
            self.crash_budget = max(self.crash_budget, len(jobs))     # replays, probes: run everything
        slots = [jobs[i::self.nproc] for i in range(self.nproc)]
        errs = []

        def go(w, js):
            try:
                self._work(w, js)
            except BaseException as e:  # noqa: BLE001
                errs.append(e)
        ths = [threading.Thread(target=go, args=(w, js)) for w, js in enumerate(slots) if js]
        for t in ths:
            t.start()
        return ths, errs


# --------------------------------------------------------------------------- the check

def model_lines(jobs, results, cfg):
    lines = []
    for idx, (entry, crc, magic, pos, guard, buf) in jobs:
        orc = results.get(idx, ("", "-"))[1]
        lines.append(f"c10 {entry} {cfg} {crc} {magic} {pos} {hx(buf)} {orc}")
    return lines


FAULT_RE = re.compile(r"fault:[\w-]+|crash:[\w:.-]+|other:\w+")


def signature(entry, got):
    """c10:<entry>:<what>  with what = asan-<kind> | signal-<n> | hang | system-error | memory-error | ..."""
    what = FAULT_RE.search(got).group(0)
    what = re.sub(r"^(crash|fault):", "", what)
    if what.startswith("asan-") or what.startswith("signal-") or what.startswith("exit-"):
        what = what.split(":")[0]
    return f"c10:{entry}:{what}"


def run(ctx):
    ctx.coverage["trusted_base"] = [
        "Lean 4.33.0 kernel; axioms propext, Classical.choice, Quot.sound only",
        "Model/Safe.lean is a hand transcription of the decoders; tied to the code by this T-diff only as far as the "
        "generated inputs reach",
        "C semantics modelled: which bytes are read, Py_ssize_t index arithmetic, PyBytes_FromStringAndSize; int64 "
        "offset/timestamp arithmetic is taken to wrap; other undefined behaviour is out of scope",
        "CPython semantics of indexing, slicing, struct.unpack_from, bytes.decode('utf-8') as transcribed in the model "
        "(pyIndex, pySlice, pyUnpackFrom, isUtf8)",
        "codecs (gzip/snappy/lz4/zstd) are an oracle: total, raise ordinary exceptions on garbage; the model receives "
        "what the implementation's codec call returned; a raw snappy stream that claims more than 64x its own size is "
        "answered 'codec error' by the harness without calling cramjam (cramjam raises too, after reserving up to "
        "4 GiB: seconds per input under ASan, process abort under an address-space limit)",
        "observers: AddressSanitizer (heap redzones; cannot see the NUL byte behind a bytes object nor reads inside "
        "the 32-byte bytes header), a PROT_NONE guard page for memoryview inputs, wall-clock kill for hangs",
        "harness/checks/c10.py, c10_worker.py, the line protocol and Driver/SafeIO.lean",
    ]
    ctx.notes += [
        "repairs made for this property in the repo under test (each a 'fix:' commit): header length check "
        "(default_records.pyx), bounded varint reads (cutil.pyx), overflow-safe _check_bounds, size < -1 and value-size "
        "bound (legacy_records.pyx _read_record), checked walk + 'except? -1' (_read_last_offset), progress check "
        "(legacy_records.py _read_all_headers); theorems c10_before_fix_* hold the kernel-checked witnesses",
    ]
    ctx.assumptions += [
        "buffers are shorter than 2^62 bytes (Py_ssize_t arithmetic of the C models cannot overflow on int32 fields)",
        "the decompressed payload of a compressed batch lives in a bytes object: a 1-byte over-read there would be "
        "invisible to both observers (the proof covers it, the tie cannot)",
    ]
    t0 = time.time()
    tmp = scratch_dir("c10")
    try:
        _run(ctx, tmp, t0)
    finally:
        shutil.rmtree(tmp, ignore_errors=True)


def build_both(repo, tmp):
    """cythonize the four .pyx of the repo under test once, compile them twice (gcc -O2 / clang ASan),
    everything in parallel; returns {"plain": dir, "asan": dir} to put on sys.path"""
    src = Path(repo) / "aiokafka"
    ign = shutil.ignore_patterns("*.so", "__pycache__", "*.c")
    roots = {"plain": tmp / "plain", "asan": tmp / "asan"}
    for root in roots.values():
        shutil.copytree(src, root / "aiokafka", ignore=ign)
    gen = roots["plain"] / "aiokafka" / "record" / "_crecords"     # keeps the package path cython needs
    shutil.copy(src / "record" / "_crecords" / "crc32c.c", gen / "crc32c.c")
    info = subprocess.run([PY, "-c", "import sysconfig;print(sysconfig.get_paths()['include']);"
                           "print(sysconfig.get_config_var('EXT_SUFFIX'))"], capture_output=True, text=True).stdout.split()
    pyinc, suffix = info[0], info[1]
    mods = ["cutil", "default_records", "legacy_records", "memory_records"]
    procs = [(m, subprocess.Popen([PY, "-m", "cython", "-3", f"{m}.pyx"], cwd=gen, stdout=subprocess.PIPE,
                                  stderr=subprocess.STDOUT)) for m in mods]
    for m, p in procs:
        out, _ = p.communicate()
        if p.returncode != 0:
            raise HarnessError(f"cython failed on {m}.pyx:\n{out.decode()[-1500:]}")
    procs = []
    for name, cc in (("plain", ["gcc", "-O2"]),
                     ("asan", ["clang", "-O1", "-g", "-fsanitize=address", "-fno-omit-frame-pointer", "-shared-libasan"])):
        dest = roots[name] / "aiokafka" / "record" / "_crecords"
        for m in mods:
            srcs = [f"{m}.c"] + (["crc32c.c"] if m in ("cutil", "default_records") else [])
            cmd = cc + ["-shared", "-fPIC", "-w", f"-I{pyinc}", "-I.", *srcs, "-o", str(dest / f"{m}{suffix}"), "-lz"]
            procs.append((f"{name}/{m}", subprocess.Popen(cmd, cwd=gen, stdout=subprocess.PIPE, stderr=subprocess.STDOUT)))
    for m, p in procs:
        out, _ = p.communicate()
        if p.returncode != 0:
            raise HarnessError(f"cc failed on {m}:\n{out.decode()[-1500:]}")
    return roots


def _run(ctx, tmp, t0):
    builds = {}
    berr = []

    def build():
        try:
            builds.update(build_both(ctx.repo, tmp))
        except BaseException as e:  # noqa: BLE001
            berr.append(e)
    bt = [threading.Thread(target=build)]
    for t in bt:
        t.start()
    proved_box = {}
    pt = threading.Thread(target=lambda: proved_box.setdefault("ok", ctx.prove(drivers=["akdriver"])))
    pt.start()

    # ---- inputs
    if ctx.replay_cases is not None:
        jobs = []
        cats = []
        for c in ctx.replay_cases:
            buf = bytes.fromhex(c["buf"]) if c["buf"] != "-" else b""
            jobs.append((c["entry"], int(c.get("crc", 1)), int(c.get("magic", 0)), int(c.get("pos", 0)),
                         int(c.get("guard", 0)), buf))
            cats.append("replay")
        n_inputs = len(jobs)
    else:
        g = Gen(ctx)
        g.seeds = load_corpus()
        for c in g.seeds:
            buf = bytes.fromhex(c["buf"]) if c["buf"] != "-" else b""
            g.add("corpus", c["entry"], buf, int(c.get("crc", 1)), int(c.get("magic", 0)), int(c.get("pos", 0)),
                  int(c.get("guard", 0)))
            if c["entry"].startswith("cy") and c["entry"] not in ("cyM", "cyN"):
                g.add("corpus", c["entry"], buf, int(c.get("crc", 1)), int(c.get("magic", 0)), int(c.get("pos", 0)), 1)
        g.generate()
        jobs, cats, n_inputs = g.jobs, g.cat, g.inputs
    ijobs = list(enumerate(jobs))
    ctx.log(f"{n_inputs} byte strings -> {len(jobs)} decoder runs per flavour group; generation {time.time() - t0:.1f}s")

    for t in bt:
        t.join()
    if berr:
        raise berr[0] if isinstance(berr[0], HarnessError) else HarnessError(f"scratch build failed: {berr[0]!r}")
    ctx.log(f"scratch builds (plain + ASan) ready at {time.time() - t0:.1f}s")

    ncpu = os.cpu_count() or 4
    cy_jobs = [(i, j) for i, j in ijobs if j[0].startswith("cy")]
    py_jobs = [(i, j) for i, j in ijobs if j[0].startswith("py")]
    asan_jobs = [(i, j) for i, j in cy_jobs if j[4] == 0]      # guard-page runs only in the plain build
    n_as = max(2, min(ncpu // 2, 8)) if len(asan_jobs) > 200 else 1
    n_pl = max(1, min(ncpu // 4, 4)) if len(cy_jobs) > 200 else 1
    n_py = max(1, min(ncpu // 4, 4)) if len(py_jobs) > 200 else 1
    runners = {
        "asan": Runner("asan", builds["asan"], "cy", asan_env(), n_as, tmp),
        "plain": Runner("plain", builds["plain"], "cy", {}, n_pl, tmp),
        "py": Runner("py", ctx.repo, "py", {"AIOKAFKA_NO_EXTENSIONS": "1"}, n_py, tmp),
    }
    started = [runners["asan"].run(asan_jobs), runners["plain"].run(cy_jobs), runners["py"].run(py_jobs)]
    for ths, _ in started:
        for t in ths:
            t.join()
    for _, errs in started:
        if errs:
            raise errs[0] if isinstance(errs[0], HarnessError) else HarnessError(repr(errs[0]))
    # a kill after INPUT_LIMIT_S on a loaded machine is only a suspicion: re-run such inputs alone
    # (all at once, each in its own process, longer limit); more than 8 per flavour are not pursued
    confirm = []
    unconfirmed = 0
    slow = []
    for name, r in runners.items():
        for k, (idx, job) in enumerate(list(r.suspects)):
            if k >= 8:
                r.results[idx] = ("skipped", "-")
                continue
            c = Runner(f"confirm-{name}-{idx}", r.root, r.mode, r.env, 1, tmp, limit=CONFIRM_LIMIT_S)
            ths, errs = c.run([(idx, job)])
            confirm.append((r, idx, c, ths, errs))
    for r, idx, c, ths, errs in confirm:
        for t in ths:
            t.join()
        if errs:
            raise errs[0] if isinstance(errs[0], HarnessError) else HarnessError(repr(errs[0]))
        r.results[idx] = c.results[idx]
        if c.results[idx][0] != "crash:hang":
            r.crashes -= 1
            unconfirmed += 1
            e, crc, magic, pos, guard, buf = jobs[idx]
            slow.append({"flavour": r.name, "entry": e, "crc": crc, "magic": magic, "pos": pos, "guard": guard,
                         "buf": hx(buf)[:400], "bytes": len(buf), "result": c.results[idx][0][:120]})
    ctx.log(f"implementation runs done at {time.time() - t0:.1f}s "
            f"(crashes/hangs: {sum(r.crashes for r in runners.values())}, "
            f"kills after {INPUT_LIMIT_S}s that finished when re-run alone: {unconfirmed}, "
            f"inputs skipped after the crash budget: {sum(r.skipped for r in runners.values())})")
    ctx.coverage["crashes_or_hangs"] = {k: r.crashes for k, r in runners.items()}
    ctx.coverage["skipped_after_crash_budget"] = {k: r.skipped for k, r in runners.items()}
    ctx.coverage["kills_not_confirmed_as_hangs"] = unconfirmed
    ctx.coverage["slow_inputs_that_finished_when_rerun_alone"] = slow[:5]
    pt.join()
    proved = proved_box.get("ok", False)

    R_plain, R_asan, R_py = runners["plain"].results, runners["asan"].results, runners["py"].results
    for name, js, rs in (("plain", cy_jobs, R_plain), ("asan", asan_jobs, R_asan), ("py", py_jobs, R_py)):
        missing = [i for i, _ in js if i not in rs]
        if missing:
            raise HarnessError(f"{name}: {len(missing)} inputs without a result (first idx {missing[0]})")

    # ---- which variant of memory_records.pyx is this (magic at absolute offset 16 or at pos+16)?
    magic_rel = probe_magic_variant(ctx, runners, tmp)
    cfg = FIXED + ("1" if magic_rel else "0")
    ctx.coverage["memory_records_magic_relative"] = magic_rel

    # ---- the model on the same inputs (oracle = what the implementation's codec returned)
    def oracle_for(idx, job):
        r = (R_py if job[0].startswith("py") else R_plain)[idx]
        if (r[0].startswith("crash:") or r[0] == "skipped") and idx in R_asan:
            return R_asan[idx][1]
        return r[1]
    lines = [f"c10 {j[0]} {cfg} {j[1]} {j[2]} {j[3]} {hx(j[5])} {oracle_for(i, j)}" for i, j in ijobs]
    model = parallel_driver(ctx, lines, tmp)
    ctx.log(f"model evaluated on {len(lines)} runs at {time.time() - t0:.1f}s")

    # ---- is the tie sensitive to each repair?  On the corpus of repaired defects the model with ONE
    # repair switched off must disagree with the implementation (else the check could not tell the
    # repaired from the unrepaired code at that call site)
    flags = ["hdrCheck", "varintBound", "safeBounds", "sizeCheck", "walkCheck", "exceptQ", "pyWalkCheck"]
    cj = [(i, j) for i, j in ijobs if cats[i] == "corpus" and j[4] == 0]
    if cj:
        vl = []
        for k in range(len(flags)):
            c1 = cfg[:k] + "0" + cfg[k + 1:]
            vl += [f"c10 {j[0]} {c1} {j[1]} {j[2]} {j[3]} {hx(j[5])} {oracle_for(i, j)}" for i, j in cj]
        vm = ctx.driver("akdriver", vl)
        disc = {}
        for k, fl in enumerate(flags):
            part = vm[k * len(cj):(k + 1) * len(cj)]
            disc[fl] = sum(1 for (i, j), m in zip(cj, part)
                           if m != (R_py if j[0].startswith("py") else R_plain)[i][0])
        ctx.coverage["corpus_cases_where_the_unrepaired_model_differs_from_the_code"] = disc

    # ---- compare
    hist = {}
    mism = []
    faults = []
    for (i, j), want in zip(ijobs, model):
        entry = j[0]
        obs = [("py", R_py[i][0])] if entry.startswith("py") else \
            [("plain" + ("+guard" if j[4] else ""), R_plain[i][0])] + ([("asan", R_asan[i][0])] if i in R_asan else [])
        key = (entry, j[1], j[2], j[3], j[5])
        nontrivial = len(j[5]) >= 12
        ctx.count(key, nontrivial=nontrivial, n=len(obs))
        for flavour, got in obs:
            if got == "skipped":
                continue
            endm = re.search(r"end=(\S+)$", got)
            oc = endm.group(1) if endm else got.split(":")[0] if got.startswith("ok:") else got
            oc = re.sub(r"codec:\d+:\d+", "codec-error", oc)
            hist.setdefault(entry, {}).setdefault(oc, 0)
            hist[entry][oc] += 1
            if FAULT_RE.search(got):
                faults.append((i, flavour, got, want))
            elif got != want:
                mism.append((i, flavour, got, want))
    ctx.coverage["outcome_distribution"] = hist
    ch = {}
    for c in cats:
        ch[c] = ch.get(c, 0) + 1
    ctx.coverage["input_categories_runs"] = ch
    ctx.coverage["byte_strings"] = n_inputs
    ctx.coverage["decoder_runs"] = {"plain(+guard)": len(cy_jobs), "asan": len(asan_jobs), "pure-python": len(py_jobs)}
    ctx.coverage["traces_validated_against_impl"] = len(cy_jobs) + len(asan_jobs) + len(py_jobs)
    ctx.coverage["rule"] = (
        "inputs: valid v0/v1/v2 buffers (plain, gzip, snappy, lz4, zstd; 1-3 records, headers, null keys/values), every "
        "truncation (also with the length field made consistent), several values at every byte position, every "
        "header/size/varint field set to boundary values (-2^63,-2^31,-13,-12,-2,-1,0,1,13,14,2^31-1,2^63-1), nested "
        "compressed payloads with inconsistent inner lengths/sizes/offsets/truncation/double compression, unknown "
        "codecs, codec garbage, batches of 0..69 bytes for 7 magic values, mixed-magic concatenations with mutation and "
        "truncation, hostile outer lengths, random strings, varints (over-long, truncated, >10 bytes); each through "
        "DefaultRecordBatch / LegacyRecordBatch / MemoryRecords (driven by `while has_next(): next_batch()` = entries "
        "cyM/pyM AND by `next_batch()` until None = cyN/pyN; complete batches followed by a partial one at every "
        "truncation point) of both implementations with and without "
        "validate_crc(). distinct = (entry, crc, magic, pos, bytes); non-trivial = at least 12 bytes")
    for k in (0, len(ijobs) // 3, 2 * len(ijobs) // 3):
        if k < len(ijobs):
            i, j = ijobs[k]
            ctx.sample({"category": cats[i], "entry": j[0], "crc": j[1], "magic": j[2], "buf": hx(j[5])[:160],
                        "impl": (R_py if j[0].startswith("py") else R_plain)[i][0][:200], "model": model[k][:200]})

    def case(i):
        e, crc, magic, pos, guard, buf = jobs[i]
        return {"entry": e, "crc": crc, "magic": magic, "pos": pos, "guard": guard, "buf": hx(buf), "category": cats[i]}

    # the property itself on what the implementation did: crash / sanitizer report / hang / SystemError ...
    seen_sig = set()
    for i, flavour, got, want in faults:
        sig = signature(jobs[i][0], got)
        if sig in seen_sig:
            continue
        seen_sig.add(sig)
        if R_plain.get(i, R_py.get(i, ("", "")))[1] == "-" and "codec:" in want:
            want = "(not computable: the run ended before its codec call could be recorded)"
        ctx.violation(sig, f"{jobs[i][0]} on {len(jobs[i][5])} bytes ({cats[i]}, {flavour} build): {got[:200]}; "
                           f"the repaired model requires: {want[:160]}",
                      {"cases": [case(i)], "observed": got, "required": want, "flavour": flavour})
    if mism:
        i, flavour, got, want = mism[0]
        ctx.broken.append({"kind": "correspondence", "tie": "T-diff c10 (record decoders vs AkVerif.Safe)",
                           "mismatches": len(mism), "first": {"case": case(i), "flavour": flavour, "impl": got[:400], "model": want[:400]}})
        found = False
        if ctx.replay_cases is None:
            found = neighbourhood_search(ctx, runners, tmp, jobs, mism, cfg, case)
        if not found:
            # crc clause: a checksum mismatch reported as valid is a violation by itself
            for i, flavour, got, want in mism:
                gc, wc = re.findall(r"crc=(\w)", got), re.findall(r"crc=(\w)", want)
                if any(a == "t" and b == "f" for a, b in zip(gc, wc)):
                    ctx.violation(f"c10:{jobs[i][0]}:crc-mismatch-accepted",
                                  f"{jobs[i][0]} validate_crc() accepted a batch whose checksum does not match: {got[:160]}",
                                  {"cases": [case(i)], "observed": got, "required": want, "flavour": flavour})
                    found = True
                    break
        if not found:
            by_entry = {}
            for i, flavour, got, want in mism:
                by_entry.setdefault(jobs[i][0], (i, flavour, got, want))
            for e, (i, flavour, got, want) in sorted(by_entry.items()):
                ctx.violation(f"c10:{e}:outcome-differs",
                              f"{e} ({flavour}) no longer behaves as the proven model on {len(jobs[i][5])} bytes ({cats[i]}): "
                              f"impl={got[:200]} model={want[:200]}",
                              {"cases": [case(i)], "observed": got, "required": want, "flavour": flavour,
                               "mismatches": len(mism),
                               "broken": "T-diff c10: the implementation is no longer the model the theorems of "
                                         "Props/C10.lean are about; no crash/over-read/hang/SystemError was found "
                                         "around the differing inputs"}, no_input=True)
    if not proved and not ctx.violations:
        pass  # finish() reports the broken obligation with no-failing-input-found


def parallel_driver(ctx, lines, tmp):
    ncpu = os.cpu_count() or 4
    n = max(1, min(ncpu, len(lines) // 3000 + 1))
    if n == 1:
        return ctx.driver("akdriver", lines)
    chunks = [lines[k::n] for k in range(n)]
    outs = [None] * n
    errs = []

    def go(k):
        try:
            outs[k] = ctx.driver("akdriver", chunks[k])
        except BaseException as e:  # noqa: BLE001
            errs.append(e)
    ths = [threading.Thread(target=go, args=(k,)) for k in range(n)]
    for t in ths:
        t.start()
    for t in ths:
        t.join()
    if errs:
        raise errs[0]
    res = [None] * len(lines)
    for k in range(n):
        res[k::n] = outs[k]
    return res


def probe_magic_variant(ctx, runners, tmp):
    """a v1 message followed by a v2 batch through the compiled MemoryRecords: with the magic read at
    absolute offset 16 the second batch is parsed as a legacy message"""
    a = legacy_msg(1, 0, ts=1, key=None, value=b"first")
    payload = v2_record(0, 0, None, b"second", [])
    b = v2_batch(payload, 1)
    probe = [(0, ("cyM", 1, 0, 0, 0, a + b))]
    r = Runner("probe", runners["plain"].root, "cy", {}, 1, tmp)
    ths, errs = r.run(probe)
    for t in ths:
        t.join()
    if errs:
        raise errs[0]
    got = r.results[0][0]
    outs = {}
    for rel in ("0", "1"):
        outs[rel] = ctx.driver("akdriver", [f"c10 cyM {FIXED}{rel} 1 0 0 {hx(a + b)} -"])[0]
    if got == outs["1"]:
        return True
    if got == outs["0"]:
        return False
    ctx.broken.append({"kind": "correspondence", "tie": "memory_records.pyx variant probe", "impl": got,
                       "model_relative": outs["1"], "model_absolute": outs["0"]})
    return True


def neighbourhood_search(ctx, runners, tmp, jobs, mism, cfg, case):
    """S: around inputs where implementation and model differ, look for an actual fault
    (all truncations and byte values at each position, ASan + guard page)"""
    extra = []
    seen = set()
    for i, flavour, got, want in mism[:6]:
        entry, crc, magic, pos, guard, buf = jobs[i]
        if entry.startswith("py"):
            continue
        cands = [buf[:k] for k in range(len(buf) + 1)]
        for k in range(len(buf)):
            for v in (0, 0x7F, 0x80, 0xFF):
                cands.append(buf[:k] + bytes([v]) + buf[k + 1:])
        for cnd in cands:
            for gd in (0, 1):
                key = (entry, crc, magic, pos, gd if entry not in ("cyM", "cyN") else 0, cnd)
                if key not in seen:
                    seen.add(key)
                    extra.append(key)
    if not extra:
        return False
    ij = list(enumerate(extra))
    ra = Runner("s-asan", runners["asan"].root, "cy", asan_env(), 4, tmp)
    rp = Runner("s-plain", runners["plain"].root, "cy", {}, 2, tmp)
    st = [ra.run([(i, j) for i, j in ij if j[4] == 0]), rp.run(ij)]
    for ths, _ in st:
        for t in ths:
            t.join()
    for res, flavour in ((ra.results, "asan"), (rp.results, "plain")):
        for i, (canon, _) in sorted(res.items()):
            if FAULT_RE.search(canon):
                e, crc, magic, pos, guard, buf = extra[i]
                ctx.violation(signature(e, canon), f"{e} on {len(buf)} bytes (search around a model/implementation difference, "
                              f"{flavour} build): {canon[:200]}",
                              {"cases": [{"entry": e, "crc": crc, "magic": magic, "pos": pos, "guard": guard, "buf": hx(buf)}],
                               "observed": canon, "flavour": flavour})
                return True
    return False


def load_corpus():
    d = HERE.parent.parent / "corpus" / "C10"
    out = []
    if d.is_dir():
        for f in sorted(d.glob("*.json")):
            obj = json.loads(f.read_text())
            out += obj.get("cases", [])
    return out
