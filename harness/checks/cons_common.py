"""Shared machinery of the consumer checks C03 / C13.

* `Env`        — the real modules of `ctx.repo` (never the editable install)
* encoders     — abstract batches → real record bytes (v0 / v1 messages and gzip wrappers, v2 batches:
                 plain, gzip, compacted, empty, control), written here so that every shape can be produced
* `gen_log`    — generator of abstract logs
* `Rig`        — a real `Fetcher` + `SubscriptionState` on a stub client (the synchronous tie)
* `Probe`      — run-time wrappers around the real classes that record, per partition and in program
                 order, every event the Lean acceptor `c03 acc` understands, together with a snapshot of
                 the real `TopicPartitionState` / `_records` entry taken before the event
"""
import asyncio
import contextvars
import gzip
import importlib
import io
import struct
import sys
import zlib

from vlib import HarnessError


# ------------------------------------------------------------------------------------ real modules
class Env:
    def __init__(self, repo):
        sys.path.insert(0, str(repo))
        for m in [m for m in sys.modules if m.startswith("aiokafka")]:
            del sys.modules[m]
        imp = importlib.import_module
        self.fetcher = imp("aiokafka.consumer.fetcher")
        self.substate = imp("aiokafka.consumer.subscription_state")
        self.consumer = imp("aiokafka.consumer.consumer")
        self.client = imp("aiokafka.client")
        self.errors = imp("aiokafka.errors")
        self.structs = imp("aiokafka.structs")
        self.fetchproto = imp("aiokafka.protocol.fetch")
        self.offsetproto = imp("aiokafka.protocol.offset")
        self.util = imp("aiokafka.record.util")
        self.memrec = imp("aiokafka.record.memory_records")
        if not str(self.fetcher.__file__).startswith(str(repo)):
            raise HarnessError(f"aiokafka imported from {self.fetcher.__file__}, not from {repo}")
        self.TP = self.structs.TopicPartition


# ------------------------------------------------------------------------------------ abstract logs
class AB:
    """abstract batch: offsets [base, next), skip = control batch, recs = offsets present"""
    __slots__ = ("base", "next", "skip", "recs", "fmt", "raw")

    def __init__(self, base, next_, skip, recs, fmt):
        self.base, self.next, self.skip, self.recs, self.fmt = base, next_, skip, list(recs), fmt
        self.raw = None

    def text(self):
        return f"{self.base}:{self.next}:{1 if self.skip else 0}:" + (".".join(map(str, self.recs)) if self.recs else "_")

    def __repr__(self):
        return f"<AB {self.text()} {self.fmt}>"


def batches_text(bs):
    return "|".join(b.text() for b in bs) if bs else "-"


def visible(log):
    return [o for b in log if not b.skip for o in b.recs]


FORMATS = ("v2", "v2", "v2", "v2gz", "v1", "v1gz", "v0", "v0gz")


def gen_log(rng, fmt=None, max_batches=12, max_recs=6, start=None):
    """an abstract log in one wire format family.
    v2 / v2gz: batches with compaction gaps (also the last record removed), empty batches, control
    batches; v0 / v1: one message per batch; v0gz / v1gz: gzip wrappers (inner records, gaps)."""
    fmt = fmt or rng.choice(FORMATS)
    n = rng.randrange(0, max_batches + 1)
    off = start if start is not None else rng.choice([0, 0, 1, 3, 7, 100, 2**31 - 2, 2**40])
    log = []
    for _ in range(n):
        if rng.random() < 0.25:
            off += rng.randrange(1, 4)          # whole batches removed by compaction / retention
        if fmt.startswith("v2"):
            kind = rng.random()
            if kind < 0.12:
                log.append(AB(off, off + 1, True, [off], fmt))           # control batch (one marker)
                off += 1
                continue
            width = rng.randrange(1, max_recs + 1)
            offs = list(range(off, off + width))
            if kind < 0.22:
                recs = []                                                # emptied by compaction
            elif kind < 0.55:
                recs = [o for o in offs if rng.random() < 0.6]           # gaps, maybe the last one too
            else:
                recs = offs
            log.append(AB(off, off + width, False, recs, fmt))
            off += width
        elif fmt.endswith("gz"):
            width = rng.randrange(1, max_recs + 1)
            offs = list(range(off, off + width))
            recs = offs if rng.random() < 0.6 else [o for o in offs if rng.random() < 0.6]
            if not recs:
                recs = [offs[-1]]
            # a legacy wrapper carries the offset of its last inner message
            log.append(AB(off, recs[-1] + 1, False, recs, fmt))
            off += width
        else:
            log.append(AB(off, off + 1, False, [off], fmt))
            off += 1
    for b in log:
        b.raw = encode_batch(b)
    return fmt, log


# ------------------------------------------------------------------------------------ encoders
def _zz(n):
    return (n << 1) ^ (n >> 63)


def _varint(n):
    n = _zz(n) & 0xFFFFFFFFFFFFFFFF
    out = bytearray()
    while True:
        b = n & 0x7F
        n >>= 7
        if n:
            out.append(b | 0x80)
        else:
            out.append(b)
            return bytes(out)


_CRC32C_TABLE = None


def crc32c(data):
    global _CRC32C_TABLE
    if _CRC32C_TABLE is None:
        t = []
        for i in range(256):
            c = i
            for _ in range(8):
                c = (c >> 1) ^ 0x82F63B78 if c & 1 else c >> 1
            t.append(c)
        _CRC32C_TABLE = t
    c = 0xFFFFFFFF
    t = _CRC32C_TABLE
    for b in data:
        c = t[(c ^ b) & 0xFF] ^ (c >> 8)
    return c ^ 0xFFFFFFFF


def payload(off):
    return b"v%d" % off


def _gz(data):
    buf = io.BytesIO()
    with gzip.GzipFile(fileobj=buf, mode="wb", mtime=0) as f:
        f.write(data)
    return buf.getvalue()


def encode_v2(b, compressed):
    base = b.base
    last_delta = b.next - 1 - base
    ts0 = 1_600_000_000_000
    recs = bytearray()
    for o in b.recs:
        if b.skip:
            key, val = struct.pack(">hh", 0, 1), struct.pack(">hi", 0, 0)     # COMMIT marker
        else:
            key, val = (None if o % 3 == 0 else b"k%d" % o), payload(o)
        body = bytearray(b"\x00") + _varint(0) + _varint(o - base)
        body += _varint(-1) if key is None else _varint(len(key)) + key
        body += _varint(len(val)) + val
        body += _varint(0)
        recs += _varint(len(body)) + body
    attrs = 0
    if b.skip:
        attrs |= 0x20 | 0x10
    data = bytes(recs)
    if compressed and not b.skip:
        attrs |= 1
        data = _gz(data)
    pid, epoch, seq = (7, 0, -1) if b.skip else (-1, -1, -1)
    tail = struct.pack(">hiqqqhii", attrs, last_delta, ts0, ts0, pid, epoch, seq, len(b.recs)) + data
    crc = crc32c(tail)
    after_len = struct.pack(">ibI", 0, 2, crc) + tail
    return struct.pack(">qi", base, len(after_len)) + after_len


def _legacy_msg(magic, offset, attrs, key, value, ts=1_600_000_000_000):
    body = struct.pack(">bb", magic, attrs)
    if magic == 1:
        body += struct.pack(">q", ts)
    body += struct.pack(">i", -1) if key is None else struct.pack(">i", len(key)) + key
    body += struct.pack(">i", -1) if value is None else struct.pack(">i", len(value)) + value
    crc = zlib.crc32(body) & 0xFFFFFFFF
    msg = struct.pack(">I", crc) + body
    return struct.pack(">qi", offset, len(msg)) + msg


def encode_legacy(b, magic, compressed):
    if not compressed:
        (o,) = b.recs
        return _legacy_msg(magic, o, 0, None if o % 3 == 0 else b"k%d" % o, payload(o))
    last = b.recs[-1]
    inner = b""
    for o in b.recs:
        # v1 wrappers carry relative inner offsets (the last one = offset delta to the wrapper), v0 absolute
        rel = o if magic == 0 else (o - b.recs[0])
        inner += _legacy_msg(magic, rel, 0, None if o % 3 == 0 else b"k%d" % o, payload(o))
    return _legacy_msg(magic, last, 1, None, _gz(inner))


def encode_batch(b):
    if b.fmt == "v2":
        return encode_v2(b, False)
    if b.fmt == "v2gz":
        return encode_v2(b, True)
    return encode_legacy(b, 1 if b.fmt.startswith("v1") else 0, b.fmt.endswith("gz"))


def split_raw(data):
    """cut record bytes into their batches by the length field (same place in all formats)"""
    out, pos, n = [], 0, len(data)
    while n - pos >= 12:
        (ln,) = struct.unpack_from(">i", data, pos + 8)
        if ln < 0 or pos + 12 + ln > n:
            break
        out.append(bytes(data[pos:pos + 12 + ln]))
        pos += 12 + ln
    return out, bytes(data[pos:])


# ------------------------------------------------------------------------------------ responses
def make_fetch_response(env, version, topic, rows):
    """rows: [(partition, error_code, highwater, lso, log_start, aborted, data bytes)] → a decoded
    FetchResponse of that version (encode → decode, as the connection would hand it over)"""
    cls = getattr(env.fetchproto, f"FetchResponse_v{version}")
    parts = []
    for (p, err, hw, lso, ls, aborted, data) in rows:
        if version >= 11:
            parts.append((p, err, hw, lso, ls, aborted, -1, data))
        elif version >= 5:
            parts.append((p, err, hw, lso, ls, aborted, data))
        elif version >= 4:
            parts.append((p, err, hw, lso, aborted, data))
        else:
            parts.append((p, err, hw, data))
    if version >= 7:
        obj = cls(0, 0, 0, [(topic, parts)])
    elif version >= 1:
        obj = cls(0, [(topic, parts)])
    else:
        obj = cls([(topic, parts)])
    return cls.decode(io.BytesIO(obj.encode()))


ERRCODE = {"OffsetOutOfRangeError": 1, "NoOffsetForPartitionError": 2, "RecordTooLargeError": 3,
           "TopicAuthorizationFailedError": 4}


def exc_code(ex):
    return ERRCODE.get(type(ex).__name__)


async def settle(rounds=8):
    for _ in range(rounds):
        await asyncio.sleep(0)


# ------------------------------------------------------------------------------------ the rig
class StubClient:
    """what Fetcher touches of AIOKafkaClient when its background routine never runs"""

    def __init__(self, loop):
        self._loop = loop
        self._metadata_max_age_ms = 300000
        self.sends = []          # pending (node, request, future)
        self.auto = None         # callable(node, request) -> response | exception | None (= park)
        self.meta_updates = 0

    async def send(self, node_id, request):
        if self.auto is not None:
            r = self.auto(node_id, request)
            if isinstance(r, BaseException):
                raise r
            if r is not None:
                return r
        fut = self._loop.create_future()
        self.sends.append((node_id, request, fut))
        return await fut

    def force_metadata_update(self):
        self.meta_updates += 1
        fut = self._loop.create_future()
        fut.set_result(True)
        return fut


class Rig:
    """real SubscriptionState + Fetcher (background task cancelled before it runs) on a StubClient"""

    def __init__(self, env, loop, nparts, policy, isolation="read_uncommitted"):
        self.env = env
        self.loop = loop
        self.client = StubClient(loop)
        self.subs = env.substate.SubscriptionState()
        self.tps = [env.TP("t", i) for i in range(nparts)]
        self.fetcher = env.fetcher.Fetcher(
            self.client, self.subs, auto_offset_reset={None: "none", -1: "latest", -2: "earliest"}[policy],
            isolation_level=isolation, retry_backoff_ms=100)
        self.fetcher._fetch_task.cancel()
        self.subs.assign_from_user(set(self.tps))
        self.assignment = self.subs.subscription.assignment

    def state(self, i):
        return self.assignment.state_value(self.tps[i])

    async def close(self):
        for t in list(self.fetcher._pending_tasks):
            t.cancel()
        try:
            await self.fetcher._fetch_task
        except BaseException:  # noqa
            pass
        await settle(3)


# ------------------------------------------------------------------------------------ the probe
def snap(fetcher, assignment, tp):
    """`pos,strategy,paused,buf` of the real objects, in the acceptor's syntax"""
    st = assignment.state_value(tp)
    pos = "-" if st._position is None else str(st._position)
    strat = "-" if st._reset_strategy is None else str(st._reset_strategy)
    ent = fetcher._records.get(tp) if fetcher is not None else None
    if ent is None:
        buf = "-"
    elif type(ent).__name__ == "FetchResult":
        # only an entry created for this assignment is this partition state's buffer
        if ent._assignment is not assignment or ent._partition_records is None:
            buf = "-"
        else:
            buf = f"r{ent._partition_records.next_fetch_offset}"
    else:
        buf = f"e{exc_code(ent._error)}" if getattr(ent, "_akverif_assignment", assignment) is assignment else "-"
    return f"{pos},{strat},{1 if st._paused else 0},{buf}"


class Probe:
    """Wraps (class level; `uninstall` restores) the points where a partition's consumer state is read
    or written and logs one event per point, per (assignment, partition), in program order:
    `[pre-snapshot, op, observed result]` in the syntax of the Lean acceptor `c03 acc`.
    The snapshot is taken from the real objects *before* the event; the observed result of a hand-out
    is filled in when the wrapped call returns.  Property-level observations (what the application /
    the broker sees) go to `obs03[tp]` / `obs13[tp]`."""

    cur = contextvars.ContextVar("akverif_probe_ctx", default=None)
    call = contextvars.ContextVar("akverif_probe_call", default=None)   # {"parts": set|None, "got": []}

    def __init__(self, env, batch_lookup):
        self.env = env
        self.batch_lookup = batch_lookup          # (tp, raw batch bytes) -> AB | None
        self.events = {}                          # (assignment serial, tp) -> [[pre, op, obs]]
        self.obs03 = {}
        self.obs13 = {}
        self.serial = {}
        self.keep = []                            # keeps assignments alive so that id() stays unique
        self.dead = set()
        self.fetcher = None
        self.saved = []

    def aid(self, assignment):
        k = id(assignment)
        if k not in self.serial:
            self.serial[k] = len(self.serial)
            self.keep.append(assignment)
            for tp in assignment._tp_state:
                self.obs13.setdefault(tp, []).append("A")
                self.obs03.setdefault(tp, []).append("i")
        return self.serial[k]

    def log(self, assignment, tp, op, obs="-"):
        a = self.aid(assignment)
        pre = "*" if a in self.dead else snap(self.fetcher, assignment, tp)
        ev = [pre, op, obs]
        self.events.setdefault((a, tp), []).append(ev)
        return ev

    def final(self):
        """closing pseudo-event carrying the last snapshot of every live partition state"""
        for (a, tp), evs in self.events.items():
            if a not in self.dead:
                evs.append([snap(self.fetcher, self.keep[a], tp), "F", "-"])

    def handed(self, tp, offsets):
        """records left the fetcher towards the application (inside a getone / getmany call)"""
        call = Probe.call.get()
        ok = call is None or call["parts"] is None or tp in call["parts"]
        for o in offsets:
            self.o03(tp, f"d{o}" if ok else f"D{o}")
            if call is not None:
                call["got"].append((tp.partition, o))

    def o03(self, tp, text):
        self.obs03.setdefault(tp, []).append(text)

    def o13(self, tp, text):
        self.obs13.setdefault(tp, []).append(text)

    def _patch(self, obj, name, new):
        self.saved.append((obj, name, obj.__dict__[name]))
        setattr(obj, name, new)

    def uninstall(self):
        for obj, name, old in reversed(self.saved):
            setattr(obj, name, old)
        self.saved = []

    @staticmethod
    def tp_of(state):
        return next((t for t, s in state._assignment._tp_state.items() if s is state), None)

    def install(self):
        env, P = self.env, self
        F = env.fetcher.Fetcher
        FR = env.fetcher.FetchResult
        FE = env.fetcher.FetchError
        TPS = env.substate.TopicPartitionState
        A = env.substate.Assignment

        orig_proc = F._proc_fetch_request

        async def proc_fetch_request(fself, assignment, node_id, request):
            P.fetcher = fself
            P.aid(assignment)
            tok = Probe.cur.set((assignment, request))
            try:
                return await orig_proc(fself, assignment, node_id, request)
            finally:
                Probe.cur.reset(tok)

        self._patch(F, "_proc_fetch_request", proc_fetch_request)

        orig_ufp = F._update_fetch_positions

        async def update_fetch_positions(fself, assignment, node_id, tps):
            P.fetcher = fself
            P.aid(assignment)
            tok = Probe.cur.set((assignment, None))
            try:
                return await orig_ufp(fself, assignment, node_id, tps)
            finally:
                Probe.cur.reset(tok)

        self._patch(F, "_update_fetch_positions", update_fetch_positions)

        orig_por = F._proc_offset_request

        async def proc_offset_request(fself, node_id, topic_data):
            ctx = Probe.cur.get()
            sent = [(env.TP(topic, part), strategy) for topic, plist in topic_data.items() for part, strategy in plist]
            res = await orig_por(fself, node_id, topic_data)
            if ctx is not None:
                assignment = ctx[0]
                for tp, strategy in sent:
                    if tp in res and assignment.state_value(tp) is not None:
                        P.log(assignment, tp, f"L{strategy}@{res[tp][0]}")
                        P.o13(tp, f"b{strategy}@{res[tp][0]}")
            return res

        self._patch(F, "_proc_offset_request", proc_offset_request)

        orig_fc = TPS.fetch_committed

        def fetch_committed(sself):
            fut = orig_fc(sself)
            ctx = Probe.cur.get()
            if ctx is None:
                return fut
            assignment = ctx[0]
            tp = Probe.tp_of(sself)

            async def waiter():
                r = await fut
                if tp is not None:
                    P.log(assignment, tp, "C" + ("-" if r.offset == -1 else str(r.offset)))
                return r

            return waiter()

        self._patch(TPS, "fetch_committed", fetch_committed)

        orig_reset_to = TPS.reset_to

        def reset_to(sself, position):
            orig_reset_to(sself, position)
            tp = Probe.tp_of(sself)
            if tp is not None:
                P.o13(tp, f"v{position}")
                P.o03(tp, f"s{position}")

        self._patch(TPS, "reset_to", reset_to)

        orig_getone = FR.getone

        def getone(rself):
            ev = P.log(rself._assignment, rself._topic_partition, "G")
            try:
                msg = orig_getone(rself)
            except AssertionError:
                ev[2] = "a"
                raise
            ev[2] = "n" if msg is None else f"o{msg.offset}"
            if msg is not None:
                P.handed(rself._topic_partition, [msg.offset])
            return msg

        self._patch(FR, "getone", getone)

        orig_getall = FR.getall

        def getall(rself, max_records=None):
            ev = P.log(rself._assignment, rself._topic_partition, f"A{max_records or 0}")
            try:
                msgs = orig_getall(rself, max_records)
            except AssertionError:
                ev[2] = "a"
                raise
            ev[2] = "n" if not msgs else "m" + ".".join(str(m.offset) for m in msgs)
            P.handed(rself._topic_partition, [m.offset for m in msgs])
            return msgs

        self._patch(FR, "getall", getall)

        orig_set_error = F._set_error

        def _set_error(fself, tp, error):
            orig_set_error(fself, tp, error)
            ent = fself._records.get(tp)
            ctx = Probe.cur.get()
            ent._akverif_tp = tp
            ent._akverif_assignment = ctx[0] if ctx else fself._subscriptions.subscription.assignment

        self._patch(F, "_set_error", _set_error)

        orig_raise = FE.check_raise

        def check_raise(eself):
            tp = getattr(eself, "_akverif_tp", None)
            if tp is not None:
                # next_record / fetched_records removed the entry just before: no pre-snapshot
                ev = P.log(eself._akverif_assignment, tp, "K", f"r{exc_code(eself._error)}")
                ev[0] = "*"
            orig_raise(eself)

        self._patch(FE, "check_raise", check_raise)

        orig_seek_to = F.seek_to

        def seek_to(fself, tp, offset):
            P.fetcher = fself
            assignment = fself._subscriptions.subscription.assignment
            if assignment is not None and assignment.state_value(tp) is not None:
                P.log(assignment, tp, f"S{offset}")
                P.o03(tp, f"k{offset}")
                P.o13(tp, f"k{offset}")
            return orig_seek_to(fself, tp, offset)

        self._patch(F, "seek_to", seek_to)

        orig_ror = F.request_offset_reset

        def request_offset_reset(fself, tps, strategy):
            P.fetcher = fself
            assignment = fself._subscriptions.subscription.assignment
            for tp in tps:
                P.log(assignment, tp, f"T{strategy}")
                P.o13(tp, f"t{strategy}")
                P.o03(tp, "i")
            return orig_ror(fself, tps, strategy)

        self._patch(F, "request_offset_reset", request_offset_reset)

        orig_pause, orig_resume = TPS.pause, TPS.resume

        def pause(sself):
            tp = Probe.tp_of(sself)
            if tp is not None:
                P.log(sself._assignment, tp, "P")
                P.o03(tp, "P")
            return orig_pause(sself)

        def resume(sself):
            tp = Probe.tp_of(sself)
            if tp is not None:
                P.log(sself._assignment, tp, "U")
                P.o03(tp, "U")
            return orig_resume(sself)

        self._patch(TPS, "pause", pause)
        self._patch(TPS, "resume", resume)

        orig_unassign = A._unassign

        def _unassign(aself):
            a = P.aid(aself)
            for tp in aself._tp_state:
                P.log(aself, tp, "Z")
            P.dead.add(a)
            return orig_unassign(aself)

        self._patch(A, "_unassign", _unassign)

    def wrap_client(self, client):
        """log a fetch response at the instant `client.send` hands it to `_proc_fetch_request`"""
        P = self
        orig_send = client.send

        async def send(node_id, request, *a, **kw):
            resp = await orig_send(node_id, request, *a, **kw)
            ctx = Probe.cur.get()
            if ctx is not None and ctx[1] is request:
                P.on_fetch_response(ctx[0], request, resp)
            return resp

        client.send = send

    def on_fetch_response(self, assignment, request, resp):
        env = self.env
        offs = {}
        for topic, parts in request.topics:
            for partition, offset, _ in parts:
                offs[env.TP(topic, partition)] = offset
        for topic, parts in resp.topics:
            for partition, error_code, _hw, *part_data in parts:
                tp = env.TP(topic, partition)
                st = assignment.state_value(tp)
                if st is None or tp not in offs:
                    continue
                f = offs[tp]
                if error_code == 0:
                    raws, rest = split_raw(bytes(part_data[-1]))
                    if raws:
                        bs = []
                        for r in raws:
                            ab = self.batch_lookup(tp, r)
                            if ab is None:
                                raise HarnessError(f"fetch response for {tp} carries a batch the harness does not know")
                            bs.append(ab)
                        op = f"R{f}=D{batches_text(bs)}"
                    elif rest:
                        op = f"R{f}=L"
                    else:
                        op = f"R{f}=D-"
                elif error_code == 1:
                    op = f"R{f}=O"
                    if assignment.active and st._position == f:
                        self.o13(tp, "o")
                        self.o03(tp, "i")
                else:
                    op = f"R{f}=X"
                self.log(assignment, tp, op)


def acc_line(guarded, policy, evs):
    pol = "none" if policy is None else str(policy)
    return f"c03 acc {1 if guarded else 0} {pol} " + (";".join("~".join(e) for e in evs) if evs else "-")
