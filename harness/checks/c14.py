"""C14 — assignors give each subscribed partition exactly one subscribed owner, balanced.

Proof: Props/C14.lean (range: slices tile the sorted partition list, exact cover, nothing else,
per-topic balance; round-robin: termination within |members| steps, exact cover, nothing else,
k-th partition → member k mod m for identical subscriptions; soundness of the executable
statement `coverB/nothingElseB/kip54B` used for the sticky assignor).
Tie: T-diff of RangePartitionAssignor.assign / RoundRobinPartitionAssignor.assign against the
Lean models (byte-identical canonical output); sticky: the Lean statement evaluated on the
library's output (validity, KIP-54 balance).
"""
import itertools

from checks.assign_common import (ORACLE_LOG, enc_output, enc_parts, install_oracle_recorder,
                                  load_assignors, run_assignor, small_space, sticky_line)

KNOWN_STICKY_INTERNAL = "sticky-keyerror-topic-not-in-cluster-topics"


def gen_inputs(ctx):
    rng = ctx.rng("gen")
    cases = []
    if ctx.thorough:
        cases += list(small_space(4, 3, 4))
    else:
        # a slice of the exhaustive space: everything with ≤3 members, ≤2 topics; 1.5% of the rest
        cases += list(small_space(3, 2, 4))
        for i, c in enumerate(small_space(4, 3, 4)):
            if rng.random() < 0.02:
                cases.append(c)
    nrand = 20000 if ctx.thorough else 3000
    for _ in range(nrand):
        nt = rng.randrange(1, 9)
        nm = rng.randrange(1, 13)
        parts = []
        for t in range(nt):
            if rng.random() < 0.12:
                continue  # no metadata
            n = rng.randrange(0, 13)
            ids = list(range(n)) if rng.random() < 0.8 else sorted(rng.sample(range(0, 30), n))
            rng.shuffle(ids) if rng.random() < 0.3 else None
            parts.append((t, ids))
        same = rng.random() < 0.35
        base = sorted(rng.sample(range(nt), rng.randrange(1, nt + 1)))
        members = []
        order = list(range(nm))
        rng.shuffle(order)  # dict order need not be sorted
        for m in order:
            subs = list(base) if same else sorted(rng.sample(range(nt), rng.randrange(1, nt + 1)))
            if rng.random() < 0.3:
                rng.shuffle(subs)
            members.append((m, subs))
        cases.append((parts, members))
    return cases


def run(ctx):
    ctx.coverage["trusted_base"] = [
        "Lean 4.33.0 kernel; axioms propext, Classical.choice, Quot.sound only",
        "T-diff harness (harness/checks/c14.py, assign_common.py), line protocol driver",
        "ClusterMetadata replaced by a stub returning Python sets (any iteration order is legitimate); "
        "topic/member names zero-padded so that string order = numeric order",
        "sticky assignor: Lean port (Model/StickyAlg.lean, single-generation user data) tied by T-diff incl. the recorded "
        "set-iteration choice; validity/balance of its result are NOT proved for all inputs, the Lean statement is evaluated "
        "on every explored output (partial)",
    ]
    ctx.assumptions += ["member ids distinct, each subscription without duplicates, partition sets without duplicates "
                        "(they are dict keys / sets in the real coordinator)"]
    proved = ctx.prove(drivers=["akdriver"])
    import logging
    logging.disable(logging.WARNING)
    A = load_assignors(ctx.repo)
    install_oracle_recorder(A)
    if ctx.replay_cases is not None:
        cases = [(c["parts"], c["members"]) for c in ctx.replay_cases]
        cases = [([(t, ps) for t, ps in p], [(m, s) for m, s in ms]) for p, ms in cases]
    else:
        cases = gen_inputs(ctx)
    lines, impl, meta = [], [], []
    hangs = {}
    for parts, members in cases:
        P, M = enc_parts(parts), enc_parts(members)
        nontrivial = len(members) >= 2 and any(ps for _, ps in parts)
        for kind in ("range", "rr", "sticky"):
            if hangs.get(kind, 0) >= 2:
                continue  # already reported as non-terminating; do not wait for more of them
            ORACLE_LOG.clear()
            try:
                out = enc_output(run_assignor(A, kind, parts, members, limit_s=3.0))
            except Exception as e:  # noqa
                out = f"raise:{type(e).__name__}"
                if type(e).__name__ == "AssignorHang":
                    hangs[kind] = hangs.get(kind, 0) + 1
            if kind == "sticky":
                lines.append(f"c14 holds sticky {P} {M} {out}")
                impl.append("true")
                meta.append({"kind": kind, "parts": parts, "members": members, "out": out})
                contiguous = all(ps == list(range(len(ps))) for _, ps in parts)
                if contiguous and not out.startswith("raise:"):
                    # T-diff with the Lean port of StickyAssignmentExecutor (fresh assignment)
                    lines.append(sticky_line(parts, members, None))
                    impl.append(out)
                    meta.append({"kind": "sticky-port", "parts": parts, "members": members, "out": out})
                continue
            else:
                lines.append(f"c14 {kind} {P} {M}")
                impl.append(out)
            meta.append({"kind": kind, "parts": parts, "members": members, "out": out})
        ctx.count((P, M), nontrivial=nontrivial, n=3)
    res = ctx.driver("akdriver", lines)
    ctx.coverage["rule"] = ("inputs: slice (quick) or all (thorough) of the space ≤4 members × ≤3 topics × 0..4 "
                            "partitions or no metadata × every non-empty subscription, plus seeded random inputs to "
                            "12 members × 8 topics × 12 partitions with shuffled dict order and gaps in partition ids; "
                            "each input runs all three assignors. non-trivial = ≥2 members and ≥1 partition; "
                            "distinct by canonical (cluster, members) encoding")
    ctx.coverage["traces_validated_against_impl"] = len(lines)
    ctx.coverage["exhaustive"] = bool(ctx.thorough)
    for i in (0, len(lines) // 2, len(lines) - 1):
        ctx.sample({"op": lines[i][:240], "impl": impl[i][:200], "model": res[i][:200]})
    mism = [i for i in range(len(lines)) if res[i] != impl[i]]
    if not mism and proved:
        return
    # S: evaluate the Lean statement on what the implementation returned
    q, qi = [], []
    for i in mism:
        m = meta[i]
        if m["kind"] == "sticky":
            verdict = res[i]
            sig = f"sticky:{verdict}" if not m["out"].startswith("raise") else f"sticky:{m['out']}"
            if m["out"].startswith("raise:"):
                sig = "sticky-raises:" + m["out"][6:]
            ctx.violation(sig, f"sticky assignor output violates {verdict} on {lines[i][15:200]}",
                          {"cases": [{"parts": m["parts"], "members": m["members"]}], "observed": m["out"],
                           "lean_statement": verdict})
            continue
        if m["kind"] == "sticky-port":
            continue
        if m["out"].startswith("raise:"):
            ctx.violation(f"{m['kind']}-raises:{m['out'][6:]}", f"{m['kind']} assignor raises {m['out']}",
                          {"cases": [{"parts": m["parts"], "members": m["members"]}], "observed": m["out"]})
            continue
        q.append(f"c14 holds {m['kind']} {enc_parts(m['parts'])} {enc_parts(m['members'])} {m['out']}")
        qi.append(i)
    found = False
    if q:
        hr = ctx.driver("akdriver", q)
        for i, r in zip(qi, hr):
            if r != "true":
                m = meta[i]
                ctx.violation(f"{m['kind']}:{r}", f"{m['kind']} assignor output violates {r}: {lines[i][:200]} -> {m['out'][:200]}",
                              {"cases": [{"parts": m["parts"], "members": m["members"]}], "observed": m["out"],
                               "lean_statement": r})
                found = True
                break
    if mism and not found and not ctx.violations:
        i = mism[0]
        ctx.broken.append({"kind": "correspondence", "tie": "T-diff c14 (range/roundrobin vs AkVerif.Assign)",
                           "mismatches": len(mism),
                           "first": {"op": lines[i][:300], "impl": impl[i][:300], "model": res[i][:300]}})
