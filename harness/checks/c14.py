"""C14 — assignors give each subscribed partition exactly one subscribed owner, balanced.

Proof: Props/C14.lean (range: slices tile the sorted partition list, exact cover, nothing else,
per-topic balance; round-robin: termination within |members| steps, exact cover, nothing else,
k-th partition → member k mod m for identical subscriptions; soundness of the executable
statement `coverB/nothingElseB/kip54B` used for the sticky assignor).
Tie: T-diff of RangePartitionAssignor.assign / RoundRobinPartitionAssignor.assign against the
Lean models (byte-identical canonical output); sticky: the Lean statement evaluated on the
library's output (validity, KIP-54 balance).
"""
import itertools

from checks.assign_common import (ORACLE_LOG, enc_output, enc_parts, install_oracle_recorder,
                                  load_assignors, run_assignor, small_space, sticky_line)

KNOWN_STICKY_INTERNAL = "sticky-keyerror-topic-not-in-cluster-topics"


def gen_inputs(ctx):
    rng = ctx.rng("gen")
    cases = []
    if ctx.thorough:
        cases += list(small_space(4, 3, 4))
    else:
        # a slice of the exhaustive space: everything with ≤3 members, ≤2 topics; 1.5% of the rest
        cases += list(small_space(3, 2, 4))
        for i, c in enumerate(small_space(4, 3, 4)):
            if rng.random() < 0.02:
                cases.append(c)
    nrand = 20000 if ctx.thorough else 3000
    for _ in range(nrand):
        nt = rng.randrange(1, 9)
        nm = rng.randrange(1, 13)
        parts = []
        for t in range(nt):
            if rng.random() < 0.12:
                continue  # no metadata
            n = rng.randrange(0, 13)
            ids = list(range(n)) if rng.random() < 0.8 else sorted(rng.sample(range(0, 30), n))
            rng.shuffle(ids) if rng.random() < 0.3 else None
            parts.append((t, ids))
        same = rng.random() < 0.35
        base = sorted(rng.sample(range(nt), rng.randrange(1, nt + 1)))
        members = []
        order = list(range(nm))
        rng.shuffle(order)  # dict order need not be sorted
        for m in order:
            subs = list(base) if same else sorted(rng.sample(range(nt), rng.randrange(1, nt + 1)))
            if rng.random() < 0.3:
                rng.shuffle(subs)
            members.append((m, subs))
        cases.append((parts, members))
    return cases


def hang_signature(parts, members, prev):
    """non-termination is identified by the input it occurs on"""
    import hashlib
    key = enc_parts(parts) + " " + enc_parts(members) + " " + (enc_output(prev) if prev else "-")
    return "sticky-nontermination:" + hashlib.sha1(key.encode()).hexdigest()[:10]


def corpus_rounds(ctx, A, lines, impl, meta):
    """corpus/C14/*.json: second-round inputs of recorded findings, run on every check"""
    import json as _json
    import pathlib
    from checks.c15 import _sticky_round
    for f in sorted((pathlib.Path(__file__).resolve().parent.parent.parent / "corpus" / "C14").glob("*.json")):
        for c in _json.loads(f.read_text())["cases"]:
            parts = [(t, list(ps)) for t, ps in c["parts"]]
            members = [(m, list(sb)) for m, sb in c["members"]]
            prev_out = [(m, [(t, list(ps)) for t, ps in items]) for m, items in c["prev"]]
            try:
                ORACLE_LOG.clear()
                out2 = enc_output(_sticky_round(A, parts, members, {m: it for m, it in prev_out}, c.get("generation", -1), limit_s=0.5))
            except Exception as e:  # noqa
                if type(e).__name__ == "AssignorHang":
                    ctx.violation(hang_signature(parts, members, prev_out),
                                  f"sticky assignor does not return (CPU limit 0.5 s, then 5 s) on the second-round input of {f.name}: "
                                  f"{enc_parts(parts)} {enc_parts(members)} prev {enc_output(prev_out)}",
                                  {"cases": [{"parts": parts, "members": members, "prev": prev_out, "generation": c.get("generation", -1)}]})
                    continue
                raise
            lines.append(f"c14 holds sticky {enc_parts(parts)} {enc_parts(members)} {out2}")
            impl.append("true")
            meta.append({"kind": "sticky", "parts": parts, "members": members, "out": out2, "prev": prev_out, "second_round": True})


def second_rounds(A, rng, parts, members, first_out, lines, impl, meta):
    """two related second-round inputs carrying the first round's result as user data"""
    from checks.c15 import _sticky_round
    prev = {m: items for m, items in first_out}
    topics = [t for t, _ in parts]
    all_topics = sorted({t for _, sb in members for t in sb} | set(topics))
    for _ in range(2):
        kind = rng.randrange(5)
        parts2, mem2 = [(t, list(ps)) for t, ps in parts], [(m, list(sb)) for m, sb in members]
        if kind == 0 and len(mem2) >= 2:          # some members leave
            gone = set(rng.sample([m for m, _ in mem2], rng.randrange(1, len(mem2))))
            mem2 = [(m, sb) for m, sb in mem2 if m not in gone]
        elif kind == 1:                            # a member joins (any subscription)
            mem2 = mem2 + [(200 + rng.randrange(3), sorted(rng.sample(all_topics, rng.randrange(1, len(all_topics) + 1))))]
        elif kind == 2:                            # one member changes its subscription
            i = rng.randrange(len(mem2))
            mem2[i] = (mem2[i][0], sorted(rng.sample(all_topics, rng.randrange(1, len(all_topics) + 1))))
        elif kind == 3 and parts2:                 # a topic grows, and (half the time) a member joins as well
            i = rng.randrange(len(parts2))
            parts2[i] = (parts2[i][0], list(range(len(parts2[i][1]) + rng.randrange(1, 4))))
            if rng.random() < 0.5:
                mem2 = mem2 + [(210, list(mem2[0][1]))]
        else:                                      # leave + join + change at once
            mem2 = [(m, sb) for m, sb in mem2 if rng.random() < 0.7] or mem2[:1]
            mem2 = mem2 + [(220, sorted(rng.sample(all_topics, rng.randrange(1, len(all_topics) + 1))))]
        ORACLE_LOG.clear()
        out2 = enc_output(_sticky_round(A, parts2, mem2, prev, -1))
        P2, M2 = enc_parts(parts2), enc_parts(mem2)
        lines.append(f"c14 holds sticky {P2} {M2} {out2}")
        impl.append("true")
        meta.append({"kind": "sticky", "parts": parts2, "members": mem2, "out": out2, "prev": first_out, "second_round": True})
        lines.append(sticky_line(parts2, mem2, first_out))
        impl.append(out2)
        meta.append({"kind": "sticky-port", "parts": parts2, "members": mem2, "out": out2, "prev": first_out})


def run(ctx):
    ctx.coverage["trusted_base"] = [
        "Lean 4.33.0 kernel; axioms propext, Classical.choice, Quot.sound only",
        "T-diff harness (harness/checks/c14.py, assign_common.py), line protocol driver",
        "ClusterMetadata replaced by a stub returning Python sets (any iteration order is legitimate); "
        "topic/member names zero-padded so that string order = numeric order",
        "sticky assignor: Lean port (Model/StickyAlg.lean, single-generation user data) tied by T-diff incl. the recorded "
        "set-iteration choice; validity/balance of its result are NOT proved for all inputs, the Lean statement is evaluated "
        "on every explored output (partial)",
    ]
    ctx.assumptions += ["member ids distinct, each subscription without duplicates, partition sets without duplicates "
                        "(they are dict keys / sets in the real coordinator)"]
    proved = ctx.prove(drivers=["akdriver"])
    import logging
    logging.disable(logging.WARNING)
    A = load_assignors(ctx.repo)
    install_oracle_recorder(A)
    if ctx.replay_cases is not None:
        cases = [(c["parts"], c["members"]) for c in ctx.replay_cases]
        cases = [([(t, ps) for t, ps in p], [(m, s) for m, s in ms]) for p, ms in cases]
    else:
        cases = gen_inputs(ctx)
    lines, impl, meta = [], [], []
    hangs = {}
    rng2 = ctx.rng("second-rounds")
    if ctx.replay_cases is None:
        corpus_rounds(ctx, A, lines, impl, meta)
    for parts, members in cases:
        P, M = enc_parts(parts), enc_parts(members)
        nontrivial = len(members) >= 2 and any(ps for _, ps in parts)
        for kind in ("range", "rr", "sticky"):
            if hangs.get(kind, 0) >= 2:
                continue  # already reported as non-terminating; do not wait for more of them
            ORACLE_LOG.clear()
            try:
                out = enc_output(run_assignor(A, kind, parts, members, limit_s=3.0))
            except Exception as e:  # noqa
                out = f"raise:{type(e).__name__}"
                if type(e).__name__ == "AssignorHang":
                    hangs[kind] = hangs.get(kind, 0) + 1
            if kind == "sticky":
                lines.append(f"c14 holds sticky {P} {M} {out}")
                impl.append("true")
                meta.append({"kind": kind, "parts": parts, "members": members, "out": out})
                contiguous = all(ps == list(range(len(ps))) for _, ps in parts)
                if contiguous and not out.startswith("raise:"):
                    # T-diff with the Lean port of StickyAssignmentExecutor (fresh assignment)
                    lines.append(sticky_line(parts, members, None))
                    impl.append(out)
                    meta.append({"kind": "sticky-port", "parts": parts, "members": members, "out": out})
                    # second rounds WITH previous-assignment user data (the property's quantifier names them):
                    # members leave / join, subscriptions change, topics grow — validity and KIP-54 balance of the
                    # result, and byte-identical T-diff with the port
                    if members and rng2.random() < (1.0 if len(cases) < 4000 else 0.35):
                        try:
                            second_rounds(A, rng2, parts, members, run_assignor(A, kind, parts, members, limit_s=3.0),
                                          lines, impl, meta)
                        except Exception as e:  # noqa
                            if type(e).__name__ == "AssignorHang":
                                hangs[kind] = hangs.get(kind, 0) + 1
                                ctx.violation(hang_signature(parts, members, None), f"sticky assignor did not finish a second round after {P} {M}",
                                              {"cases": [{"parts": parts, "members": members}]})
                            else:
                                ctx.violation(f"sticky-raises:{type(e).__name__}", f"sticky assignor raised {e!r} in a second round after {P} {M}",
                                              {"cases": [{"parts": parts, "members": members}]})
                continue
            else:
                lines.append(f"c14 {kind} {P} {M}")
                impl.append(out)
            meta.append({"kind": kind, "parts": parts, "members": members, "out": out})
        ctx.count((P, M), nontrivial=nontrivial, n=3)
    # a family of its own: several topics grow while a member joins, on top of a previous assignment (the first
    # balancing pass moves new partitions, the second has to move owned ones) — small groups, general subscriptions
    if ctx.replay_cases is None and hangs.get("sticky", 0) < 2:
        from checks.c15 import _sticky_round
        n_grow = 40000 if ctx.thorough else 4000
        for _ in range(n_grow):
            nt = rng2.randrange(2, 5)
            parts = [(t, list(range(rng2.randrange(0, 6)))) for t in range(nt)]
            members = [(m, sorted(rng2.sample(range(nt), rng2.randrange(1, nt + 1)))) for m in range(rng2.randrange(1, 4))]
            try:
                ORACLE_LOG.clear()
                r1 = _sticky_round(A, parts, members, None, -1)
                parts2 = [(t, list(range(len(ps) + rng2.randrange(0, 5)))) for t, ps in parts]
                mem2 = members + [(300, sorted(rng2.sample(range(nt), rng2.randrange(1, nt + 1))))]
                ORACLE_LOG.clear()
                out2 = enc_output(_sticky_round(A, parts2, mem2, {m: items for m, items in r1}, -1))
            except Exception as e:  # noqa
                if type(e).__name__ == "AssignorHang":
                    hangs["sticky"] = hangs.get("sticky", 0) + 1
                    ctx.violation(hang_signature(parts, members, None),
                                  f"sticky assignor did not finish (topics grow + member joins) after {enc_parts(parts)} {enc_parts(members)}",
                                  {"cases": [{"parts": parts, "members": members}]})
                    if hangs["sticky"] >= 2:
                        break
                    continue
                ctx.violation(f"sticky-raises:{type(e).__name__}", f"sticky assignor raised {e!r} (topics grow + member joins)",
                              {"cases": [{"parts": parts, "members": members}]})
                continue
            lines.append(f"c14 holds sticky {enc_parts(parts2)} {enc_parts(mem2)} {out2}")
            impl.append("true")
            meta.append({"kind": "sticky", "parts": parts2, "members": mem2, "out": out2, "prev": r1, "second_round": True})
            lines.append(sticky_line(parts2, mem2, r1))
            impl.append(out2)
            meta.append({"kind": "sticky-port", "parts": parts2, "members": mem2, "out": out2, "prev": r1})
        ctx.coverage["sticky_grow_join_second_rounds"] = n_grow
    # returning members with stale (older-generation) user data, any subscriptions: validity and KIP-54 of round 3
    # (no T-diff: the port models single-generation user data)
    if ctx.replay_cases is None and hangs.get("sticky", 0) < 2:
        from checks.c15 import returning_chain
        n_ret = 12000 if ctx.thorough else 1500
        for _ in range(n_ret):
            try:
                parts3, _m2, m3, _r2, r3 = returning_chain(A, rng2, rng2.random() < 0.4, only_one=True)
            except Exception as e:  # noqa
                if type(e).__name__ == "AssignorHang":
                    hangs["sticky"] = hangs.get("sticky", 0) + 1
                    if hangs["sticky"] >= 2:
                        break
                    continue
                ctx.violation(f"sticky-raises:{type(e).__name__}", f"sticky assignor raised {e!r} in a returning-member chain", {"cases": []})
                continue
            out3 = enc_output(r3)
            lines.append(f"c14 holds sticky {enc_parts(parts3)} {enc_parts(m3)} {out3}")
            impl.append("true")
            meta.append({"kind": "sticky", "parts": parts3, "members": m3, "out": out3, "second_round": True, "multi_generation": True})
        ctx.coverage["sticky_returning_member_rounds"] = n_ret
    res = ctx.driver("akdriver", lines)
    ctx.coverage["rule"] = ("inputs: slice (quick) or all (thorough) of the space ≤4 members × ≤3 topics × 0..4 "
                            "partitions or no metadata × every non-empty subscription, plus seeded random inputs to "
                            "12 members × 8 topics × 12 partitions with shuffled dict order and gaps in partition ids; "
                            "each input runs all three assignors. non-trivial = ≥2 members and ≥1 partition; "
                            "distinct by canonical (cluster, members) encoding")
    ctx.coverage["traces_validated_against_impl"] = len(lines)
    ctx.coverage["exhaustive"] = bool(ctx.thorough)
    for i in (0, len(lines) // 2, len(lines) - 1):
        ctx.sample({"op": lines[i][:240], "impl": impl[i][:200], "model": res[i][:200]})
    mism = [i for i in range(len(lines)) if res[i] != impl[i]]
    if not mism and proved:
        return
    # S: evaluate the Lean statement on what the implementation returned
    q, qi = [], []
    for i in mism:
        m = meta[i]
        if m["kind"] == "sticky":
            verdict = res[i]
            sig = f"sticky:{verdict}" if not m["out"].startswith("raise") else f"sticky:{m['out']}"
            if m["out"].startswith("raise:"):
                sig = "sticky-raises:" + m["out"][6:]
            if m["out"] == "raise:AssignorHang":
                sig = hang_signature(m["parts"], m["members"], m.get("prev"))
            ctx.violation(sig, f"sticky assignor output violates {verdict} on {lines[i][15:200]}",
                          {"cases": [{"parts": m["parts"], "members": m["members"]}], "observed": m["out"],
                           "lean_statement": verdict})
            continue
        if m["kind"] == "sticky-port":
            continue
        if m["out"].startswith("raise:"):
            ctx.violation(f"{m['kind']}-raises:{m['out'][6:]}", f"{m['kind']} assignor raises {m['out']}",
                          {"cases": [{"parts": m["parts"], "members": m["members"]}], "observed": m["out"]})
            continue
        q.append(f"c14 holds {m['kind']} {enc_parts(m['parts'])} {enc_parts(m['members'])} {m['out']}")
        qi.append(i)
    found = False
    if q:
        hr = ctx.driver("akdriver", q)
        for i, r in zip(qi, hr):
            if r != "true":
                m = meta[i]
                ctx.violation(f"{m['kind']}:{r}", f"{m['kind']} assignor output violates {r}: {lines[i][:200]} -> {m['out'][:200]}",
                              {"cases": [{"parts": m["parts"], "members": m["members"]}], "observed": m["out"],
                               "lean_statement": r})
                found = True
                break
    if mism and not found and not ctx.violations:
        i = mism[0]
        ctx.broken.append({"kind": "correspondence", "tie": "T-diff c14 (range/roundrobin vs AkVerif.Assign)",
                           "mismatches": len(mism),
                           "first": {"op": lines[i][:300], "impl": impl[i][:300], "model": res[i][:300]}})
