"""C07 — transactions are atomic and follow the transactional protocol order.

Proof: Props/C07.lean — part 1 about the API automaton `AkVerif.Txn.step` (`c07_atomic`,
`c07_protocol_order`, `c07_produce_after_add`, `c07_end_after_acks`, `c07_no_txn_data_outside_txn`,
`c07_retriable_only_completes_partial`), part 2 about the trace acceptor `AkVerif.Txn.tstep`
(`c07_trace_atomic`, `c07_trace_produce_after_add`, `c07_trace_end_after_acks`, ...).

Tie (on every run):
  A. sequential programs: random call sequences (begin / send / send_offsets / commit / abort /
     context exits / kill-and-restart) with one fault, real producer vs. the API automaton
     (same comparison as C16, longer sequences, restarts included);
  B. T-trace: seeded concurrent workloads — 1..3 incarnations of the real transactional
     AIOKafkaProducer (killed and replaced, or fenced as zombies) running 1..4 transactions over 1..3
     partitions with concurrent send() tasks, send_offsets_to_transaction, commit / abort / context
     manager, under seeded faults at InitProducerId / AddPartitionsToTxn / AddOffsetsToTxn /
     TxnOffsetCommit / EndTxn / Produce / FindCoordinator (retriable codes, coordinator moved, leader
     moved, dropped connections, lost replies, request timeouts; in the mixed stream also
     authorization errors) — the history (environment decisions, client requests, what the
     application saw) is fed to the Lean acceptor; the acceptor's final logs / offsets must equal
     the simulator's (environment cross-check), and an independent read-committed reader over the
     simulated logs is compared with what the application was told (the property itself).
  Liveness side (bounded virtual time): in the retriable-only stream every call must return, every
  commit commit and every abort abort.

Reading taken for "all records of a transaction": the records whose send() was acknowledged (future
resolved successfully).  A record whose future failed is claimed neither visible nor invisible (it
may have been written by an attempt whose reply was lost); what IS checked for every batch,
acknowledged or failed, is that EndTxn is not sent while it is unresolved.
"""
import asyncio
import json
import multiprocessing
import os
import random
import sys

from vlib import HarnessError as _HE, LEAN, VERIF


def HarnessError(msg):
    """the HarnessError class of the running vlib (bin/check runs vlib.py as __main__)"""
    main = sys.modules.get("__main__")
    return getattr(main, "HarnessError", _HE)(msg)

from checks import txn_common as TC
from checks import c16 as C16

TOPIC, GROUP, TXID = TC.TOPIC, TC.GROUP, TC.TXID
_ENV = None

RETR_CODES = {
    "InitProducerId": [14, 15, 16, 51],
    "AddPartitionsToTxn": [14, 15, 16, 51, 3],
    "AddOffsetsToTxn": [14, 15, 16, 51],
    "TxnOffsetCommit": [14, 15, 16, 7, 3],
    "EndTxn": [14, 15, 16, 51],
    "Produce": [6, 7, 3, 19],
    "FindCoordinator": [15],
}
ABRT_CODES = {"AddPartitionsToTxn": 29, "AddOffsetsToTxn": 30, "TxnOffsetCommit": 30}
APIS = list(RETR_CODES)


# --------------------------------------------------------------------------- workload generation
COORD_APIS = ["AddPartitionsToTxn", "AddOffsetsToTxn", "TxnOffsetCommit", "EndTxn"]
NONRETRIABLE_PRODUCE = [10, 87, 2]      # MESSAGE_TOO_LARGE, INVALID_RECORD, CORRUPT_MESSAGE: fail the batch for good
SEND_GAPS = [0.0, 0.0, 0.0, 0.01, 0.03, 0.05, 0.1, 0.15, 0.25, 0.4, 0.6]
REPLY_DELAYS = [0.05, 0.2, 0.4, 0.8, 1.5]


def gen_case(rng, mixed):
    nodes = rng.choice([1, 2, 2, 3])
    n_inc = rng.choice([1, 1, 2, 3]) if mixed else rng.choice([1, 1, 1, 2])
    incs = []
    for i in range(n_inc):
        txns = []
        for _t in range(rng.randrange(1, 5)):
            sends = [rng.randrange(0, rng.choice([1, 2, 3])) for _ in range(rng.randrange(0, 6))]
            stagger = rng.random() < 0.6
            use_batches = rng.random() < 0.35
            txns.append({
                "sends": sends,
                # every send() is its own task; it starts `delays[j]` virtual seconds after begin
                "delays": [rng.choice(SEND_GAPS) if stagger else 0.0 for _ in sends],
                # s = send(); batch API: create_batch() before begin (bp) / while the previous transaction is
                # being ended (be) / inside the transaction (bi), then send_batch() inside the transaction
                "modes": [rng.choice(["s", "bp", "be", "bi"]) if use_batches else "s" for _ in sends],
                "await": rng.random() < 0.4,
                # size of the offsets map (0 = no send_offsets_to_transaction)
                "offsets": rng.choice([1, 2, 3]) if rng.random() < 0.35 else 0,
                "end": rng.choice(["commit", "commit", "commit", "abort", "ctx_ok", "ctx_exc"]),
                "linger": rng.choice([0, 0, 5]),
                # None: the transaction is ended after every send() call has returned;
                # a number: it is ended that many seconds after begin, whatever the send tasks are doing
                "end_at": rng.choice([0.0, 0.02, 0.05, 0.1, 0.2, 0.4]) if rng.random() < 0.2 else None,
            })
        how = "finish"
        if i < n_inc - 1:
            how = rng.choice(["kill", "kill", "zombie", "finish"]) if mixed else rng.choice(["kill", "finish"])
        incs.append({"txns": txns, "how": how, "kill_at": round(rng.uniform(0.02, 1.5), 3),
                     # a small max_batch_size makes the second record of a partition wait for the drain of the first
                     "batch_size": rng.choice([16384, 16384, 120])})
    faults = []
    if rng.random() < 0.3:
        # a slow metadata refresh: a batch re-enqueued after a retriable Produce error stays queued meanwhile
        faults.append({"api": "Metadata", "nth": rng.randrange(1, 8), "kind": "delay",
                       "seconds": rng.choice([0.2, 0.5, 1.0]), "count": rng.choice([1, 2])})
    for _ in range(rng.choice([0, 1, 2, 3, 5, 8])):
        api = rng.choice(APIS)
        kind = rng.choice(["error", "error", "drop_before", "drop_after", "lose_reply", "move", "move", "delay", "delay"])
        f = {"api": api, "nth": rng.randrange(0, 6), "kind": kind}
        if kind == "error":
            f["code"] = rng.choice(RETR_CODES[api])
            f["count"] = rng.choice([1, 1, 2, 3])       # the same retriable answer several times in a row
        if kind == "delay":
            # a slow coordinator / leader: the request is applied, the reply comes late
            f["seconds"] = rng.choice(REPLY_DELAYS)
            f["count"] = rng.choice([1, 1, 2])
            if api == "Produce" and rng.random() < 0.6:
                f["tp"] = rng.randrange(0, 3)
        if kind == "move":
            if api == "Produce":
                f["kind"] = "move_leader"
                f["tp"] = rng.randrange(0, 3)
            elif api == "FindCoordinator" or (api == "InitProducerId" and rng.random() < 0.5):
                f["kind"] = "error"
                f["code"] = rng.choice(RETR_CODES[api])
            else:
                f["kind"] = "move_coord"
            f["to"] = rng.randrange(0, nodes)
        faults.append(f)
    if nodes >= 2 and rng.random() < 0.12:
        # the coordinator's broker goes down in the middle of a transaction, the role moves to a live broker
        faults.append({"api": rng.choice(COORD_APIS), "nth": rng.randrange(0, 4), "kind": "coord_node_down"})
    if rng.random() < 0.35:
        # one partition's leader is slow for the whole run
        faults.append({"api": "Produce", "nth": None, "count": None, "kind": "delay",
                       "seconds": rng.choice(REPLY_DELAYS), "tp": rng.randrange(0, 3)})
    if rng.random() < 0.35:
        # the coordinator is slow answering one kind of request for the whole run
        faults.append({"api": rng.choice(COORD_APIS), "nth": None, "count": None, "kind": "delay",
                       "seconds": rng.choice(REPLY_DELAYS)})
    if mixed:
        for _ in range(rng.choice([0, 1, 1, 2])):
            api = rng.choice(list(ABRT_CODES))
            faults.append({"api": api, "nth": rng.randrange(0, 4), "kind": "error", "code": ABRT_CODES[api]})
        if rng.random() < 0.25:
            # the group coordinator lookup of send_offsets_to_transaction is refused (abortable)
            faults.append({"api": "FindCoordinator", "nth": rng.randrange(0, 2), "kind": "group_lookup_denied"})
        for _ in range(rng.choice([0, 0, 1, 1, 2])):
            # a batch fails for good (non-retriable Produce error) - possibly while others are in flight
            faults.append({"api": "Produce", "nth": rng.randrange(0, 4), "kind": "error",
                           "code": rng.choice(NONRETRIABLE_PRODUCE), "tp": rng.randrange(0, 3)})
    return {"nodes": nodes, "jitter": rng.choice([0.0, 0.0005, 0.002]),
            "completion_delay": rng.choice([0.0, 0.0, 0.03]),
            "txn_node": rng.randrange(0, nodes), "grp_node": rng.randrange(0, nodes),
            "incs": incs, "faults": faults, "mixed": mixed, "seed": rng.randrange(1, 10**6)}


def exact_families():
    """deterministic schedules (every run, both tiers)

    A. the second send() lands at every point of the flight of the first AddPartitionsToTxn
       (slow reply / CONCURRENT_TRANSACTIONS / COORDINATOR_LOAD_IN_PROGRESS back-off): the sender loop
       is woken while the transactional request is still in flight;
    B. one batch of the transaction fails for good while a batch on another leader is still
       unacknowledged, and the transaction is ended without waiting for the send futures."""
    out = []

    def case(nodes, txns, faults, mixed, seed):
        return {"nodes": nodes, "jitter": 0.0, "completion_delay": 0.0, "txn_node": 0, "grp_node": 0,
                "incs": [{"txns": txns, "how": "finish", "kill_at": 1.0}], "faults": faults,
                "mixed": mixed, "seed": seed}

    gaps = [0.003, 0.01, 0.03, 0.06, 0.1, 0.15, 0.25, 0.39, 0.45, 0.7]
    slow = [
        [{"api": "AddPartitionsToTxn", "nth": 0, "kind": "delay", "seconds": 0.4}],
        [{"api": "AddPartitionsToTxn", "nth": 0, "kind": "error", "code": 51, "count": 4}],
        [{"api": "AddPartitionsToTxn", "nth": 0, "kind": "error", "code": 14, "count": 3}],
        [{"api": "AddPartitionsToTxn", "nth": 0, "kind": "lose_reply"}],
    ]
    k = 0
    for flt in slow:
        for g in gaps:
            for second in (1, 0):
                for end in ("commit", "abort"):
                    if end == "abort" and g not in (0.03, 0.25):
                        continue
                    k += 1
                    out.append(case(2, [{"sends": [0, second], "delays": [0.0, g], "await": False, "offsets": False,
                                         "end": end, "linger": 0},
                                        {"sends": [second], "delays": [0.0], "await": True, "offsets": False,
                                         "end": "commit", "linger": 0}], [dict(f) for f in flt], False, 1000 + k))
    # a slow AddOffsetsToTxn / TxnOffsetCommit with a send arriving meanwhile
    for api in ("AddOffsetsToTxn", "TxnOffsetCommit"):
        for g in (0.05, 0.2, 0.5):
            k += 1
            out.append(case(2, [{"sends": [0, 1], "delays": [0.0, g], "await": False, "offsets": True,
                                 "end": "commit", "linger": 0}],
                            [{"api": api, "nth": 0, "kind": "delay", "seconds": 0.4},
                             {"api": "AddPartitionsToTxn", "nth": 0, "kind": "delay", "seconds": 0.3}], False, 1000 + k))
    # family C: create_batch() at every point relative to begin / commit / abort, send_batch() inside
    for modes in (["bp"], ["be"], ["bi"], ["bp", "s"], ["s", "be"], ["be", "bp"]):
        for end in ("abort", "commit", "ctx_exc"):
            k += 1
            out.append(case(2, [{"sends": [0], "delays": [0.0], "modes": ["s"], "await": True, "offsets": 0,
                                 "end": "commit", "linger": 0},
                                {"sends": list(range(len(modes))), "delays": [0.0] * len(modes), "modes": modes,
                                 "await": k % 2 == 0, "offsets": 0, "end": end, "linger": 0},
                                {"sends": [1], "delays": [0.0], "modes": ["be"], "await": True, "offsets": 0,
                                 "end": "commit", "linger": 0}], [], True, 1000 + k))
    # family D: offsets maps of 1..3 partitions, the abortable error at each request of send_offsets
    for size in (1, 2, 3):
        for flt in ({"api": "TxnOffsetCommit", "nth": 0, "kind": "error", "code": 30},
                    {"api": "AddOffsetsToTxn", "nth": 0, "kind": "error", "code": 30},
                    {"api": "FindCoordinator", "nth": 0, "kind": "group_lookup_denied"}):
            for end in ("commit", "abort"):
                k += 1
                c_ = case(2, [{"sends": [0], "delays": [0.0], "modes": ["s"], "await": True, "offsets": size,
                               "end": end, "linger": 0},
                              {"sends": [1], "delays": [0.0], "modes": ["s"], "await": True, "offsets": size,
                               "end": "commit", "linger": 0}], [dict(flt)], True, 1000 + k)
                # the only fault is an authorization error: it must stay abortable (abort returns, the next
                # transaction commits), whatever the number of partitions in the offsets map
                c_["only_abortable"] = True
                out.append(c_)
    # family M: commit / abort while other tasks' send()/send_batch() calls are still blocked inside the
    # producer (send_batch behind an undrained batch; a send() that found its batch full), the first
    # AddPartitionsToTxn answered slowly, the partition leader slow
    for modes, bsize in ((["s", "bi", "bi"], 16384), (["bi", "bi", "s"], 16384), (["s", "s", "s"], 120),
                         (["s", "bi", "s"], 120)):
        for end_at in (0.05, 0.15, 0.3, 0.45):
            for end in ("commit", "abort"):
                for pdelay in (0.0, 0.5):
                    k += 1
                    flt = [{"api": "AddPartitionsToTxn", "nth": 0, "kind": "delay", "seconds": 0.4}]
                    if pdelay:
                        flt.append({"api": "Produce", "nth": None, "count": None, "kind": "delay", "seconds": pdelay, "tp": 0})
                    c_ = case(2, [{"sends": [0, 0, 0], "delays": [0.0, 0.01, 0.02], "modes": modes, "await": False,
                                   "offsets": 0, "end": end, "linger": 0, "end_at": end_at},
                                  {"sends": [0, 1], "delays": [0.0, 0.0], "modes": ["s", "s"], "await": True,
                                   "offsets": 0, "end": "commit", "linger": 0}], flt, False, 1000 + k)
                    c_["incs"][0]["batch_size"] = bsize
                    out.append(c_)
    # family N: a batch re-enqueued after a retriable Produce error (its sequence numbers are taken) is still
    # queued - the metadata refresh is slow - when an authorization error for another partition arrives;
    # abort; the next transaction must deliver to the first partition again
    for code in (6, 7):
        for mdelay in (0.5, 1.0):
            for gap in (0.12, 0.2, 0.35, 0.6, 0.9):
                for abrt in ({"api": "AddPartitionsToTxn", "nth": 1, "kind": "error", "code": 29},
                             {"api": "AddOffsetsToTxn", "nth": 0, "kind": "error", "code": 30}):
                    k += 1
                    offs = 1 if abrt["api"] == "AddOffsetsToTxn" else 0
                    sends, delays = ([0, 1], [0.0, gap]) if not offs else ([0], [0.0])
                    c_ = case(2, [{"sends": sends, "delays": delays, "modes": ["s"] * len(sends), "await": False,
                                   "offsets": offs, "end": "abort", "linger": 0,
                                   "end_at": None, "offsets_at": gap if offs else None},
                                  {"sends": [0, 1], "delays": [0.0, 0.0], "modes": ["s", "s"], "await": True,
                                   "offsets": 0, "end": "commit", "linger": 0}],
                              [{"api": "Produce", "nth": 0, "kind": "error", "code": code, "tp": 0},
                               # from the first AddPartitionsToTxn on, metadata refreshes are slow
                               {"api": "AddPartitionsToTxn", "nth": 0, "kind": "arm_delay", "target": "Metadata",
                                "seconds": mdelay, "count": 3},
                               dict(abrt)], True, 1000 + k)
                    c_["expect"] = ["aborted", "committed"]
                    out.append(c_)
    # family I: the transaction coordinator really moves while InitProducerId is on its way (the request is then
    # answered NOT_COORDINATOR by the old node): start() must find the new coordinator and the transaction commit
    for nodes in (2, 3):
        for nth in (0, 1):
            for to in (1, 2):
                if to >= nodes:
                    continue
                k += 1
                c_ = case(nodes, [{"sends": [0, 1], "delays": [0.0, 0.0], "modes": ["s", "s"], "await": True,
                                   "offsets": 0, "end": "commit", "linger": 0}],
                          [{"api": "InitProducerId", "nth": nth, "kind": "move_coord", "to": to}] +
                          ([{"api": "InitProducerId", "nth": 0, "kind": "error", "code": 15}] if nth else []), False, 1000 + k)
                c_["expect"] = ["committed"]
                out.append(c_)
    # family K: the broker hosting the transaction coordinator becomes unreachable (no NOT_COORDINATOR answer,
    # connects are refused) while the role moves to a live broker - at every transactional request type and
    # between transactions; retriable faults only: every transaction must still end as requested
    for nodes_ in (2, 3):
        for api_, nth_ in (("AddPartitionsToTxn", 0), ("AddPartitionsToTxn", 1), ("AddOffsetsToTxn", 0),
                           ("TxnOffsetCommit", 0), ("EndTxn", 0), ("EndTxn", 1), (None, None)):
            for end in ("commit", "abort"):
                k += 1
                t2 = {"sends": [1, 0], "delays": [0.0, 0.05], "modes": ["s", "s"], "await": True, "offsets": 1,
                      "end": "commit", "linger": 0}
                flt = []
                if api_ is None:
                    t2["pre"] = "coord_node_down"
                else:
                    flt = [{"api": api_, "nth": nth_, "kind": "coord_node_down"}]
                c_ = case(nodes_, [{"sends": [0, 1], "delays": [0.0, 0.1], "modes": ["s", "s"], "await": k % 2 == 0,
                                    "offsets": 2, "end": end, "linger": 0}, t2], flt, False, 1000 + k)
                c_["txn_node"] = 1
                c_["grp_node"] = k % nodes_
                out.append(c_)
    # family B
    for code in NONRETRIABLE_PRODUCE[:2]:
        for d in (0.3, 0.8):
            for end in ("commit", "abort", "ctx_ok"):
                for gap in (0.0, 0.05):
                    for bad, slowp in ((0, 1), (1, 0)):
                        k += 1
                        out.append(case(2, [{"sends": [bad, slowp, slowp], "delays": [0.0, gap, gap], "await": False,
                                             "offsets": False, "end": end, "linger": 0},
                                            {"sends": [slowp], "delays": [0.0], "await": True, "offsets": False,
                                             "end": "commit", "linger": 0}],
                                        [{"api": "Produce", "nth": 0, "kind": "error", "code": code, "tp": bad},
                                         {"api": "Produce", "nth": None, "count": None, "kind": "delay",
                                          "seconds": d, "tp": slowp}], True, 1000 + k))
    return out


def coord_node_down(cl):
    """the broker hosting the transaction coordinator goes down (connects refused, its connections die);
    the coordinator roles and the partitions it led are taken over by a live broker"""
    dead = cl.coordinator_for("txn", TXID)
    alive = [n.id for n in cl.nodes if n.up and n.id != dead]
    if not alive or not cl.nodes[dead].up:
        return
    to = alive[0]
    cl.move_coordinator("txn", TXID, to, keep_state=True)
    if cl.coordinator_for("group", GROUP) == dead:
        cl.move_coordinator("group", GROUP, to, keep_state=True)
    for tp, leader in sorted(cl.leaders().items()):
        if leader == dead:
            cl.set_leader(tp, to)
    cl.kill_node(dead)


def install_faults(env, cluster, case):
    F = env.sim.Fault
    late = []       # catch-all faults go last (the first fault that wants a request gets it)
    for f in case["faults"]:
        k = f["kind"]
        tp = (TOPIC, f["tp"]) if f.get("tp") is not None and k in ("error", "delay") else None
        cnt = f.get("count", 1)
        if k == "error":
            cluster.faults.add(F("error", api=f["api"], nth=f["nth"], code=f["code"], tp=tp, count=cnt))
        elif k == "delay":
            cluster.faults.add(F("delay", api=f["api"], nth=f["nth"], seconds=f["seconds"], tp=tp, count=cnt))
        elif k in ("drop_before", "drop_after", "lose_reply"):
            cluster.faults.add(F(k, api=f["api"], nth=f["nth"]))
        elif k == "coord_node_down":
            cluster.faults.add(F("call", api=f["api"], nth=f["nth"], label="coordinator node down, role moved",
                                 fn=lambda cl, rq: coord_node_down(cl)))
        elif k == "arm_delay":
            def arm(cl, rq, f=f):
                cl.faults.add(F("delay", api=f["target"], nth=None, seconds=f["seconds"], count=f["count"]))
            cluster.faults.add(F("call", api=f["api"], nth=f["nth"], fn=arm,
                                 label=f"from now on {f['target']} replies are {f['seconds']} s late"))
        elif k == "group_lookup_denied":
            state = {"n": 0}

            def deny(cl, rq, state=state, nth=f["nth"]):
                req = rq.req
                ctype = getattr(req, "coordinator_type", 0)
                if ctype == 0:                      # a lookup of the GROUP coordinator
                    if state["n"] == nth:
                        rq.inject = (30, None)      # GROUP_AUTHORIZATION_FAILED
                    state["n"] += 1
            late.append(F("call", api="FindCoordinator", count=None, fn=deny, label="group coordinator lookup refused"))
        elif k == "move_coord":
            to = f["to"] % case["nodes"]
            cluster.faults.add(F("call", api=f["api"], nth=f["nth"], label=f"move txn coordinator to {to}",
                                 fn=lambda cl, rq, to=to: cl.nodes[to].up and cl.move_coordinator("txn", TXID, to, keep_state=True)))
        elif k == "move_leader":
            to, tp2 = f["to"] % case["nodes"], (TOPIC, f["tp"])
            cluster.faults.add(F("call", api=f["api"], nth=f["nth"], label=f"move leader of {tp2} to {to}",
                                 fn=lambda cl, rq, to=to, tp2=tp2: cl.nodes[to].up and cl.set_leader(tp2, to)))
    for flt in late:
        cluster.faults.add(flt)


# --------------------------------------------------------------------------- the workload itself
class Obs:
    """what the application was told (independent bookkeeping for the property itself)"""

    def __init__(self):
        self.txns = []          # dicts: inc, recs [(payload, fut outcome)], outcome, offset
        self.errors = []        # (inc, where, class)
        self.payload_id = {}    # payload -> canonical record id (acceptance order)
        self.nrec = 0
        self.backpressure = 0   # send()/send_batch() calls that raised KafkaTimeoutError (record not accepted)
        self.rejected = []      # payloads whose send()/send_batch() CALL raised: not accepted, must never be written
        self.limbo = []         # payloads accepted while the application had no transaction open
        self.unaccepted = []    # payloads appended by a leader although no send() call had returned a future for them


async def run_incarnation(env, cluster, case, i, spec, obs, boot):
    E = env.errors
    TP = env.structs.TopicPartition
    now_ms = env.sim.now_ms

    def api(op, **kw):
        cluster._ev("api", op=op, i=i, **kw)

    p = env.aiokafka.AIOKafkaProducer(bootstrap_servers=boot, client_id=f"p{i}", transactional_id=TXID,
                                      request_timeout_ms=TC.REQUEST_TIMEOUT_MS,
                                      max_batch_size=int(spec.get("batch_size", 16384)))
    state = {"p": p, "started": False}
    cur = {"rec": None}     # the transaction the application has open (records are booked where they are ACCEPTED)
    running = []            # send tasks still running
    # observe the client side of the connections from outside: what is handed to a connection and
    # which acknowledgements have come back (AIOKafkaClient.send is the single choke point)
    orig_send = p.client.send

    async def observed_send(node_id, request, **kw):
        key = getattr(request, "API_KEY", None)
        if key == 0 and getattr(request, "_transactional_id", None) is not None:
            parts = sorted(part for topic, plist in request._topics if topic == TOPIC for part, _data in plist)
            cluster._ev("api", op="produce_send", i=i, parts=parts)
        resp = await orig_send(node_id, request, **kw)
        if key == 24:
            okp = sorted(part for topic, plist in resp.errors if topic == TOPIC for part, code in plist if code == 0)
            allok = all(code == 0 for _topic, plist in resp.errors for _part, code in plist)
            if allok and okp:
                cluster._ev("api", op="reg_ack", i=i, parts=okp)
        return resp

    p.client.send = observed_send
    try:
        await p.start()
    except asyncio.CancelledError:
        raise
    except Exception as ex:  # noqa
        obs.errors.append((i, "start", env.classify(ex)))
        await TC.kill_producer(p)
        return state
    state["started"] = True
    prebuilt = {}

    def make_prebuilt(t, mode):
        """create_batch() for the sends of transaction t that want a batch made at this point"""
        if t < len(spec["txns"]):
            txn_ = spec["txns"][t]
            for j, m in enumerate(txn_.get("modes") or []):
                if m == mode and (t, j) not in prebuilt:
                    prebuilt[(t, j)] = p.create_batch()

    async def ending(t, coro):
        """end the transaction; meanwhile create the batches the next transaction wants made now"""
        task = asyncio.ensure_future(coro)
        try:
            await asyncio.sleep(0)
            make_prebuilt(t + 1, "be")
            return await task
        except asyncio.CancelledError:
            task.cancel()
            raise

    try:
        for t, txn in enumerate(spec["txns"]):
            rec = {"inc": i, "t": t, "recs": [], "outcome": "open", "offset": None, "offset_ok": False,
                   "asked": None, "offset_keys": []}
            if txn.get("pre") == "coord_node_down":
                coord_node_down(cluster)     # between two transactions
            make_prebuilt(t, "be")      # (first transaction: nothing was being ended)
            make_prebuilt(t, "bp")
            p._message_accumulator._linger_time = txn["linger"] / 1000
            ctx = p.transaction() if txn["end"].startswith("ctx") else None
            try:
                if ctx is not None:
                    await ctx.__aenter__()
                else:
                    await p.begin_transaction()
            except (E.KafkaError, AssertionError) as ex:
                obs.errors.append((i, "begin", env.classify(ex)))
                break
            api("begin")
            obs.txns.append(rec)
            cur["rec"] = rec
            rec["w0"] = len(cluster.trace)
            futs = []
            failed = None

            async def one(j, part):
                payload = f"i{i}t{t}s{j}"
                gap = (txn.get("delays") or [0.0] * len(txn["sends"]))[j]
                if gap:
                    await asyncio.sleep(gap)
                mode = (txn.get("modes") or ["s"] * len(txn["sends"]))[j]
                try:
                    if mode == "s":
                        fut = await p.send(TOPIC, payload.encode(), partition=part, timestamp_ms=now_ms())
                    else:
                        builder = prebuilt.pop((t, j), None) or p.create_batch()
                        if builder.append(key=None, value=payload.encode(), timestamp=now_ms()) is None:
                            raise HarnessError("batch builder refused one small record")
                        fut = await p.send_batch(builder, TOPIC, partition=part)
                except E.KafkaTimeoutError:
                    # documented back-pressure of send() / send_batch(): the record could not be queued within
                    # request_timeout_ms (earlier batches of the partition still in flight to a slow leader);
                    # the record is NOT accepted, nothing is claimed about it, the application goes on
                    obs.backpressure += 1
                    obs.rejected.append(payload)
                    return None
                except (E.KafkaError, AssertionError) as ex:
                    obs.rejected.append(payload)
                    return ex
                rid = obs.nrec
                obs.nrec += 1
                obs.payload_id[payload] = rid
                entry = [payload, "pending"]
                if cur["rec"] is not None:
                    cur["rec"]["recs"].append(entry)
                else:
                    obs.limbo.append(payload)
                api("accept", r=rid, p=part)

                def cb(f, rid=rid, entry=entry):
                    if f.cancelled() or f.exception() is not None:
                        entry[1] = "failed" if f.cancelled() else env.classify(f.exception())
                        api("failed", r=rid)
                    else:
                        entry[1] = "ok"
                        api("acked", r=rid)
                fut.add_done_callback(cb)
                futs.append(fut)
                return None

            send_tasks = [asyncio.ensure_future(one(j, part)) for j, part in enumerate(txn["sends"])]
            running[:] = send_tasks
            if txn.get("end_at") is None:
                res = await asyncio.gather(*send_tasks)
                late = []
            else:
                # the application ends the transaction at a fixed time, whatever its send tasks are doing:
                # calls still blocked inside the producer (full batch, send_batch behind an undrained batch,
                # not yet started) race with commit / abort
                await asyncio.sleep(txn["end_at"])
                res = [t_.result() for t_ in send_tasks if t_.done()]
                late = [t_ for t_ in send_tasks if not t_.done()]
                rec["late"] = len(late)
            for r in res:
                if r is not None:
                    failed = r
            if txn["offsets"] and failed is None:
                if txn.get("offsets_at"):
                    await asyncio.sleep(txn["offsets_at"])
                off = 100 + len(obs.txns) * 10 + t
                rec["offset"] = off
                omap = TC.offsets_map(TP, int(txn["offsets"]), off)
                rec["offset_keys"] = [(k_.topic, k_.partition) for k_ in omap]
                try:
                    await p.send_offsets_to_transaction(omap, GROUP)
                    rec["offset_ok"] = True
                    api("offs_ok", o=off)
                except (E.KafkaError, AssertionError) as ex:
                    failed = ex
            if txn["await"] and failed is None:
                for f in futs:
                    try:
                        await f
                    except (E.KafkaError, AssertionError) as ex:
                        failed = ex
            want_commit = txn["end"] in ("commit", "ctx_ok") and failed is None
            if failed is not None:
                obs.errors.append((i, "in-txn", env.classify(failed)))
                if env.classify(failed) == "fatal" and p._txn_manager.is_fatal_error():
                    rec["outcome"] = "fatal"
                    break
            try:
                if want_commit:
                    rec["asked"] = "commit"
                    api("commit_call")
                    if ctx is not None:
                        await ending(t, ctx.__aexit__(None, None, None))
                    else:
                        await ending(t, p.commit_transaction())
                    rec["outcome"] = "committed"
                    api("commit_ok")
                    cur["rec"] = None
                else:
                    rec["asked"] = "abort"
                    api("abort_call")
                    if ctx is not None:
                        exc = RuntimeError("application error")
                        await ending(t, ctx.__aexit__(RuntimeError, exc, None))
                        if p._txn_manager.is_fatal_error():
                            rec["outcome"] = "fatal"
                            break
                    else:
                        await ending(t, p.abort_transaction())
                    rec["outcome"] = "aborted"
                    api("abort_ok")
                    cur["rec"] = None
            except (E.KafkaError, AssertionError) as ex:
                cls = env.classify(ex)
                obs.errors.append((i, rec["asked"], cls))
                if cls == "abrt":
                    # commit raised the abortable error: the application aborts
                    try:
                        rec["asked"] = "abort"
                        api("abort_call")
                        await p.abort_transaction()
                        rec["outcome"] = "aborted"
                        api("abort_ok")
                        cur["rec"] = None
                    except (E.KafkaError, AssertionError) as ex2:
                        obs.errors.append((i, "abort", env.classify(ex2)))
                        rec["outcome"] = "failed"
                        break
                else:
                    rec["outcome"] = "failed"
                    break
            rec["w1"] = len(cluster.trace)
            cur["rec"] = None
            if late:
                # the calls that were still inside the producer when the transaction was ended: they raise
                # (record not accepted) - what they must never do is leave their record behind
                await asyncio.gather(*late)
        for t_ in running:
            if not t_.done():
                t_.cancel()
    except asyncio.CancelledError:
        for t_ in running:
            if not t_.done():
                t_.cancel()
        for r in obs.txns:
            if r["inc"] == i and r["outcome"] == "open":
                r["outcome"] = "killed-in-" + (r["asked"] or "txn")
        raise
    return state


async def workload(env, cluster, case, obs):
    boot = ",".join(f"b{n}:9092" for n in range(case["nodes"]))
    loop = asyncio.get_event_loop()
    tasks = []
    prev = None
    for i, spec in enumerate(case["incs"]):
        holder = {}

        async def runner(i=i, spec=spec, holder=holder):
            holder["state"] = await run_incarnation(env, cluster, case, i, spec, obs, boot)

        t = asyncio.ensure_future(runner())
        tasks.append((t, holder, spec))
        if spec["how"] == "finish":
            await asyncio.wait([t])
        elif spec["how"] == "kill":
            await asyncio.wait([t], timeout=spec["kill_at"])
            if not t.done():
                t.cancel()
                await asyncio.wait([t])
                cluster._ev("api", op="killed", i=i)
        else:   # zombie: the next incarnation starts while this one goes on
            await asyncio.wait([t], timeout=spec["kill_at"])
    for t, holder, spec in tasks:
        if not t.done():
            await asyncio.wait([t])
    # the processes end (no flush, no EndTxn)
    for t, holder, spec in tasks:
        st = holder.get("state")
        if st is not None and st.get("started"):
            await TC.kill_producer(st["p"])
    await asyncio.sleep(5.0)


# --------------------------------------------------------------------------- history -> events
def translate(trace, obs):
    """the run's history as acceptor events (tokens of Driver/TxnTraceIO.lean)"""
    evs = []
    cur = None

    def inc_of(client):
        if client and client.startswith("p") and client[1:].isdigit():
            return int(client[1:])
        return None

    for e in trace:
        ev = e["ev"]
        if ev == "request":
            cur = e
            i = inc_of(e["client"])
            if i is None:
                continue
            if e["api"] == "Produce":
                for pp in e["fields"]["partitions"]:
                    if pp["topic"] == TOPIC and pp["is_txn"]:
                        evs.append(f"P{i}.{pp['partition']}")
            elif e["api"] == "EndTxn":
                evs.append(f"Q{i}.{'c' if e['fields']['transaction_result'] else 'a'}")
        elif ev == "txn":
            if e.get("txid") != TXID:
                continue
            i = inc_of(cur["client"]) if cur is not None else None
            op, out = e["op"], e["outcome"]
            if op == "fence_abort":
                evs.append("F")
            elif op == "init" and out == 0:
                evs.append("F")
                evs.append(f"I{i}")
            elif op == "add_partitions" and out == 0:
                for (_t, part) in e["partitions"]:
                    evs.append(f"R{i}.{part}")
            elif op == "add_offsets" and out == 0:
                evs.append(f"G{i}")
            elif op == "end" and out == 0 and (e["partitions"] or e["groups"]):
                evs.append(f"E{i}.{'c' if e['result'] == 'commit' else 'a'}")
        elif ev == "group" and e.get("op") == "txn_commit" and e.get("outcome") == 0:
            i = inc_of(cur["client"]) if cur is not None else None
            for (_t, part, off) in e.get("offsets") or []:
                if part == 2:
                    evs.append(f"S{i}.{off}")
        elif ev == "apply" and e["outcome"] == "append" and e.get("client"):
            i = inc_of(e["client"])
            if i is None or cur is None or cur["api"] != "Produce":
                continue
            tp = tuple(e["tp"])
            for pp in cur["fields"]["partitions"]:
                if (pp["topic"], pp["partition"]) == tp and pp["base_seq"] == e["seq"]:
                    for payload in pp["records"]:
                        rid = obs.payload_id.get(payload)
                        if rid is None:
                            # a record that no accepted send() produced (its call raised, or has not returned):
                            # an id outside the acceptance order - the acceptor refuses the append
                            rid = 900000 + len(obs.unaccepted)
                            obs.unaccepted.append(payload)
                        evs.append(("A" if pp["is_txn"] else "N") + f"{i}.{tp[1]}.{rid}")
        elif ev == "api":
            i, op = e["i"], e["op"]
            if op == "begin":
                evs.append(f"b{i}")
            elif op == "accept":
                evs.append(f"a{i}.{e['r']}.{e['p']}")
            elif op == "acked":
                evs.append(f"k{i}.{e['r']}")
            elif op == "failed":
                evs.append(f"f{i}.{e['r']}")
            elif op == "offs_ok":
                evs.append(f"o{i}.{e['o']}")
            elif op == "produce_send":
                for part in e["parts"]:
                    evs.append(f"D{i}.{part}")
            elif op == "reg_ack":
                for part in e["parts"]:
                    evs.append(f"K{i}.{part}")
            elif op == "commit_call":
                evs.append(f"cc{i}")
            elif op == "abort_call":
                evs.append(f"ca{i}")
            elif op == "commit_ok":
                evs.append(f"co{i}")
            elif op == "abort_ok":
                evs.append(f"ao{i}")
    return evs


def canon_reqs_ids(env, cluster, case, ids):
    """the canonical request log with payloads replaced by record ids (tokens of the Lean `Req`)"""
    out = []
    for r in TC.canon_requests(env, [e for e in cluster.trace if e["ev"] != "api"],
                               {f"p{i}" for i in range(len(case["incs"]))}):
        head, code = r.rsplit(":", 1)
        if code == "noreply":
            code = "retr"       # never handled (its broker went down / the connection died first): not applied
        if head.startswith("PR"):
            p, recs = head[2:].split(".", 1)
            head = f"PR{p}." + "+".join(f"r{ids[x]}" if x in ids else "r999999" for x in recs.split("+"))
        out.append(f"{head}:{code}")
    return out


def clean_case(case):
    """one incarnation; only retriable / authorization faults (nothing that legitimately poisons later transactions)"""
    if len(case["incs"]) != 1:
        return False
    for f in case["faults"]:
        if f["kind"] == "error" and f["api"] == "Produce" and f.get("code") in NONRETRIABLE_PRODUCE:
            return False
    return True


def run_trace_case(env, case):
    """-> dict(events, sim (canonical final state of the simulator), holds (None | (sig, text)), hang, stats)"""
    sim = env.sim
    cluster = sim.SimCluster(nodes=case["nodes"], topics={TOPIC: 3, TC.TOPIC2: 2}, seed=case["seed"], jitter=case["jitter"])
    cluster.txn_completion_delay = case["completion_delay"]
    cluster._coordinators[("txn", TXID)] = case["txn_node"]
    cluster._coordinators[("group", GROUP)] = case["grp_node"]
    install_faults(env, cluster, case)
    obs = Obs()
    hang = None
    try:
        sim.run(workload(env, cluster, case, obs), cluster, max_vt=900.0)
    except sim.SimTimeout as ex:
        hang = str(ex)[:300]
    evs = translate(cluster.trace, obs)
    ids = dict(obs.payload_id)
    for n_, pl_ in enumerate(obs.unaccepted):
        ids[pl_] = 900000 + n_
    parts = []
    vis_all = set()
    for part in (0, 1, 2):
        vis, opn, _ = TC.rc_view(cluster, part)
        vis_all |= set(vis)
        parts.append(f"vis{part}=" + (",".join(str(ids[v]) for v in vis) if vis else "-"))
        parts.append(f"open{part}=" + (",".join(str(ids[v]) for v in opn) if opn else "-"))
    comm = cluster.committed(GROUP).get((TOPIC, 2))
    g = cluster.groups.get(GROUP)
    pend = None
    if g is not None:
        for _pid, d in g.pending_txn_offsets.items():
            if (TOPIC, 2) in d:
                pend = d[(TOPIC, 2)][0]
    simtxt = " ".join(parts) + f" comm={comm if comm is not None else '-'} pend={pend if pend is not None else '-'}"
    # ---- the property itself, on what the application was told vs. an independent read-committed reader
    why = None
    for r in obs.txns:
        if r["outcome"] == "committed":
            for payload, o in r["recs"]:
                if o == "ok" and payload not in vis_all and why is None:
                    why = ("c07:committed-missing", f"record {payload} of a committed transaction is not visible to a read-committed reader")
                # a record whose send() future FAILED is not claimed either way: the property speaks of the
                # records of the transaction the producer acknowledged (reading taken: "records of a
                # transaction" = records whose send was acknowledged).  Such a record can legitimately be
                # in the log: first attempt applied with the reply lost, retry answered with an error.
        elif r["outcome"] == "aborted" or r["outcome"] == "killed-in-txn":
            for payload, _o in r["recs"]:
                if payload in vis_all and why is None:
                    why = ("c07:aborted-visible", f"record {payload} of an aborted / fenced transaction ({r['outcome']}) is visible to a read-committed reader")
    # a send()/send_batch() whose CALL raised did not accept the record: it must never be written
    written = set()
    for part in (0, 1, 2):
        written |= set(TC.rc_view(cluster, part)[2])
    for payload in obs.rejected:
        if payload in written and why is None:
            why = ("c07:refused-send-written",
                   f"record {payload}: the send()/send_batch() call raised (record not accepted) but the record was written")
    for payload in obs.limbo:
        if why is None:
            why = ("c07:send-accepted-outside-transaction",
                   f"record {payload} was accepted by send()/send_batch() while the application had no transaction open")
    # offsets, partition by partition of the maps that were sent (1..3 partitions over two topics)
    cm = cluster.committed(GROUP)
    indeterminate = any(r["outcome"] in ("failed", "fatal", "killed-in-commit", "killed-in-abort") and r["offset_ok"]
                        for r in obs.txns)
    keys = sorted({tuple(k_) for r in obs.txns for k_ in r.get("offset_keys", [])})
    for key in keys:
        expect = None
        for r in obs.txns:
            if key not in [tuple(k_) for k_ in r.get("offset_keys", [])]:
                continue
            if r["outcome"] in ("aborted", "killed-in-txn") and cm.get(key) == r["offset"] and why is None:
                why = ("c07:aborted-offsets-committed",
                       f"offset {r['offset']} of an aborted / fenced transaction is committed for {key}")
            if r["outcome"] == "committed" and r["offset_ok"]:
                expect = r["offset"]
        if why is None and expect is not None and not indeterminate and cm.get(key) != expect:
            why = ("c07:committed-offsets-missing",
                   f"offset {expect} of a committed transaction is not the group's committed offset for {key} ({cm.get(key)})")
    # ---- liveness side (retriable faults only)
    live = None
    if not case["mixed"]:
        if hang:
            live = ("c07:hang", f"a call did not return within 900 virtual seconds under retriable faults only: {hang}")
        else:
            bad = [e for e in obs.errors]
            unfinished = [r for r in obs.txns if r["outcome"] not in ("committed", "aborted") and not r["outcome"].startswith("killed")]
            failed_recs = [(p_, o) for r in obs.txns for p_, o in r["recs"] if o not in ("ok",) and not r["outcome"].startswith("killed")]
            if bad or unfinished:
                live = ("c07:retriable-fault-failed-transaction",
                        f"under retriable faults only: errors {bad[:3]} unfinished {[(r['inc'], r['t'], r['outcome']) for r in unfinished][:3]}")
            elif failed_recs:
                live = ("c07:retriable-fault-failed-send", f"under retriable faults only a send failed: {failed_recs[:3]}")
    elif hang:
        live = ("c07:hang", f"a call did not return within 900 virtual seconds: {hang}")
    elif case.get("only_abortable"):
        outs = [r["outcome"] for r in obs.txns]
        if "fatal" in [c for _i, _w, c in obs.errors] or outs != ["aborted", "committed"]:
            live = ("c07:abortable-error-became-fatal",
                    f"an authorization error alone (offsets map of {case['incs'][0]['txns'][0]['offsets']} partitions) "
                    f"did not stay abortable: outcomes {outs}, errors {obs.errors[:3]}")
    elif case.get("expect"):
        # exact schedule with a stated outcome: abort recovers - the next transaction delivers and commits
        outs = [r["outcome"] for r in obs.txns]
        lastrecs = [o for _p, o in obs.txns[-1]["recs"]] if obs.txns else []
        if outs != case["expect"] or any(o != "ok" for o in lastrecs) or not lastrecs:
            live = ("c07:abort-did-not-recover",
                    f"after an abortable error and abort_transaction() the next transaction must deliver and commit: "
                    f"outcomes {outs} (expected {case['expect']}), sends of the last transaction {lastrecs}, errors {obs.errors[:3]}")
    if live is None and why is None and clean_case(case):
        # "abort / commit return the producer to a state in which a new transaction succeeds": in a run of one
        # incarnation with retriable and authorization faults only, a transaction during which no fault fired
        # (slow replies aside) must end the way it was asked to, with every send acknowledged
        fired = [n_ for n_, e in enumerate(cluster.trace) if e["ev"] == "fault" and e.get("kind") != "delay"]
        for r in obs.txns:
            if "w1" not in r or r.get("late"):
                continue
            if any(r["w0"] <= n_ <= r["w1"] for n_ in fired):
                continue
            bad = [(p_, o) for p_, o in r["recs"] if o != "ok"]
            if r["outcome"] not in ("committed", "aborted") or r["outcome"] != ("committed" if r["asked"] == "commit" else "aborted") or bad:
                live = ("c07:clean-transaction-failed",
                        f"transaction #{r['t']} ran without any fault but ended {r['outcome']} (asked {r['asked']}), "
                        f"failed sends {bad[:3]} - an earlier error was not recovered from")
                break
    stats = {"events": len(evs), "txns": len(obs.txns),
             "outcomes": [r["outcome"] for r in obs.txns],
             "faults_fired": sum(1 for e in cluster.trace if e["ev"] == "fault"),
             "errors": [c for _i, _w, c in obs.errors],
             "concurrent": max([len(r["recs"]) for r in obs.txns] or [0]),
             "backpressure": obs.backpressure,
             "reqs": canon_reqs_ids(env, cluster, case, ids)}
    return {"events": evs, "sim": simtxt, "holds": why, "live": live, "hang": hang, "stats": stats}


def _init_worker(repo):
    global _ENV
    _ENV = TC.TxnEnv(repo)


def _work(chunk):
    out = []
    for kind, case in chunk:
        try:
            if kind == "trace":
                out.append(run_trace_case(_ENV, case))
            else:
                calls, fault, what = case
                # sizes of the offsets maps (1, 2, 3 partitions) rotate from a start that depends on the program
                import zlib
                txt, d = TC.run_api_case(_ENV, list(calls), fault, what,
                                         ovar=zlib.crc32(",".join(calls).encode()) % 3)
                out.append((txt, {"per_call": d["per_call"], "res": d["res"], "futs": d["futs"],
                                  "reqs": d["reqs"], "views": d["views"]}))
        except Exception as ex:  # noqa
            import traceback
            msg = f"{type(ex).__name__}:{str(ex)[:300]} {traceback.format_exc()[-600:]}"
            out.append({"harness": msg} if kind == "trace" else (f"harness-exception:{msg}", {}))
    return out


def gen_api_case(rng):
    """a sequential program (with restarts) and at most one fault"""
    n = rng.randrange(3, 13)
    calls = []
    st_hint = "ready"
    for _ in range(n):
        # biased towards protocol order, with out-of-order calls mixed in
        if rng.random() < 0.75:
            if st_hint == "ready":
                c = rng.choice(["b", "b", "b", "r"])
            else:
                c = rng.choice(["s0", "s1", "s0", "s1", "t0", "t1", "k", "o", "o", "c", "a", "x", "e", "r"])
        else:
            c = rng.choice(["b", "s0", "s1", "t0", "t1", "k", "k", "o", "c", "a", "x", "e", "r"])
        calls.append(c)
        if c == "b" and st_hint == "ready":
            st_hint = "in"
        elif c in ("c", "a", "x", "e", "r"):
            st_hint = "ready"
    return tuple(calls)


def slug(msg):
    import re
    words = re.sub(r"[^a-z0-9 ]", "", msg.replace("client:_", "").replace("_", " ").lower()).split()
    return "c07:" + "-".join(words[:8])


def run(ctx):
    ctx.coverage["trusted_base"] = [
        "Lean 4.33.0 kernel; axioms propext, Classical.choice, Quot.sound only",
        "Env (Model/Txn.lean): my transcription of the Kafka transaction coordinator / markers / pending offsets / "
        "read-committed view for one transactional id and one group; compared with the simulator's final logs and "
        "offsets on every trace (a difference is harness trouble, exit 2)",
        "the simulator (harness/sim), the history -> event translation in harness/checks/c07.py (environment "
        "decisions are attributed to the request being handled; record ids are assigned when send() returns)",
        "what lies between two events (the code of sender / accumulator between awaits) is covered by the tie only",
    ]
    ctx.assumptions += [
        "c07_retriable_only_completes_partial: the liveness clause is proved for the model with one retriable fault "
        "per run and no clock; on the implementation it is a bounded virtual-time observation (every call returns "
        "within 900 virtual seconds under several retriable faults)",
        "Env assumption: a request is applied at one instant between arrival and the client's observation of "
        "reply / drop / timeout; leaders never become unavailable for longer than the request timeout "
        "(DESIGN.md section 4 #10 is C01's finding)",
        "non-retriable Produce errors (a failed send does not make commit_transaction raise) are outside the "
        "property's fault list",
    ]
    import logging
    logging.disable(logging.CRITICAL)
    sys.path.insert(0, str(VERIF / "harness"))
    from extract import txntable as X
    try:
        X.regenerate(ctx.repo, LEAN)
    except Exception as e:  # noqa
        ctx.broken.append({"kind": "extract", "error": repr(e)})
    proved = ctx.prove(drivers=["akdriver"])
    if not proved:
        ok, out = ctx.ws.build(["akdriver"])
        if not ok and not ctx.ws.exe_path("akdriver").exists():
            raise HarnessError("akdriver does not build:\n" + out[-1500:])

    def drv(lines):
        return ctx.driver("akdriver", lines)

    # ------------------------------------------------------------------ cases
    if ctx.replay_cases is not None:
        trace_cases = [c["case"] for c in ctx.replay_cases if c.get("kind") == "trace"]
        api_cases = [(tuple(c["calls"]), tuple(c["fault"]) if c.get("fault") else None, c.get("fault_as", "-"))
                     for c in ctx.replay_cases if c.get("kind") == "api"]
    else:
        trace_cases, api_cases = [], []
        cdir = VERIF / "corpus" / "C07"
        if cdir.is_dir():
            for f in sorted(cdir.glob("*.json")):
                for c in json.loads(f.read_text()).get("cases", []):
                    if c.get("kind") == "trace":
                        trace_cases.append(c["case"])
                    else:
                        api_cases.append((tuple(c["calls"]), tuple(c["fault"]) if c.get("fault") else None,
                                          c.get("fault_as", "-")))
        ctx.coverage["corpus_cases"] = len(trace_cases) + len(api_cases)
        fam = exact_families()
        trace_cases += fam
        ctx.coverage["exact_schedule_cases"] = len(fam)
        rng = ctx.rng("traces")
        n_tr = 40000 if ctx.thorough else 1200
        for k in range(n_tr):
            trace_cases.append(gen_case(rng, mixed=(k % 2 == 1)))
        rng2 = ctx.rng("api")
        n_api = 80000 if ctx.thorough else 4000
        seqs = [gen_api_case(rng2) for _ in range(n_api)]
        out = drv([C16.model_line(s, None) for s in seqs])
        for s, o in zip(seqs, out):
            reqs = C16.fields(o).get("reqs", "-")
            cnt = {}
            if reqs != "-":
                for r in reqs.split(";"):
                    if r[:2] in TC.API_TOK:
                        cnt[r[:2]] = cnt.get(r[:2], 0) + 1
            choices = [(api, k, kind) for api in C16.API_ORDER for k in range(cnt.get(api, 0)) for kind in C16.KINDS
                       if TC.applicable(api, kind) and not (api == "PR" and kind in ("abrt", "fatal"))]
            if choices and rng2.random() < 0.8:
                f = rng2.choice(choices)
                api_cases.append((s, f, TC.choose_fault(f, rng2)))
            else:
                api_cases.append((s, None, "-"))
    ctx.log(f"{len(trace_cases)} concurrent workloads, {len(api_cases)} sequential programs")
    work = [("trace", c) for c in trace_cases] + [("api", c) for c in api_cases]
    nproc = min(16 if ctx.thorough else 8, os.cpu_count() or 1)
    chunks = [work[i:i + 40] for i in range(0, len(work), 40)]
    if len(work) < 80 or nproc == 1:
        _init_worker(ctx.repo)
        results = [_work(ch) for ch in chunks]
    else:
        mp = multiprocessing.get_context("fork")
        with mp.Pool(nproc, initializer=_init_worker, initargs=(ctx.repo,)) as pool:
            results = pool.map(_work, chunks)
    flat = [r for ch in results for r in ch]
    tres = flat[:len(trace_cases)]
    ares = flat[len(trace_cases):]

    # ------------------------------------------------------------------ B: traces through the acceptor
    for r in tres:
        if "harness" in r:
            raise HarnessError(r["harness"])
    acc = drv(["c07 trace " + (",".join(r["events"]) if r["events"] else "-") for r in tres]) if tres else []
    hist_out, hist_len, hist_f, n_conc, n_multi = {}, {}, {}, 0, 0
    cand = []
    for k, (case, r, a) in enumerate(zip(trace_cases, tres, acc)):
        st = r["stats"]
        ctx.count(("trace", json.dumps(case, sort_keys=True)), nontrivial=st["txns"] >= 1 and st["events"] >= 10)
        for o in st["outcomes"]:
            hist_out[o] = hist_out.get(o, 0) + 1
        b = min(st["events"] // 25 * 25, 200)
        hist_len[b] = hist_len.get(b, 0) + 1
        hist_f[min(st["faults_fired"], 6)] = hist_f.get(min(st["faults_fired"], 6), 0) + 1
        n_conc += st["concurrent"] >= 2
        n_multi += len(case["incs"]) >= 2
        meta = {"kind": "trace", "case": case}
        if a.startswith("rejected"):
            _rej, idx, msg = a.split(" ", 2)
            if msg.startswith("env:"):
                raise HarnessError(f"simulator and Env model disagree: {msg} at event {idx} "
                                   f"({r['events'][max(0, int(idx) - 6):int(idx) + 1]}) case {json.dumps(case)[:600]}")
            cand.append((k, slug(msg), f"history rejected at event {idx} ({r['events'][int(idx)]}): {msg.replace('_', ' ')}",
                         dict(meta, rejected_at=int(idx), window=r["events"][max(0, int(idx) - 12):int(idx) + 1])))
        else:
            mf, sf = C16.fields(a), C16.fields(r["sim"])
            diff = [kk for kk in sf if mf.get(kk) != sf[kk]]
            if diff and not r["hang"]:
                raise HarnessError(f"final state of the Env model differs from the simulator in {diff}: model {a} sim {r['sim']} "
                                   f"case {json.dumps(case)[:600]}")
        if r["holds"]:
            cand.append((k, r["holds"][0], r["holds"][1], meta))
        if r["live"]:
            cand.append((k, r["live"][0], r["live"][1], meta))
    ctx.coverage["traces_validated_against_impl"] = len(trace_cases)
    ctx.coverage["trace_outcomes"] = hist_out
    ctx.coverage["trace_events_histogram"] = {str(k): v for k, v in sorted(hist_len.items())}
    ctx.coverage["faults_fired_per_trace"] = {str(k): v for k, v in sorted(hist_f.items())}
    ctx.coverage["traces_with_concurrent_sends"] = n_conc
    ctx.coverage["traces_with_several_incarnations"] = n_multi
    # Lean orderOk on the request log of single-incarnation runs
    single = [k for k, c in enumerate(trace_cases) if len(c["incs"]) == 1]
    if single:
        orders = drv(["c16 order " + (";".join(C16.expand_reqs(tres[k]["stats"]["reqs"])) if tres[k]["stats"]["reqs"] else "-")
                      for k in single])
        for k, o in zip(single, orders):
            if o != "order-ok":
                cand.append((k, "c07:protocol-order", "the request log violates the transactional protocol order (Lean orderOk): "
                             + ";".join(tres[k]["stats"]["reqs"])[:300], {"kind": "trace", "case": trace_cases[k]}))
    for k in (0, len(trace_cases) // 2, len(trace_cases) - 1):
        if 0 <= k < len(trace_cases):
            ctx.sample({"case": {kk: trace_cases[k][kk] for kk in ("nodes", "faults", "mixed")},
                        "events": ",".join(tres[k]["events"])[:500], "acceptor": acc[k][:300],
                        "outcomes": tres[k]["stats"]["outcomes"]})
    seen = set()
    cand.sort(key=lambda c: (len(json.dumps(c[3])), c[0]))
    for k, sig, text, meta in cand:
        if sig in seen:
            continue
        seen.add(sig)
        ctx.violation(sig, text, {"cases": [meta], "observed_events": ",".join(tres[k]["events"])[:4000],
                                  "outcomes": tres[k]["stats"]["outcomes"], "errors": tres[k]["stats"]["errors"]})
    if cand:
        ctx.broken.append({"kind": "trace-validation", "rejected_or_failed": len(cand)})

    # ------------------------------------------------------------------ A: sequential programs vs the automaton
    lines = [C16.model_line(s, f) for s, f, _w in api_cases]
    model = drv(lines) if lines else []
    mism = []
    hist_res = {}
    for i, ((s, f, w), m, (txt, obs)) in enumerate(zip(api_cases, model, ares)):
        if txt.startswith("harness-exception"):
            raise HarnessError(txt + " on " + lines[i])
        ctx.count(("api", s, f), nontrivial=("reqs=-" not in m))
        for r in C16.fields(txt).get("res", "-").split(","):
            hist_res[r] = hist_res.get(r, 0) + 1
        if C16.normalise(m, C16.strip_k(s, txt)) != m:
            mism.append(i)
    ctx.coverage["sequential_programs"] = len(api_cases)
    ctx.coverage["sequential_result_distribution"] = hist_res
    ctx.coverage["rule"] = (
        "B: seeded concurrent workloads (1..3 incarnations x 1..4 transactions x 0..5 concurrent sends over 1..3 "
        "partitions, offsets, commit/abort/context manager; faults: retriable codes, dropped connections before/after "
        "apply, lost replies (request timeout), transaction coordinator moved, partition leader moved, at "
        "InitProducerId/AddPartitionsToTxn/AddOffsetsToTxn/TxnOffsetCommit/EndTxn/Produce/FindCoordinator; every second "
        "workload also authorization errors, non-retriable Produce errors and zombies); send() tasks start staggered "
        "(0..0.6 s after begin), coordinator and partition leaders answer late (reply delays 0.05..1.5 s, single "
        "requests or a whole run), transactions are ended without waiting for the send futures in 60 % of the cases; "
        "plus 150 exact schedules: the second send() swept across the flight of the first AddPartitionsToTxn (slow "
        "reply / CONCURRENT_TRANSACTIONS / LOAD_IN_PROGRESS back-off / lost reply), and one batch failing for good "
        "while a batch on another leader is unacknowledged when the transaction is ended; the client side of the "
        "connections is observed at AIOKafkaClient.send (Produce handed over, AddPartitionsToTxn acknowledged); "
        "35 % of the transactions use the batch API: create_batch() before begin / while the previous transaction is "
        "being ended / inside the transaction, send_batch() inside it (the transactional flag of every appended batch "
        "is an acceptor event); send_offsets maps have 1..3 partitions over two topics, abortable errors at "
        "TxnOffsetCommit / AddOffsetsToTxn / the group-coordinator lookup (+ 72 exact schedules for both); the "
        "sequential programs have the letters k (create_batch) and t0/t1 (send_batch); 20 % of the transactions are "
        "ended at a fixed time while send()/send_batch() calls may still be blocked inside the producer (small "
        "max_batch_size, send_batch behind an undrained batch): a call that raised must never have its record written, "
        "an appended record that no accepted send produced is refused by the acceptor; slow metadata refreshes; exact "
        "schedules for both (commit/abort racing blocked calls; a re-enqueued batch queued when an authorization error "
        "arrives, then abort, then a new transaction must deliver); in single-incarnation runs without poisoning faults "
        "every transaction during which no fault fired must end as asked with all sends acknowledged; the broker "
        "hosting the transaction coordinator goes down (connects refused) while the role and its partitions move to "
        "a live broker - 28 exact schedules (at each transactional request type and between transactions) and a "
        "random fault kind; "
        "non-trivial = >= 1 transaction and >= 10 events. "
        "A: seeded sequential programs of 3..12 calls incl. kill-and-restart with at most one fault, compared with the "
        "API automaton; non-trivial = sends a transactional request. distinct by case text")
    if mism:
        mism.sort(key=lambda i: (len(api_cases[i][0]), i))
        orders = drv(["c16 order " + (";".join(C16.expand_reqs(ares[i][1]["reqs"])) if ares[i][1]["reqs"] else "-")
                      for i in mism[:2000]])
        sigs = set()
        for i, o in zip(mism[:2000], orders):
            s, f, w = api_cases[i]
            txt, obs = ares[i]
            meta = {"kind": "api", "calls": list(s), "fault": list(f) if f else None, "fault_as": w}
            if txt.startswith("hang:"):
                sig, why = "c07:hang", f"the producer hangs: {txt[:200]}"
            else:
                r = C16.holds(s, obs, o == "order-ok")
                if not r:
                    continue
                sig, why = r[0].replace("c16:", "c07:"), r[1]
            if sig in sigs:
                continue
            sigs.add(sig)
            ctx.violation(sig, f"{why}: calls {','.join(s)} fault {C16.fault_tok(f)} ({w})",
                          {"cases": [meta], "observed": txt, "required": model[i]})
        i = mism[0]
        s, f, w = api_cases[i]
        ctx.broken.append({"kind": "correspondence", "tie": "T-trace c07/A (transactional producer vs AkVerif.Txn.step)",
                           "mismatches": len(mism), "first": {"case": lines[i], "fault_as": w,
                                                              "impl": ares[i][0][:600], "model": model[i][:600]}})
        if not ctx.violations:
            ctx.violation("c07:api-outcome-differs",
                          f"the producer's observable behaviour differs from the required one: calls {','.join(s)} "
                          f"fault {C16.fault_tok(f)} ({w}): impl {ares[i][0][:300]} required {model[i][:300]}",
                          {"cases": [{"kind": "api", "calls": list(s), "fault": list(f) if f else None, "fault_as": w}],
                           "observed": ares[i][0], "required": model[i]})
