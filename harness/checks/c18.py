"""C18 — SCRAM login proves the password and authenticates the server.

Proof: Props/C18.lean about the model `AkVerif.Scram` (Model/Scram.lean) of
`aiokafka.conn.ScramAuthenticator` over abstract crypto (H, HMAC, Hi, base64, utf-8 uninterpreted).

Tie (T-diff): the Lean driver runs the model in the free term algebra of the crypto signature and
prints the client messages with symbolic terms (e.g. the proof as `X(M(I(..);U(..));M(H(..);U(..)))`);
this harness evaluates those terms with hashlib / hmac / base64 and compares BYTES with what the
real ScramAuthenticator (driven through its generator via `_step`, nonce injected) sent, plus the
abort / complete decision after each of the two server messages.  The server side is an independent
RFC 5802 server written here (strict ABNF parsing, own Hi loop), honest and tampering with every
single field of its two messages.

Search (S): on every case the property itself is evaluated on the implementation's observations —
the strict server must accept the client's messages and proof on honest runs and the client must
complete; and the Lean statement `Scram.holds` (nonce must extend, completion only on the
password-derived signature computed here independently) is evaluated by the driver.
"""
import base64
import binascii
import functools
import hashlib
import hmac as hmac_mod
import importlib
import re
import sys
import uuid

from vlib import HarnessError

HASHES = {"SCRAM-SHA-256": "sha256", "SCRAM-SHA-512": "sha512"}
GS2 = b"n,,"
PRINTABLE = "".join(chr(c) for c in range(0x21, 0x7F) if c != 0x2C)


def hx(b: bytes) -> str:
    return b.hex() if b else "-"


def hxs(s: str) -> str:
    return hx(s.encode("utf-8"))


# ------------------------------------------------------------------ crypto used by harness
@functools.lru_cache(maxsize=200000)
def Hi(hname: str, pw: bytes, salt: bytes, i: int) -> bytes:
    """RFC 5802 Hi(); written out as the HMAC loop for small counts, pbkdf2_hmac otherwise"""
    if i <= 300:
        u = hmac_mod.new(pw, salt + b"\x00\x00\x00\x01", hname).digest()
        r = int.from_bytes(u, "big")
        for _ in range(i - 1):
            u = hmac_mod.new(pw, u, hname).digest()
            r ^= int.from_bytes(u, "big")
        return r.to_bytes(len(u), "big")
    return hashlib.pbkdf2_hmac(hname, pw, salt, i)


def HMAC(hname, k, m):
    return hmac_mod.new(k, m, hname).digest()


def Hh(hname, x):
    return hashlib.new(hname, x).digest()


# ------------------------------------------------------------------ evaluator of model terms
class TermEval:
    """the homomorphism from the driver's term algebra to hashlib/hmac/base64"""

    def __init__(self, hname):
        self.h = hname

    def ev(self, s: str) -> bytes:
        v, pos = self._term(s, 0)
        if pos != len(s):
            raise HarnessError(f"trailing text in model term: {s[pos:pos + 40]}")
        return v

    def _hex(self, s, pos, stop):
        j = pos
        while s[j] not in stop:
            j += 1
        t = s[pos:j]
        return (b"" if t == "-" else bytes.fromhex(t)), j

    def _term(self, s, pos):
        tag = s[pos]
        if s[pos + 1] != "(":
            raise HarnessError(f"bad model term at {pos}: {s[pos:pos + 40]}")
        pos += 2
        if tag == "U":
            b, pos = self._hex(s, pos, ")")
            return b, pos + 1
        if tag == "D":
            b, pos = self._hex(s, pos, ")")
            try:
                return base64.b64decode(b), pos + 1
            except binascii.Error:
                raise HarnessError("model decoded a string that base64.b64decode rejects (oracle list incomplete)")
        if tag == "H":
            a, pos = self._term(s, pos)
            return Hh(self.h, a), pos + 1
        if tag == "M":
            k, pos = self._term(s, pos)
            m, pos = self._term(s, pos + 1)
            return HMAC(self.h, k, m), pos + 1
        if tag == "X":
            a, pos = self._term(s, pos)
            b, pos = self._term(s, pos + 1)
            if len(a) != len(b):
                raise HarnessError("XOR of byte strings of different length in a model term")
            return bytes(x ^ y for x, y in zip(a, b)), pos + 1
        if tag == "I":
            p, pos = self._term(s, pos)
            sl, pos = self._term(s, pos + 1)
            j = s.index(")", pos + 1)
            return Hi(self.h, p, sl, int(s[pos + 1:j])), j + 1
        raise HarnessError(f"unknown model term tag {tag!r}")

    def message(self, text: str) -> bytes:
        """a model message: text with b64enc placeholders \\x01<term>\\x02"""
        out = []
        pos = 0
        while True:
            a = text.find("\x01", pos)
            if a < 0:
                out.append(text[pos:].encode("utf-8"))
                break
            b = text.index("\x02", a)
            out.append(text[pos:a].encode("utf-8"))
            out.append(base64.b64encode(self.ev(text[a + 1:b])))
            pos = b + 1
        return b"".join(out)


# ------------------------------------------------------------------ independent RFC 5802 server
RE_CLIENT_FIRST = re.compile(r"n,,n=((?:[^,=\x00]|=2C|=3D)+),r=([\x21-\x2b\x2d-\x7e]+)", re.S)
RE_CLIENT_FINAL = re.compile(
    r"c=([A-Za-z0-9+/]+={0,2}),r=([\x21-\x2b\x2d-\x7e]+),p=((?:[A-Za-z0-9+/]{4})*(?:[A-Za-z0-9+/]{2}==|[A-Za-z0-9+/]{3}=)?)")


class RfcServer:
    """RFC 5802 server side.  Holds salt, iteration count, StoredKey and ServerKey of the user
    (never the password itself after construction)."""

    def __init__(self, mech, user, pw: bytes, salt: bytes, iters: int, ext: str, strict: bool):
        self.h = HASHES[mech]
        self.user, self.salt, self.iters, self.ext, self.strict = user, salt, iters, ext, strict
        salted = Hi(self.h, pw, salt, iters)
        self.stored_key = Hh(self.h, HMAC(self.h, salted, b"Client Key"))
        self.server_key = HMAC(self.h, salted, b"Server Key")
        self.problems = []
        self.bare = None
        self.first_sent = None
        self.accepted = False
        self.delivered_honest = True   # set by the driver: was server-first delivered untampered?

    def first(self, client_first: bytes, cnonce_expected: str) -> str:
        try:
            text = client_first.decode("utf-8")
        except UnicodeDecodeError:
            self.problems.append("client-first-not-utf8")
            text = client_first.decode("utf-8", "replace")
        if self.strict:
            m = RE_CLIENT_FIRST.fullmatch(text)
            if not m:
                self.problems.append("client-first-not-rfc5802")
            else:
                name = re.sub("=(2C|3D)", lambda g: "," if g.group(1) == "2C" else "=", m.group(1))
                if name != self.user:
                    self.problems.append("username-not-recovered")
                if m.group(2) != cnonce_expected:
                    self.problems.append("client-nonce-not-recovered")
        self.bare = text[3:] if text.startswith("n,,") else None
        self.nonce = cnonce_expected + self.ext
        self.first_sent = (f"r={self.nonce},s={base64.b64encode(self.salt).decode()},i={self.iters}")
        return self.first_sent

    def auth_message(self, client_final_text):
        if self.bare is None or ",p=" not in client_final_text:
            return None
        return (self.bare + "," + self.first_sent + "," + client_final_text.rsplit(",p=", 1)[0]).encode("utf-8")

    def final(self, client_final: bytes) -> str:
        try:
            text = client_final.decode("utf-8")
        except UnicodeDecodeError:
            self.problems.append("client-final-not-utf8")
            return "e=other-error"
        m = RE_CLIENT_FINAL.fullmatch(text)
        if not m:
            if self.strict and self.delivered_honest:
                self.problems.append("client-final-not-rfc5802")
            return "e=other-error"
        if base64.b64decode(m.group(1), validate=True) != GS2:
            self.problems.append("channel-binding-not-gs2-header")
            return "e=channel-bindings-dont-match"
        if m.group(2) != self.nonce:
            return "e=other-error"
        proof = base64.b64decode(m.group(3), validate=True)
        am = self.auth_message(text)
        if am is None:
            return "e=other-error"
        client_sig = HMAC(self.h, self.stored_key, am)
        if len(proof) != len(client_sig):
            return "e=invalid-proof"
        client_key = bytes(a ^ b for a, b in zip(proof, client_sig))
        if not hmac_mod.compare_digest(Hh(self.h, client_key), self.stored_key):
            return "e=invalid-proof"
        self.accepted = True
        return "v=" + base64.b64encode(HMAC(self.h, self.server_key, am)).decode()

    def forced_signature(self, client_final: bytes):
        """ServerSignature over the server's own transcript, whatever the proof was"""
        try:
            am = self.auth_message(client_final.decode("utf-8"))
        except UnicodeDecodeError:
            am = None
        if am is None:
            return None
        return HMAC(self.h, self.server_key, am)


def lenient_attrs(text):
    """own reading of a message as attribute list; last binding wins; None if a piece has no '='"""
    d = {}
    for piece in text.split(","):
        k, eq, v = piece.partition("=")
        if not eq:
            return None
        d[k] = v
    return d


def password_signature(hname, pw: bytes, client_first: bytes, sf_delivered: bytes, client_final: bytes):
    """the signature a server that knows the password would send for the messages AS DELIVERED to the
    client: HMAC(ServerKey(pw, salt, i), client-first-bare "," server-first "," client-final-without-proof).
    None when the delivered server-first does not determine salt / iteration count."""
    try:
        sf = sf_delivered.decode("utf-8")
        cf = client_first.decode("utf-8")
        cl = client_final.decode("utf-8")
        d = lenient_attrs(sf)
        if d is None or "s" not in d or "i" not in d or not cf.startswith("n,,") or ",p=" not in cl:
            return None
        salt = base64.b64decode(d["s"].encode("utf-8"))
        i = int(d["i"])
        if not (1 <= i < 2**31):
            return None
    except (UnicodeDecodeError, binascii.Error, ValueError):
        return None
    am = (cf[3:] + "," + sf + "," + cl.rsplit(",p=", 1)[0]).encode("utf-8")
    return HMAC(hname, HMAC(hname, Hi(hname, pw, salt, i), b"Server Key"), am)


# ------------------------------------------------------------------ tampering
def tamper_first(honest: str, cnonce: str, ext: str, salt: bytes, iters: int, t):
    """single-field tampering of server-first; returns bytes as delivered"""
    kind = t[0]
    s64 = base64.b64encode(salt).decode()

    def build(r=None, s=None, i=None):
        return (f"r={cnonce + ext if r is None else r},s={s64 if s is None else s},"
                f"i={iters if i is None else i}").encode("utf-8")
    if kind == "none":
        return honest.encode("utf-8")
    if kind == "raw":
        return bytes.fromhex(t[1])
    if kind == "nonce":
        v, k = t[1], t[2]
        n = cnonce
        if v == "flip" and n:
            j = k % len(n)
            c = "A" if n[j] != "A" else "B"
            return build(r=n[:j] + c + n[j + 1:] + ext)
        if v == "dropfirst":
            return build(r=n[1:] + ext)
        if v == "truncate":
            return build(r=n[:max(0, len(n) - 1 - k % 3)])
        if v == "prepend":
            return build(r="x" + n + ext)
        if v == "onlyext":
            return build(r=ext)
        if v == "empty":
            return build(r="")
        if v == "equal":
            return build(r=n)
        if v == "case" and n:
            j = k % len(n)
            return build(r=n[:j] + n[j].swapcase() + n[j + 1:] + ext)
        if v == "insert" and n:
            j = k % len(n)
            return build(r=n[:j] + "z" + n[j:] + ext)
        return build(r="y" + ext)
    if kind == "salt":
        v, k = t[1], t[2]
        if v == "flipbit":
            b = bytearray(salt)
            b[(k // 8) % len(b)] ^= 1 << (k % 8)
            return build(s=base64.b64encode(bytes(b)).decode())
        if v == "append":
            return build(s=base64.b64encode(salt + bytes([k % 256])).decode())
        if v == "drop":
            return build(s=base64.b64encode(salt[:-1]).decode())
        if v == "badpad":
            return build(s=s64.rstrip("=")[:-1] if len(s64.rstrip("=")) % 4 != 2 else s64.rstrip("=") + "A=")
        if v == "one":
            return build(s="A")
        if v == "empty":
            return build(s="")
        if v == "junk":
            j = k % (len(s64) + 1)
            return build(s=s64[:j] + "!" + s64[j:])
        return build(s="====")
    if kind == "iter":
        return build(i=t[1])
    if kind == "struct":
        v = t[1]
        r, s, i = f"r={cnonce + ext}", f"s={s64}", f"i={iters}"
        table = {
            "missing-r": f"{s},{i}", "missing-s": f"{r},{i}", "missing-i": f"{r},{s}",
            "dup-r-bad-last": f"{r},{s},{i},r=evil{ext}", "dup-r-good-last": f"r=evil{ext},{s},{i},{r}",
            "dup-i-last": f"{r},{s},{i},i={iters + 1}", "dup-s-last": f"{r},{s},{i},s=AAAA",
            "extra-m": f"m=ext,{r},{s},{i}", "extra-tail": f"{r},{s},{i},x=1=2",
            "reorder": f"{i},{s},{r}", "nopair": f"{r},{s},{i},oops", "nopair-first": f"oops,{r},{s},{i}",
            "empty": "", "error": "e=unknown-user", "trailing-comma": f"{r},{s},{i},",
            "leading-comma": f",{r},{s},{i}", "upper-keys": f"R={cnonce + ext},S={s64},I={iters}",
            "space-keys": f" r={cnonce + ext},{s},{i}", "empty-key": f"=x,{r},{s},{i}",
        }
        return table[v].encode("utf-8")
    raise HarnessError(f"unknown tamper {t}")


def tamper_final(natural: str, forced, clientview, t):
    """server-final as delivered.  natural: the honest server's reply; forced: its signature over its
    own transcript; clientview: the signature of a password-knowing server for the delivered messages"""
    kind = t[0]
    base = clientview if clientview is not None else forced

    def v(sig):
        return b"v=" + base64.b64encode(sig)
    if kind == "none":
        return natural.encode("utf-8")
    if kind == "raw":
        return bytes.fromhex(t[1])
    if kind == "forced":
        return v(forced) if forced is not None else natural.encode("utf-8")
    if base is None:
        return natural.encode("utf-8")
    if kind == "clientview":
        return v(base)
    if kind == "sigbit":
        b = bytearray(base)
        b[(t[1] // 8) % len(b)] ^= 1 << (t[1] % 8)
        return v(bytes(b))
    if kind == "sigtrunc":
        return v(base[:len(base) - 1 - t[1] % (len(base))])
    if kind == "sigext":
        return v(base + bytes([t[1] % 256]))
    if kind == "sigzero":
        return v(bytes(len(base)))
    if kind == "sigrot":
        return v(base[1:] + base[:1])
    if kind == "vjunk":
        s = base64.b64encode(base).decode()
        j = t[1] % (len(s) + 1)
        return ("v=" + s[:j] + "!" + s[j:]).encode("utf-8")
    if kind == "vbadpad":
        return ("v=" + base64.b64encode(base).decode().rstrip("=") + "A").encode("utf-8")
    if kind == "struct2":
        good = "v=" + base64.b64encode(base).decode()
        bad = "v=" + base64.b64encode(bytes(len(base))).decode()
        table = {
            "error": "e=invalid-proof", "missing-v": "x=1", "nopair": good + ",oops", "empty": "",
            "dup-v-bad-last": good + "," + bad, "dup-v-good-last": bad + "," + good,
            "extra": "m=1," + good + ",z=2", "upper": "V" + good[1:], "empty-v": "v=",
        }
        return table[t[1]].encode("utf-8")
    raise HarnessError(f"unknown tamper {t}")


# ------------------------------------------------------------------ generation
NAME_ATOMS = ["a", "b", "user", "alice", "Z", "0", ",", "=", ",", "=", "=2C", "=3D", "2C", "3D", "=2", "=3",
              ",,", "==", "=,", ",=", " ", "\u00e9", "\u00df", "\u00fc", "\u4e2d", "\u6587", "\U0001f600",
              "\ufb01", "\u2168", "\u00a0", "e\u0301", "\u00ad", "n=", "r=", ",r=x", "p=", "-", "_", "\\", "\"",
              "%", "+", "/", "\t"]
PW_ATOMS = ["p", "w", "secret", "p\u00e4ssw\u00f6rd", "\u5bc6\u7801", "\U0001f600", ",", "=", " ", "\u00a0",
            "\ufb01", "\u2168", "e\u0301", "\x7f", "0", "A", "\\", "\n", "\u03a9"]
ITER_TEXT = ["0", "-1", "-4096", "", " ", "abc", "4096x", "0x10", "1e3", "1.0", "+7", " 9 ", "\t12\n", "1_0", "1__0",
             "_1", "1_", "007", "+", "-", "--5", "+ 5", "2147483647x", "2147483648", "4294967296",
             "99999999999999999999", "1 2", "-0", "+0", "00", "5\x0b", "5\x0c", "\r5", "5\x1c", "5\x00", "1,2"]
T1_STRUCT = ["missing-r", "missing-s", "missing-i", "dup-r-bad-last", "dup-r-good-last", "dup-i-last", "dup-s-last",
             "extra-m", "extra-tail", "reorder", "nopair", "nopair-first", "empty", "error", "trailing-comma",
             "leading-comma", "upper-keys", "space-keys", "empty-key"]
T1_NONCE = ["flip", "dropfirst", "truncate", "prepend", "onlyext", "empty", "equal", "case", "insert"]
T1_SALT = ["flipbit", "append", "drop", "badpad", "one", "empty", "junk", "pads"]
T2_STRUCT = ["error", "missing-v", "nopair", "empty", "dup-v-bad-last", "dup-v-good-last", "extra", "upper", "empty-v"]
RAW = ["ff", "723d61ff", "c3", "763dc328", "e28228", "f0288cbc"]


def gen_name(rng, atoms, lo, hi):
    return "".join(rng.choice(atoms) for _ in range(rng.randrange(lo, hi)))


def gen_nonce(rng, rfc):
    if rfc:
        if rng.random() < 0.6:
            return uuid.UUID(int=rng.getrandbits(128)).hex
        return "".join(rng.choice(PRINTABLE) for _ in range(rng.randrange(1, 40)))
    alpha = PRINTABLE + ",,== é中\t"
    return "".join(rng.choice(alpha) for _ in range(rng.randrange(0, 24)))


def gen_iters(rng, big_share):
    c = rng.random()
    if c < big_share:
        return rng.choice([4096, 8192, 10000, 20000, rng.randrange(1000, 20001)])
    if c < 0.5:
        return rng.randrange(1, 9)
    return rng.randrange(1, 301) if rng.random() < 0.8 else rng.randrange(301, 700)


def gen_case(rng, idx, big_share):
    mech = rng.choice(sorted(HASHES))
    c = rng.random()
    rfc = c < 0.8                     # RFC-valid inputs: the strict server takes part
    if rfc:
        user = gen_name(rng, [a for a in NAME_ATOMS], 1, 6)
        cnonce = gen_nonce(rng, True)
        ext = "".join(rng.choice(PRINTABLE) for _ in range(rng.randrange(1, 24)))
    else:
        user = gen_name(rng, NAME_ATOMS + ["\x00", ""], 0, 5)
        cnonce = gen_nonce(rng, False)
        ext = gen_nonce(rng, False) if rng.random() < 0.7 else ""
    pw = gen_name(rng, PW_ATOMS, 0 if not rfc else 1, 6)
    salt = rng.randbytes(rng.choice([1, 2, 3, 16, 32, 64, rng.randrange(1, 65)]))
    iters = gen_iters(rng, big_share)
    # tampering: 40 % honest, else exactly one field of one message
    t1, t2 = ["none"], ["none"]
    c = rng.random()
    if c < 0.38:
        pass
    elif c < 0.50:
        t1 = ["nonce", rng.choice(T1_NONCE), rng.randrange(0, 64)]
        t2 = [rng.choice(["none", "forced", "clientview"])]
    elif c < 0.60:
        t1 = ["salt", rng.choice(T1_SALT), rng.randrange(0, 512)]
        t2 = [rng.choice(["none", "forced", "clientview", "clientview"])]
    elif c < 0.70:
        t1 = ["iter", rng.choice(ITER_TEXT + [str(iters + 1), str(max(1, iters - 1)), str(iters) + "0"])]
        if t1[1].isdigit() and int(t1[1]) > 30000:
            t1 = ["iter", rng.choice(["2147483648", "4294967296", "99999999999999999999"])]
        t2 = [rng.choice(["none", "forced", "clientview", "clientview"])]
    elif c < 0.78:
        t1 = ["struct", rng.choice(T1_STRUCT)]
        t2 = [rng.choice(["none", "forced", "clientview", "clientview"])]
    elif c < 0.80:
        t1 = ["raw", rng.choice(RAW)]
    elif c < 0.90:
        k = rng.choice(["sigbit", "sigbit", "sigbit", "sigtrunc", "sigext", "sigzero", "sigrot", "vjunk", "vbadpad"])
        t2 = [k, rng.randrange(0, 512)]
    elif c < 0.97:
        t2 = ["struct2", rng.choice(T2_STRUCT)]
    elif c < 0.98:
        t2 = ["raw", rng.choice(RAW)]
    else:
        t2 = [rng.choice(["forced", "clientview"])]
    return {"mech": mech, "user": user, "pw": pw, "cnonce": cnonce, "ext": ext, "salt": salt.hex(),
            "iters": iters, "t1": t1, "t2": t2, "rfc": rfc, "inject": rng.choice(["attr", "attr", "uuid"])}


def systematic_cases():
    """every single-field tampering kind at least once, on a fixed small login, both hashes"""
    out = []
    for mech in sorted(HASHES):
        base = {"mech": mech, "user": "us,er=né", "pw": "pässword,=", "cnonce": "0123456789abcdef0123456789abcdef",
                "ext": "SrvNonce+/x", "salt": "00ff10203040", "iters": 7, "rfc": True, "inject": "attr"}
        out.append(dict(base, t1=["none"], t2=["none"]))
        out.append(dict(base, t1=["none"], t2=["none"], inject="uuid"))
        for v in T1_NONCE:
            for k in (0, 31):
                for t2 in ("none", "clientview"):
                    out.append(dict(base, t1=["nonce", v, k], t2=[t2]))
        for v in T1_SALT:
            for t2 in ("none", "forced", "clientview"):
                out.append(dict(base, t1=["salt", v, 5], t2=[t2]))
        for v in ITER_TEXT + ["8", "6", "70"]:
            for t2 in ("none", "clientview"):
                out.append(dict(base, t1=["iter", v], t2=[t2]))
        for v in T1_STRUCT:
            for t2 in ("none", "clientview"):
                out.append(dict(base, t1=["struct", v], t2=[t2]))
        for r in RAW:
            out.append(dict(base, t1=["raw", r], t2=["none"]))
            out.append(dict(base, t1=["none"], t2=["raw", r]))
        nbits = 8 * hashlib.new(HASHES[mech]).digest_size
        for bit in range(nbits):
            out.append(dict(base, t1=["none"], t2=["sigbit", bit]))
        for k in ("sigtrunc", "sigext", "sigzero", "sigrot", "vjunk", "vbadpad"):
            for a in (0, 3):
                out.append(dict(base, t1=["none"], t2=[k, a]))
        for v in T2_STRUCT:
            out.append(dict(base, t1=["none"], t2=["struct2", v]))
        out.append(dict(base, t1=["none"], t2=["forced"]))
        out.append(dict(base, t1=["none"], t2=["clientview"]))
        # salts of every length 1..64, honest
        for n in range(1, 65):
            out.append(dict(base, salt=bytes(range(n)).hex(), t1=["none"], t2=["none"], iters=1 + n % 5))
        # user names: each special atom alone and doubled
        for a in NAME_ATOMS:
            for u in (a, a + a, "x" + a + "y"):
                out.append(dict(base, user=u, t1=["none"], t2=["none"], iters=2))
        # inputs outside RFC 5802 (tie only)
        for u, n in (("", "abc"), ("\x00", "abc"), ("u", ""), ("u", "a,b"), ("u", "a b"), ("u", "né")):
            out.append(dict(base, user=u, cnonce=n, rfc=False, t1=["none"], t2=["none"]))
    return out


# ------------------------------------------------------------------ running one case
class Impl:
    def __init__(self, repo):
        sys.path.insert(0, str(repo))
        for m in [m for m in sys.modules if m.startswith("aiokafka")]:
            del sys.modules[m]
        self.conn = importlib.import_module("aiokafka.conn")
        if not str(self.conn.__file__).startswith(str(repo)):
            raise HarnessError(f"aiokafka imported from {self.conn.__file__}, not {repo}")
        self.cls = self.conn.ScramAuthenticator

    def make(self, case):
        kw = dict(loop=None, sasl_plain_password=case["pw"], sasl_plain_username=case["user"],
                  sasl_mechanism=case["mech"])
        if case.get("inject") == "uuid" and re.fullmatch("[0-9a-f]{32}", case["cnonce"]):
            real = self.conn.uuid

            class FakeUuid:
                @staticmethod
                def uuid4():
                    return real.UUID(hex=case["cnonce"])

                def __getattr__(self, n):
                    return getattr(real, n)
            self.conn.uuid = FakeUuid()
            try:
                a = self.cls(**kw)
            finally:
                self.conn.uuid = real
            return a, "uuid"
        a = self.cls(**kw)
        a._nonce = case["cnonce"]
        return a, "attr"

    @staticmethod
    def step(a, payload):
        """one resumption of the authenticator's generator (BaseSaslAuthenticator._step):
        ('msg', bytes) | ('done',) | ('raise', type name, text)"""
        try:
            r = a._step(payload)
        except Exception as e:  # noqa
            return ("raise", type(e).__name__, str(e)[:80])
        if r is None:
            return ("done",)
        if not (isinstance(r, tuple) and len(r) == 2 and isinstance(r[0], (bytes, bytearray)) and r[1] is True):
            return ("raise", "BadStepResult", repr(r)[:80])
        return ("msg", bytes(r[0]))


def run_case(impl, case):
    """drive the real authenticator against the independent server; returns the observation"""
    hname = HASHES[case["mech"]]
    pwb = case["pw"].encode("utf-8")
    salt = bytes.fromhex(case["salt"])
    try:
        a, how = impl.make(case)
    except Exception as e:  # noqa
        return {"how": "-", "problems": [], "first": ("raise", type(e).__name__, "constructor: " + str(e)[:80])}
    ob = {"how": how, "problems": []}
    r1 = impl.step(a, None)
    ob["first"] = r1
    if r1[0] != "msg":
        return ob
    srv = RfcServer(case["mech"], case["user"], pwb, salt, case["iters"], case["ext"], strict=case["rfc"])
    honest_sf = srv.first(r1[1], case["cnonce"])
    sf = tamper_first(honest_sf, case["cnonce"], case["ext"], salt, case["iters"], case["t1"])
    ob["sf"] = sf
    srv.delivered_honest = sf == honest_sf.encode("utf-8")
    r2 = impl.step(a, sf)
    ob["second"] = r2
    ob["problems"] = srv.problems
    if r2[0] != "msg":
        return ob
    ob["attrs"] = {k: getattr(a, k, None) for k in ("_auth_message", "_server_signature", "_client_proof", "_nonce")}
    natural = srv.final(r2[1])
    ob["srv_accepts"] = srv.accepted
    forced = srv.forced_signature(r2[1])
    cview = password_signature(hname, pwb, r1[1], sf, r2[1])
    sfin = tamper_final(natural, forced, cview, case["t2"])
    ob["sfin"] = sfin
    ob["cview"] = cview
    r3 = impl.step(a, sfin)
    ob["third"] = r3
    return ob


def bad_b64(*msgs):
    """the attribute values on which CPython's base64.b64decode raises (oracle for the model's
    abstract partial function b64dec)"""
    bad = []
    for m in msgs:
        try:
            t = m.decode("utf-8")
        except UnicodeDecodeError:
            continue
        for piece in t.split(","):
            v = piece.partition("=")[2]
            try:
                base64.b64decode(v.encode("utf-8"))
            except binascii.Error:
                if v and v not in bad:
                    bad.append(v)
    return bad


def model_line(case, ob):
    sf = ob.get("sf", b"")
    sfin = ob.get("sfin", b"")
    bad = bad_b64(sf, sfin)
    return ("c18 run " + " ".join([hxs(case["user"]), hxs(case["pw"]), hxs(case["cnonce"]), hx(sf), hx(sfin)])
            + " " + (",".join(hxs(b) for b in bad) if bad else "-"))


def compare(case, ob, out, ev):
    """model output line vs observation; returns list of (where, model, impl)"""
    diffs = []
    toks = out.split(" ")
    if len(toks) != 3:
        raise HarnessError(f"driver output not understood: {out[:200]}")
    first, mid, last = toks
    m_first = b"" if first == "-" else bytes.fromhex(first)
    r1 = ob["first"]
    if r1[0] != "msg" or r1[1] != m_first:
        diffs.append(("client-first", m_first.decode("utf-8", "replace"), repr(r1)[:200]))
        return diffs
    r2 = ob["second"]
    if mid.startswith("abort:"):
        if r2[0] != "raise":
            diffs.append(("after-server-first", mid, repr(r2)[:200]))
        return diffs
    _, fin_hex, auth_hex, sig_t, proof_t = mid.split(":")
    if r2[0] != "msg":
        diffs.append(("after-server-first", "continues with client-final", repr(r2)[:200]))
        return diffs
    m_final = ev.message(bytes.fromhex(fin_hex).decode("utf-8"))
    if r2[1] != m_final:
        diffs.append(("client-final", m_final.decode("utf-8", "replace"), r2[1].decode("utf-8", "replace")))
    at = ob.get("attrs", {})
    m_auth = (b"" if auth_hex == "-" else bytes.fromhex(auth_hex)).decode("utf-8")
    if at.get("_auth_message") is not None and at["_auth_message"] != m_auth:
        diffs.append(("auth-message", m_auth, str(at["_auth_message"])))
    if at.get("_server_signature") is not None and at["_server_signature"] != ev.ev(sig_t):
        diffs.append(("expected-server-signature", ev.ev(sig_t).hex(), bytes(at["_server_signature"]).hex()))
    if at.get("_client_proof") is not None and at["_client_proof"] != ev.ev(proof_t):
        diffs.append(("client-proof", ev.ev(proof_t).hex(), bytes(at["_client_proof"]).hex()))
    if diffs:
        return diffs
    r3 = ob["third"]
    if last.startswith("abort:"):
        want = "raise"
    else:
        _, got_t, exp_t = last.split(":")
        want = "done" if ev.ev(got_t) == ev.ev(exp_t) else "raise"
    if r3[0] != want:
        diffs.append(("after-server-final", f"{want} ({last[:40]})", repr(r3)[:200]))
    return diffs


def model_reason(out):
    toks = out.split(" ")
    if toks[1].startswith("abort:"):
        return "1:" + toks[1][6:]
    if toks[2].startswith("abort:"):
        return "2:" + toks[2][6:]
    return "2:compare"


REASON_EXC = {"badpair": {"ValueError"}, "missing-r": {"KeyError"}, "missing-s": {"KeyError"},
              "missing-i": {"KeyError"}, "missing-v": {"KeyError"}, "nonce": {"ValueError"}, "b64": {"Error"},
              "int": {"ValueError"}, "iter": {"ValueError", "OverflowError"}, "signature": {"ValueError"},
              "utf8": {"UnicodeDecodeError"}, "compare": {"ValueError"}}


def selftest(ctx, impl):
    """the tie must see known divergences: three mutated subclasses of the real authenticator
    (wrong escaping order, nonce check disabled, signature check disabled) on one case each"""
    real = impl.cls

    class BadEscape(real):
        def first_message(self):
            q = self._sasl_plain_username.replace(",", "=2C").replace("=", "=3D")
            bare = f"n={q},r={self._nonce}"
            self._auth_message += bare
            return "n,," + bare

    class NoNonceCheck(real):
        def process_server_first_message(self, sf):
            self._nonce = ""
            return super().process_server_first_message(sf)

    class NoSigCheck(real):
        def process_server_final_message(self, sfin):
            return None

    base = systematic_cases()[0]
    plan = [(BadEscape, dict(base), "client-first"),
            (NoNonceCheck, dict(base, t1=["nonce", "flip", 3], t2=["clientview"]), "after-server-first"),
            (NoSigCheck, dict(base, t2=["sigbit", 9]), "after-server-final")]
    seen = []
    for cls, case, where in plan:
        impl.cls = cls
        try:
            ob = run_case(impl, case)
        finally:
            impl.cls = real
        out = ctx.driver("akdriver", [model_line(case, ob)])[0]
        d = compare(case, ob, out, TermEval(HASHES[case["mech"]]))
        if not d or d[0][0] != where:
            raise HarnessError(f"tie self-test: divergence {cls.__name__} not seen at {where}: {d}")
        seen.append(cls.__name__)
    ctx.coverage["tie_selftest_divergences_seen"] = seen


def run(ctx):
    ctx.coverage["trusted_base"] = [
        "Lean 4.33.0 kernel; axioms propext, Classical.choice, Quot.sound only",
        "cryptography is abstract: H, HMAC, Hi (PBKDF2), base64, str.encode are uninterpreted functions; the laws "
        "used by the honest-exchange theorem are b64dec(b64enc x) = x, no ',' in base64 text, equal HMAC output "
        "lengths (XOR cancellation is PROVED for byte lists). Unforgeability of HMAC / one-wayness of H — i.e. that "
        "only a party knowing the password can produce the accepted signature — is outside the model",
        "Model/Scram.lean `Server` section is my transcription of the RFC 5802 server; Normalize (SASLprep) is the "
        "identity, as in Kafka's broker and Java client",
        "T-diff harness harness/checks/c18.py: term evaluator (hashlib/hmac/base64), the independent Python RFC 5802 "
        "server with strict ABNF regexes, Driver/ScramIO.lean; definedness of base64.b64decode on the s=/v= values "
        "is an oracle taken from CPython; the final byte comparison is done on the evaluated terms",
        "int() is modelled for ASCII text (sign, white space, single underscores); the tie keeps i= values ASCII "
        "and below 4300 digits",
    ]
    ctx.assumptions += [
        "client nonce contains no ',' (the real one is uuid4().hex; printable-without-comma and freshness are checked on every run)",
        "server messages are valid UTF-8 strings without lone surrogates (invalid UTF-8 aborts before the modelled code; sampled)",
        "the server derives its keys from the same UTF-8 bytes of the password (no SASLprep on either side)",
    ]
    proved = ctx.prove(drivers=["akdriver"])
    impl = Impl(ctx.repo)

    # the un-injected nonce: RFC 5802 `1*printable` (so: no ','), fresh per instance — the hypothesis
    # "no ',' in the client nonce" of the theorems
    nonces = [getattr(impl.cls(loop=None, sasl_plain_password="p", sasl_plain_username="u",
                               sasl_mechanism="SCRAM-SHA-256"), "_nonce", None) for _ in range(50)]
    if not all(isinstance(n, str) and re.fullmatch("[\\x21-\\x2b\\x2d-\\x7e]+", n) for n in nonces) or len(set(nonces)) != 50:
        ctx.violation("c18:client-nonce-shape", "the client's own nonce is not a fresh printable string without ','",
                      {"cases": [], "observed": nonces[:3]})
    ctx.coverage["own_nonce_example_length"] = len(nonces[0]) if isinstance(nonces[0], str) else None
    if base64.b64encode(GS2) != b"biws":
        raise HarnessError("base64('n,,') != 'biws'")

    if ctx.replay_cases is not None:
        cases = ctx.replay_cases
    else:
        rng = ctx.rng("cases")
        cases = systematic_cases()
        ctx.coverage["systematic_cases"] = len(cases)
        n = 100000 if ctx.thorough else 1500
        big = 0.06 if ctx.thorough else 0.012
        cases += [gen_case(rng, i, big) for i in range(n)]
    obs, lines = [], []
    for c in cases:
        ob = run_case(impl, c)
        obs.append(ob)
        lines.append(model_line(c, ob))
    outs = ctx.driver("akdriver", lines)

    hist, exc_hist, t_hist, reason_exc_disagree = {}, {}, {}, 0
    mism = []
    hold_lines, hold_idx = [], []
    for idx, (c, ob, out) in enumerate(zip(cases, obs, outs)):
        if out == "bad-op":
            raise HarnessError(f"driver rejected line: {lines[idx][:200]}")
        ev = TermEval(HASHES[c["mech"]])
        d = compare(c, ob, out, ev)
        if d:
            mism.append((idx, d))
        # outcome bookkeeping
        last = ob.get("third") or ob.get("second") or ob["first"]
        outcome = "completed" if last[0] == "done" else ("abort" if last[0] == "raise" else "stuck")
        reason = model_reason(out)
        if c["t1"][0] != "none":
            key = "first:" + c["t1"][0] + ("/" + str(c["t1"][1]) if c["t1"][0] in ("nonce", "salt", "struct") else "")
        else:
            key = "final:" + c["t2"][0] + ("/" + str(c["t2"][1]) if c["t2"][0] == "struct2" else "")
        t_hist[key] = t_hist.get(key, 0) + 1
        hist[f"{outcome}@{reason}"] = hist.get(f"{outcome}@{reason}", 0) + 1
        if last[0] == "raise":
            exc_hist[last[1]] = exc_hist.get(last[1], 0) + 1
            if last[1] not in REASON_EXC.get(reason[2:], set()):
                reason_exc_disagree += 1
        ctx.count(lines[idx], nontrivial=not reason.startswith("1:") or reason in ("1:nonce", "1:iter"))
        # property on the observation
        for p in ob.get("problems", []):
            ctx.violation("c18:" + p, f"strict RFC 5802 server: {p} for user {c['user']!r}: client sent "
                          f"{ob['first'][1][:120]!r}" if ob["first"][0] == "msg" else p,
                          {"cases": [c], "observed": repr(ob["first"])[:300]})
        honest = c["rfc"] and c["t1"] == ["none"] and c["t2"] == ["none"]
        if honest:
            if ob.get("second", ("",))[0] != "msg":
                ctx.violation("c18:honest-login-aborted", f"client aborted on an honest server-first: {ob.get('second')}",
                              {"cases": [c], "observed": repr(ob.get("second"))[:300]})
            elif not ob.get("srv_accepts"):
                ctx.violation("c18:honest-server-rejects-proof",
                              f"RFC 5802 server holding StoredKey of the same password rejects the client proof "
                              f"(user {c['user']!r}): client-final {ob['second'][1][:160]!r}",
                              {"cases": [c], "observed": ob["second"][1].hex()})
            elif ob.get("third", ("",))[0] != "done":
                ctx.violation("c18:honest-login-aborted", f"client did not complete on the honest server-final: {ob.get('third')}",
                              {"cases": [c], "observed": repr(ob.get("third"))[:300]})
        if "sf" in ob and ob["first"][0] == "msg":
            try:
                ob["sf"].decode("utf-8")
            except UnicodeDecodeError:
                continue
            aborted1 = ob["second"][0] != "msg"
            completed = ob.get("third", ("",))[0] == "done"
            sigok = False
            if completed and ob.get("cview") is not None:
                d2 = lenient_attrs(ob["sfin"].decode("utf-8", "replace")) or {}
                try:
                    sigok = base64.b64decode(d2.get("v", "").encode("utf-8")) == ob["cview"]
                except binascii.Error:
                    sigok = False
            hold_lines.append(f"c18 holds {hxs(c['cnonce'])} {hx(ob['sf'])} {int(aborted1)} {int(completed)} {int(sigok)}")
            hold_idx.append((idx, aborted1, completed, sigok))
    hres = ctx.driver("akdriver", hold_lines) if hold_lines else []
    for (idx, aborted1, completed, sigok), r in zip(hold_idx, hres):
        if r == "true":
            continue
        if r != "false":
            raise HarnessError(f"driver holds output {r!r}")
        c, ob = cases[idx], obs[idx]
        if completed and not sigok:
            ctx.violation("c18:completed-with-wrong-signature",
                          f"client completed although v is not HMAC(ServerKey(password, salt, i), AuthMessage): "
                          f"server-final {ob['sfin'][:100]!r} (tamper {c['t1']}/{c['t2']})",
                          {"cases": [c], "observed": "completed", "server_first": ob["sf"].hex(), "server_final": ob["sfin"].hex()})
        else:
            ctx.violation("c18:nonce-prefix-not-checked",
                          f"client went on although the server nonce does not extend its own nonce {c['cnonce']!r}: "
                          f"server-first {ob['sf'][:120]!r}",
                          {"cases": [c], "observed": repr(ob["second"])[:300], "server_first": ob["sf"].hex()})

    ctx.coverage["rule"] = (
        "a case = one SCRAM login of the real ScramAuthenticator (generator driven via _step; nonce injected through "
        "the attribute or a patched uuid4) against the independent RFC 5802 server: user names over atoms incl. ',' '=' "
        "'=2C' '=3D' and non-ASCII / NFKC-sensitive characters, non-ASCII passwords, salts 1..64 bytes, iteration "
        "counts 1..20000 (mostly < 700 in the quick tier), SHA-256 and SHA-512; ~38 % honest, otherwise exactly one "
        "field of one server message tampered (nonce: 9 ways, salt: 8, iteration count: 36 texts, structure: 19, "
        "signature: every bit / truncation / extension / zero / rotation / base64-level, final structure: 9, invalid "
        "UTF-8), followed by the server's natural reply, its signature over its own transcript, or the signature of "
        "a password-knowing server for the messages as delivered. Systematic part: every tamper kind and every "
        "signature bit on a fixed login, every salt length, every user-name atom. distinct = distinct model input "
        "line; non-trivial = the run reached the nonce check or beyond")
    ctx.coverage["traces_validated_against_impl"] = len(lines)
    ctx.coverage["outcome_by_model_branch"] = dict(sorted(hist.items()))
    ctx.coverage["impl_exception_types"] = exc_hist
    ctx.coverage["tamper_kinds"] = dict(sorted(t_hist.items()))
    ctx.coverage["model_reason_vs_exception_type_disagreements"] = reason_exc_disagree
    ctx.coverage["property_statement_evaluations"] = len(hold_lines)
    ctx.coverage["honest_logins_accepted_by_strict_server"] = sum(
        1 for c, ob in zip(cases, obs) if c["rfc"] and c["t1"] == ["none"] and ob.get("srv_accepts"))
    ctx.coverage["max_iterations"] = max(c["iters"] for c in cases) if cases else 0
    for i in (0, len(lines) // 3, 2 * len(lines) // 3, len(lines) - 1):
        if lines:
            toks = outs[i].split(" ")
            smp = {"case": {k: cases[i][k] for k in ("mech", "user", "pw", "cnonce", "ext", "salt", "iters", "t1", "t2")},
                   "model_client_first": bytes.fromhex(toks[0]).decode("utf-8") if toks[0] != "-" else "",
                   "server_first_delivered": obs[i].get("sf", b"").decode("utf-8", "replace"),
                   "server_final_delivered": obs[i].get("sfin", b"").decode("utf-8", "replace")[:160],
                   "impl_last_step": repr((obs[i].get("third") or obs[i].get("second")))[:160]}
            if toks[1].startswith("ok:"):
                f = toks[1].split(":")
                smp["model_client_final_symbolic"] = bytes.fromhex(f[1]).decode("utf-8").replace("\x01", "b64<").replace("\x02", ">")[:700]
                smp["model_expected_server_signature"] = f[3][:300]
                smp["impl_client_final"] = obs[i]["second"][1].decode("utf-8", "replace")[:200] if obs[i]["second"][0] == "msg" else None
            else:
                smp["model_after_server_first"] = toks[1]
            smp["model_after_server_final"] = toks[2][:80]
            ctx.sample(smp)
    if not mism and not ctx.violations and ctx.replay_cases is None:
        # the real class conforms on every case of this run, so it is a sound base for the tie's
        # self-test (mutated subclasses must be seen to diverge)
        selftest(ctx, impl)
    if mism:
        idx, d = mism[0]
        ctx.broken.append({"kind": "correspondence", "tie": "T-diff c18 (ScramAuthenticator vs AkVerif.Scram)",
                           "mismatches": len(mism),
                           "first": {"case": cases[idx], "where": d[0][0], "model": d[0][1][:400], "impl": d[0][2][:400]}})
        if not ctx.violations:
            # no clause of the statement failed on an observation: report the correspondence with its input
            ctx.violation("c18:model-differs:" + d[0][0],
                          f"real authenticator and model differ at {d[0][0]}: model {d[0][1][:160]!r} impl {d[0][2][:160]!r}",
                          {"cases": [cases[idx]], "where": d[0][0], "model": d[0][1][:600], "impl": d[0][2][:600],
                           "model_line": lines[idx][:600]}, no_input=True)
    if not proved and not ctx.violations and not ctx.broken:
        ctx.broken.append({"kind": "proof", "note": "see lean-build / audit entries"})
