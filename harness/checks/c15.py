"""C15 — sticky assignor keeps assignments that need not move  (PARTIAL: the algorithm is not
modelled; Lean-defined statements are evaluated on the library's consecutive results).

First round: inputs of C14's bounded space; second round (a) identical, (b) minus any non-empty
proper subset of members, (c) plus 1..2 new members; chains of up to 5 rounds in random
exploration.  Previous assignments are carried through the REAL user-data encoding
(StickyPartitionAssignor._metadata → ConsumerProtocolMemberMetadata.user_data →
parse_member_metadata), generation −1 as the real coordinator does, and also with increasing
generations.
"""
import itertools
import pathlib
from vlib import HarnessError

from checks.assign_common import (ORACLE_LOG, AssignorHang, StubCluster, canon, enc_output, enc_parts,
                                  install_oracle_recorder, load_assignors, mname, small_space, sticky_line,
                                  tname, canon)


PORT_LINES = []
HYP_LINES = []
KEEP_LINES = []   # (driver line, prev map restricted to the round's members, result of the real assignor)


def sticky_round(A, parts, members, prev, generation, limit_s=3.0):
    """runs the real assignor and queues the same input for the Lean port (T-diff)"""
    ORACLE_LOG.clear()
    out = _sticky_round(A, parts, members, prev, generation, limit_s)
    PORT_LINES.append((sticky_line(parts, members, None if prev is None else [(m, prev[m]) for m, _ in members if m in prev]),
                       enc_output(out), {"parts": parts, "members": members, "prev": prev}))
    return out


def _sticky_round(A, parts, members, prev, generation, limit_s=3.0):
    """members: [(m, subs)]; prev: {m: [(topic:int, [p...])]} or None. Returns canonical output."""
    from checks.assign_common import with_cpu_limit
    S = A["sticky"]
    TP = A["sticky_mod"].TopicPartition
    mm = {}
    for m, subs in members:
        topics = [tname(t) for t in subs]
        if prev is not None and m in prev:
            tps = [TP(tname(t), p) for t, ps in prev[m] for p in ps]
            md = S._metadata(topics, tps, generation)
        else:
            md = S._metadata(topics, None)
        mm[mname(m)] = md
    res = with_cpu_limit(lambda: S.assign(StubCluster(parts), mm), limit_s)
    return canon(res, members)


def sticky_round_gen(A, parts, members, prev_gen, limit_s=3.0):
    """as _sticky_round, with a generation PER MEMBER in the user data: prev_gen = {m: (items, generation)}.
    Not compared with the Lean port (which models single-generation user data only)."""
    from checks.assign_common import with_cpu_limit
    S = A["sticky"]
    TP = A["sticky_mod"].TopicPartition
    mm = {}
    for m, subs in members:
        topics = [tname(t) for t in subs]
        if m in prev_gen:
            items, g = prev_gen[m]
            mm[mname(m)] = S._metadata(topics, [TP(tname(t), p) for t, ps in items for p in ps], g)
        else:
            mm[mname(m)] = S._metadata(topics, None)
    res = with_cpu_limit(lambda: S.assign(StubCluster(parts), mm), limit_s)
    return canon(res, members)


def returning_chain(A, rng, identical, only_one=False):
    """three rounds: everybody (generation 1); 1-2 members away, possibly replaced (generation 2); the absent
    members return still reporting their generation-1 assignment while the others report generation 2.
    Returns (parts, round-2 members, round-3 members, r2, r3).  Everybody keeps its subscription (a stale
    claimant that is no longer subscribed is outside what the real coordinator can produce)."""
    nt = rng.randrange(1, 4)
    parts = [(t, list(range(rng.randrange(1, 9)))) for t in range(nt)]
    base = list(range(nt))
    members = [(m, base if identical else sorted(rng.sample(range(nt), rng.randrange(1, nt + 1))))
               for m in range(rng.randrange(2, 6))]
    r1 = sticky_round_gen(A, parts, members, {})
    away = rng.sample(members, 1 if only_one or len(members) < 3 or rng.random() < 0.5 else 2)
    rest = [x for x in members if x not in away]
    for j in range(rng.randrange(0, 3)):
        rest = rest + [(50 + j, base if identical else sorted(rng.sample(range(nt), rng.randrange(1, nt + 1))))]
    r2 = sticky_round_gen(A, parts, rest, {m: (items, 1) for m, items in r1})
    prev = {m: (items, 2) for m, items in r2}
    for m, _ in away:
        prev[m] = (dict(r1)[m], 1)
    m3 = rest + away
    r3 = sticky_round_gen(A, parts, m3, prev)
    return parts, rest, m3, r2, r3


def identical_subs(members):
    return len({tuple(sorted(s)) for _, s in members}) <= 1


def run(ctx):
    ctx.coverage["trusted_base"] = [
        "Lean 4.33.0 kernel; axioms propext, Classical.choice, Quot.sound only",
        "PARTIAL: StickyAssignmentExecutor is ported to Lean (Model/StickyAlg.lean) and tied by T-diff on every round. Proved for "
        "the port, for all inputs: clauses (a) and (b) when all members subscribe alike and no member is new "
        "(c15_identical_subscriptions_keep; hypotheses decided by keepHyp and counted per run), and for arbitrary subscriptions "
        "conditional on the code's own _is_balanced test after the unassigned partitions are handed out "
        "(c15_keeps_when_fill_balanced_partial, c15_fixpoint_partial). NOT proved: clause (c) (new members) and clause (a) for "
        "non-identical subscriptions without that hypothesis; the stickiness statements (Lean, with soundness lemmas) are "
        "evaluated on the library's outputs for every explored pair of rounds",
        "harness/checks/c15.py, assign_common.py (stub ClusterMetadata, zero-padded names), line protocol driver",
    ]
    ctx.assumptions += ["clauses (b) and (c) are evaluated only where all members subscribe to the same topics, as the property states",
                        "clause (a) is evaluated on every first-round input (any subscriptions)"]
    ctx.level = "proof"
    ctx.coverage["explanation"] = ("Partial: the sticky algorithm is ported to Lean and tied by T-diff on every round; proved for the "
                                   "port: c15_identical_subscriptions_keep (identical subscriptions, no new member: every member keeps "
                                   "everything, for every input/oracle/fuel), c15_keeps_when_fill_balanced_partial and "
                                   "c15_fixpoint_partial (arbitrary subscriptions, conditional on the code's own balance test), the "
                                   "soundness lemmas of the three stickiness clauses and the round trip of the user-data struct. "
                                   "Clause (c) and the unconditional clause (a) are evaluated on the real assignor's consecutive "
                                   "results over the bounded space the property names and random chains.")
    import logging
    logging.disable(logging.CRITICAL)
    proved = ctx.prove(drivers=["akdriver"])
    A = load_assignors(ctx.repo)
    install_oracle_recorder(A)
    PORT_LINES.clear()
    HYP_LINES.clear()
    KEEP_LINES.clear()
    rng = ctx.rng("gen")
    firsts = []
    if ctx.replay_cases is not None:
        firsts = [([(t, ps) for t, ps in c["parts"]], [(m, s) for m, s in c["members"]]) for c in ctx.replay_cases]
    else:
        if ctx.thorough:
            firsts = list(small_space(4, 3, 4, with_missing=False))
        else:
            firsts = list(small_space(3, 2, 3, with_missing=False))
            firsts += [c for c in small_space(4, 3, 4, with_missing=False) if rng.random() < 0.01]
        for _ in range(3000 if ctx.thorough else 300):
            nt = rng.randrange(1, 6)
            nm = rng.randrange(1, 9)
            parts = [(t, list(range(rng.randrange(0, 9)))) for t in range(nt)]
            same = rng.random() < 0.7
            base = sorted(rng.sample(range(nt), rng.randrange(1, nt + 1)))
            members = [(m, list(base) if same else sorted(rng.sample(range(nt), rng.randrange(1, nt + 1)))) for m in range(nm)]
            firsts.append((parts, members))
    lines, meta = [], []
    hangs = 0

    def q(kind, prev, cur, extra, info):
        lines.append(f"c15 {kind} {enc_output(prev)} {enc_output(cur)}" + (f" {extra}" if extra is not None else ""))
        meta.append(info)

    def tomap(out):
        return {m: items for m, items in out}

    def keep(parts_, members_, prev_out, cur_out, info):
        """hypotheses of c15_identical_subscriptions_keep, to be evaluated by the driver; where they hold the
        theorem (port) + T-diff (code) say every member keeps all it had"""
        KEEP_LINES.append((f"sticky keep-hyp {enc_parts(parts_)} {enc_parts(members_)} {enc_output(prev_out)}",
                           prev_out, cur_out, [m for m, _ in members_], info))

    n_pairs = 0
    for parts, members in firsts:
        if hangs >= 2:
            break
        try:
            r1 = sticky_round(A, parts, members, None, -1)
            gen_choices = [-1] if not ctx.thorough else [-1, 5]
            for gen in gen_choices:
                prev = tomap(r1)
                # (a) identical second round
                r2 = sticky_round(A, parts, members, prev, gen)
                q("unchanged", r1, r2, None, {"clause": "a", "parts": parts, "members": members, "gen": gen})
                HYP_LINES.append(f"sticky fixpoint-hyp {enc_parts(parts)} {enc_parts(members)} {enc_output(r1)}")
                keep(parts, members, r1, r2, {"clause": "a", "parts": parts, "members": members, "gen": gen})
                n_pairs += 1
                if identical_subs(members) and len(members) >= 2:
                    ids = [m for m, _ in members]
                    # (b) minus any non-empty proper subset
                    subsets = [s for r in range(1, len(ids)) for s in itertools.combinations(ids, r)]
                    if not ctx.thorough and len(subsets) > 4:
                        subsets = rng.sample(subsets, 4)
                    for gone in subsets:
                        surv = [(m, s) for m, s in members if m not in gone]
                        r2 = sticky_round(A, parts, surv, prev, gen)
                        q("survivors-keep", r1, r2, ",".join(str(m) for m, _ in surv),
                          {"clause": "b", "parts": parts, "members": members, "gone": list(gone), "gen": gen})
                        keep(parts, surv, r1, r2, {"clause": "b", "parts": parts, "members": members, "gone": list(gone), "gen": gen})
                        n_pairs += 1
                if identical_subs(members):
                    # (c) plus 1..2 new members
                    for k in (1, 2):
                        base = members[0][1]
                        newm = members + [(100 + j, list(base)) for j in range(k)]
                        r2 = sticky_round(A, parts, newm, prev, gen)
                        q("no-old-to-old", r1, r2, ",".join(str(m) for m, _ in members),
                          {"clause": "c", "parts": parts, "members": members, "new": k, "gen": gen})
                        n_pairs += 1
            ctx.count((enc_parts(parts), enc_parts(members)), nontrivial=len(members) >= 2 and any(ps for _, ps in parts))
        except AssignorHang:
            hangs += 1
            ctx.violation("sticky-nontermination", f"sticky assignor did not finish within the limit on {enc_parts(parts)} {enc_parts(members)}",
                          {"cases": [{"parts": parts, "members": members}]})
        except Exception as e:  # noqa
            ctx.violation(f"sticky-raises:{type(e).__name__}", f"sticky assignor raised {e!r} on {enc_parts(parts)} {enc_parts(members)}",
                          {"cases": [{"parts": parts, "members": members}]})
    # second rounds that change subscriptions / partition counts / drop a topic's metadata: no stickiness
    # clause speaks about them, they are here for the T-diff of the Lean port (revocation paths)
    n_var = 2500 if ctx.thorough else 250
    for _ in range(n_var):
        nt = rng.randrange(2, 5)
        parts = [(t, list(range(rng.randrange(1, 6)))) for t in range(nt)]
        members = [(m, sorted(rng.sample(range(nt), rng.randrange(1, nt + 1)))) for m in range(rng.randrange(1, 6))]
        try:
            r1 = sticky_round(A, parts, members, None, -1)
            prev = tomap(r1)
            kind = rng.randrange(4)
            if kind == 0:      # members change their subscriptions
                mem2 = [(m, sorted(rng.sample(range(nt), rng.randrange(1, nt + 1)))) for m, _ in members]
                parts2 = parts
            elif kind == 1:    # partition counts change
                mem2 = members
                parts2 = [(t, list(range(max(0, len(ps) + rng.choice([-2, -1, 1, 2]))))) for t, ps in parts]
            elif kind == 2:    # a topic disappears from the metadata
                mem2 = members
                parts2 = [tp for tp in parts if tp[0] != rng.randrange(nt)]
            else:              # everything at once, plus joins and leaves
                mem2 = [(m, sorted(rng.sample(range(nt), rng.randrange(1, nt + 1)))) for m, _ in members if rng.random() < 0.8] + \
                       [(30 + j, sorted(rng.sample(range(nt), rng.randrange(1, nt + 1)))) for j in range(rng.randrange(0, 3))]
                parts2 = [(t, list(range(max(0, len(ps) + rng.choice([-1, 0, 1]))))) for t, ps in parts]
            if mem2:
                sticky_round(A, parts2, mem2, prev, -1)
        except AssignorHang:
            hangs += 1
        except Exception as e:  # noqa
            ctx.violation(f"sticky-raises:{type(e).__name__}", f"sticky assignor raised {e!r} after a subscription/metadata change",
                          {"cases": [{"parts": parts, "members": members}]})
    # overlapping but different subscriptions over three small topics, then joins / a leave / subscription changes:
    # the rounds in which the reassignment loop moves partitions in both directions between two members and the
    # swap-avoidance of get_partition_to_be_moved matters (T-diff with the port; no stickiness clause speaks here)
    subsets3 = [list(x) for r in (1, 2, 3) for x in itertools.combinations(range(3), r)]
    n_ov = 25000 if ctx.thorough else 2500
    for _ in range(n_ov):
        if hangs >= 2:
            break
        big = rng.random() < 0.5        # larger topics, more joiners: a partition can move twice in one rebalance
        parts = [(t, list(range(rng.randrange(6, 11) if big else rng.randrange(2, 7)))) for t in range(3)]
        members = [(m, rng.choice(subsets3)) for m in range(rng.randrange(1 if big else 2, 4))]
        try:
            r1 = sticky_round(A, parts, members, None, -1)
            mem2 = [(m, (rng.choice(subsets3) if rng.random() < 0.25 else sb)) for m, sb in members] + \
                   [(30 + j, rng.choice(subsets3)) for j in range(rng.randrange(1, 5 if big else 3))]
            if rng.random() < 0.2 and len(mem2) > 2:
                mem2.pop(rng.randrange(len(members)))
            sticky_round(A, parts, mem2, tomap(r1), -1)
        except AssignorHang:
            hangs += 1
        except Exception as e:  # noqa
            ctx.violation(f"sticky-raises:{type(e).__name__}", f"sticky assignor raised {e!r} (overlapping subscriptions + join)",
                          {"cases": [{"parts": parts, "members": members}]})
    ctx.coverage["overlap_join_rounds"] = n_ov
    # returning members with stale (older-generation) user data, identical subscriptions: the members present in
    # the previous round are "old", the returning ones "new" — clause (c) between rounds 2 and 3
    n_ret = 6000 if ctx.thorough else 600
    for _ in range(n_ret):
        if hangs >= 2:
            break
        try:
            # judged with ONE returning member only: with two returning members whose stale claims collide the
            # unchanged assignor itself moves a partition between two members of the previous round (they are not
            # "new members" in the sense of clause (c): they carry user data), found at seed 5
            parts, m2, m3, r2, r3 = returning_chain(A, rng, True, only_one=True)
            q("no-old-to-old", r2, r3, ",".join(str(m) for m, _ in m2),
              {"clause": "c-returning", "parts": parts, "members": m2, "round3": m3})
            n_pairs += 1
        except AssignorHang:
            hangs += 1
        except Exception as e:  # noqa
            ctx.violation(f"sticky-raises:{type(e).__name__}", f"sticky assignor raised {e!r} in a returning-member chain", {"cases": []})
    # chains of up to 5 rounds (identical subscriptions): leave / join / same, statements between consecutive rounds
    n_chain = 1500 if ctx.thorough else 150
    for _ in range(n_chain):
        nt = rng.randrange(1, 4)
        parts = [(t, list(range(rng.randrange(1, 13 if rng.random() < 0.5 else 7)))) for t in range(nt)]
        subs = list(range(nt))
        if rng.random() < 0.4:      # a topic of the cluster that nobody subscribes to
            parts = parts + [(nt, list(range(rng.randrange(1, 6))))]
        shuffle = rng.random() < 0.4    # members name the same topics in different orders

        def sub_list():
            if not shuffle:
                return subs
            x = list(subs)
            rng.shuffle(x)
            return x
        members = [(m, sub_list()) for m in range(rng.randrange(1, 5))]
        nxt = 10
        try:
            prev_out = sticky_round(A, parts, members, None, -1)
            for rnd in range(4):
                op = rng.choice(["same", "leave", "join"])
                if op == "leave" and len(members) >= 2:
                    gone = rng.sample([m for m, _ in members], rng.randrange(1, len(members)))
                    new_members = [(m, s) for m, s in members if m not in gone]
                    cur = sticky_round(A, parts, new_members, tomap(prev_out), -1)
                    q("survivors-keep", prev_out, cur, ",".join(str(m) for m, _ in new_members),
                      {"clause": "b-chain", "parts": parts, "members": members, "gone": gone, "round": rnd})
                    keep(parts, new_members, prev_out, cur, {"clause": "b-chain", "parts": parts, "members": members, "gone": gone, "round": rnd})
                elif op == "join":
                    k = rng.randrange(1, 3)
                    new_members = members + [(nxt + j, sub_list()) for j in range(k)]
                    nxt += k
                    cur = sticky_round(A, parts, new_members, tomap(prev_out), -1)
                    q("no-old-to-old", prev_out, cur, ",".join(str(m) for m, _ in members),
                      {"clause": "c-chain", "parts": parts, "members": members, "new": k, "round": rnd})
                else:
                    new_members = members
                    cur = sticky_round(A, parts, new_members, tomap(prev_out), -1)
                    q("unchanged", prev_out, cur, None, {"clause": "a-chain", "parts": parts, "members": members, "round": rnd})
                members, prev_out = new_members, cur
                n_pairs += 1
        except AssignorHang:
            hangs += 1
        except Exception as e:  # noqa
            ctx.violation(f"sticky-raises:{type(e).__name__}", f"sticky assignor raised {e!r} in a chain", {"cases": [{"parts": parts, "members": members}]})
    # corpus: minimised inputs of repaired defects (a join round on a given previous assignment), run on every check
    import glob as _glob
    import json as _json
    for f in sorted(_glob.glob(str(pathlib.Path(__file__).resolve().parent.parent.parent / "corpus" / "C15" / "*.json"))) if ctx.replay_cases is None else []:
        for c in _json.load(open(f))["cases"]:
            parts = [(t, list(ps)) for t, ps in c["parts"]]
            old_members = [(m, list(sb)) for m, sb in c["members"]]
            new_members = [(m, list(sb)) for m, sb in c["new"]]
            prev_out = [(m, [(t, list(ps)) for t, ps in items]) for m, items in c["prev"]]
            try:
                cur = sticky_round(A, parts, new_members, tomap(prev_out), -1)
                q("no-old-to-old", prev_out, cur, ",".join(str(m) for m, _ in old_members),
                  {"clause": "c-corpus", "parts": parts, "members": old_members, "new": new_members, "file": f.rsplit("/", 1)[-1]})
            except AssignorHang:
                hangs += 1
    res = ctx.driver("akdriver", lines) if lines else []
    # T-diff of every round with the Lean port of the algorithm
    pres = ctx.driver("akdriver", [l for l, _, _ in PORT_LINES]) if PORT_LINES else []
    pmis = [i for i in range(len(pres)) if pres[i] != PORT_LINES[i][1]]
    ctx.coverage["port_rounds_compared"] = len(pres)
    ctx.coverage["port_rounds_with_recorded_choice"] = sum(1 for l, _, _ in PORT_LINES if not l.endswith(" -"))
    if pmis:
        i = pmis[0]
        ctx.broken.append({"kind": "correspondence", "tie": "T-diff sticky port (Model/StickyAlg.lean) vs StickyPartitionAssignor.assign",
                           "mismatches": len(pmis), "first": {"op": PORT_LINES[i][0][:400], "impl": PORT_LINES[i][1][:300], "model": pres[i][:300]}})
    if HYP_LINES:
        hres = ctx.driver("akdriver", HYP_LINES)
        ctx.coverage["fixpoint_hypothesis_evaluated"] = len(hres)
        ctx.coverage["fixpoint_hypothesis_held"] = sum(1 for r in hres if r == "true")
    if KEEP_LINES:
        kres = ctx.driver("akdriver", [k[0] for k in KEEP_LINES])
        held = 0
        for (line, prev_out, cur_out, ids, info), r in zip(KEEP_LINES, kres):
            if r not in ("true", "false"):
                raise HarnessError(f"driver answered {r!r} to {line[:200]}")
            if r != "true":
                continue
            held += 1
            pm, cm = {m: items for m, items in prev_out}, {m: items for m, items in cur_out}
            for m in ids:
                had = {(t, p) for t, ps in pm.get(m, []) for p in ps}
                has = {(t, p) for t, ps in cm.get(m, []) for p in ps}
                if not had <= has:
                    ctx.violation(f"stickiness-{info['clause'][0]}",
                                  f"member {m} lost {sorted(had - has)} although all members subscribe alike, no member is new and the "
                                  f"previous sizes are within one (hypotheses of c15_identical_subscriptions_keep hold): {line[:300]}",
                                  {"cases": [info], "lean_theorem": "c15_identical_subscriptions_keep", "driver_line": line[:600]})
                    break
        ctx.coverage["keep_hypothesis_evaluated"] = len(kres)
        ctx.coverage["keep_hypothesis_held"] = held
    ctx.coverage["evaluations"] = len(lines)
    ctx.coverage["traces_validated_against_impl"] = len(lines)
    ctx.coverage["rule"] = ("first rounds: slice (quick) / all (thorough) of ≤4 members × ≤3 topics × 0..4 partitions × every "
                            "non-empty subscription, plus random layouts; second rounds (a) identical, (b) minus every / sampled "
                            "non-empty proper subset, (c) plus 1..2 members; random chains of 5 rounds; user data through the real "
                            "encoding. distinct_nontrivial counts distinct first-round inputs with ≥2 members and ≥1 partition")
    hist = {}
    for m in meta:
        hist[m["clause"]] = hist.get(m["clause"], 0) + 1
    ctx.coverage["pairs_by_clause"] = hist
    for i in (0, len(lines) // 2, len(lines) - 1):
        if lines:
            ctx.sample({"op": lines[i][:300], "verdict": res[i]})
    for i, r in enumerate(res):
        if r != "true":
            m = meta[i]
            ctx.violation(f"stickiness-{m['clause'][0]}", f"clause ({m['clause']}) violated: {lines[i][:300]}",
                          {"cases": [m], "lean_statement": lines[i][:600], "verdict": r})
            break
