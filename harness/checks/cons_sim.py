"""Simulator workloads of the consumer checks: the real AIOKafkaConsumer against `sim.SimCluster`.

`c03_trace(env, plan)` / `c13_trace(env, plan)` run one deterministic simulation described by the
plain dict `plan` (it is the replay) and return what was recorded: the probe's per-partition event
lists (for the Lean acceptor), the property-level observations, the ground truth and the outcome.
"""
import asyncio
import random

from . import cons_common as cc

BOOT3 = "b0:9092,b1:9092,b2:9092"


def sim():
    import sim as _sim          # only after ctx.repo is first on sys.path (cons_common.Env did that)
    return _sim


# ------------------------------------------------------------------------------------ log injection
def inject(cluster, tp, ab, open_txn=False):
    """append an abstract batch (already encoded: ab.raw) to the simulated partition log"""
    from sim.log import StoredBatch
    log = cluster.log(tp)
    sb = StoredBatch()
    sb.base_offset, sb.last_offset, sb.raw = ab.base, ab.next - 1, ab.raw
    sb.records = [] if ab.skip else [(o, 1_600_000_000_000, None, cc.payload(o), []) for o in ab.recs]
    sb.pid, sb.epoch, sb.base_seq, sb.last_seq = (7, 0, -1, -1) if (ab.skip or open_txn) else (-1, -1, -1, -1)
    sb.is_txn = bool(ab.skip or open_txn)
    sb.is_control = bool(ab.skip)
    sb.ctrl_type = 1 if ab.skip else None
    sb.max_ts = 1_600_000_000_000
    sb.append_vt = cluster.now()
    if log.batches and ab.base < log.leo:
        raise cc.HarnessError(f"injected batch {ab} overlaps the log end {log.leo}")
    log.batches.append(sb)
    log.leo = ab.next
    if open_txn and 7 not in log.open_txns:
        log.open_txns[7] = ab.base
    cluster._wake(log)
    return sb


def parse_log(txt, fmt):
    """`base:next:skip:recs|…` → [AB] (encoded)"""
    out = []
    if txt in ("-", ""):
        return out
    for item in txt.split("|"):
        base, nxt, skip, recs = item.split(":")
        ab = cc.AB(int(base), int(nxt), skip == "1", [] if recs == "_" else [int(x) for x in recs.split(".")], fmt)
        ab.raw = cc.encode_batch(ab)
        out.append(ab)
    return out


class Truth:
    """raw bytes → abstract batch, per partition (what the probe needs to read fetch answers)"""

    def __init__(self):
        self.by_raw = {}
        self.logs = {}

    def add(self, tp, ab):
        self.by_raw[(tp, ab.raw)] = ab
        self.logs.setdefault(tp, []).append(ab)

    def lookup(self, tp, raw):
        return self.by_raw.get(((tp.topic, tp.partition), raw))


# ------------------------------------------------------------------------------------ C03 workload
def c03_plan(rng, idx, thorough=False):
    nparts = rng.choice([1, 2, 2, 3])
    nodes = rng.choice([1, 2, 3, 3])
    logs, later = [], []
    for p in range(nparts):
        fmt, log = cc.gen_log(rng, max_batches=10, max_recs=5, start=rng.choice([0, 0, 0, 5, 2**31 - 3]))
        cut = rng.randrange(0, len(log) + 1) if rng.random() < 0.5 else len(log)
        logs.append({"fmt": fmt, "first": cc.batches_text(log[:cut]), "later": cc.batches_text(log[cut:]),
                     "later_at": round(rng.uniform(0.2, 4.0), 3)})
    n_tasks = rng.choice([1, 2, 2, 3])
    tasks = []
    for t in range(n_tasks):
        ops = []
        for _ in range(rng.randrange(6, 22)):
            c = rng.random()
            tp = rng.randrange(nparts)
            flt = [] if rng.random() < 0.65 else sorted(rng.sample(range(nparts), rng.randrange(1, nparts + 1)))
            if c < 0.30:
                ops.append(["getone", flt, rng.choice([0.05, 0.2, 0.6])])
            elif c < 0.58:
                ops.append(["getmany", flt, rng.choice([0, 50, 200, 500]), rng.choice([0, 0, 1, 2, 3, 7])])
            elif c < 0.72:
                ops.append(["seek", tp, rng.random(), rng.random() < 0.5])
            elif c < 0.78:
                ops.append(["pause", tp])
            elif c < 0.86:
                ops.append(["resume", tp])
            elif c < 0.92:
                ops.append(["position", tp])
            elif c < 0.95:
                ops.append(["seek_to", tp, rng.choice(["beginning", "end"])])
            else:
                ops.append(["sleep", rng.choice([0.01, 0.1, 0.5])])
        tasks.append(ops)
    env_steps = []
    if nodes > 1:
        for _ in range(rng.randrange(0, 4)):
            env_steps.append([round(rng.uniform(0.05, 5.0), 3), "leader", rng.randrange(nparts), rng.randrange(nodes)])
        if rng.random() < 0.2:
            k = rng.randrange(nodes)
            t0 = round(rng.uniform(0.1, 3.0), 3)
            env_steps.append([t0, "kill", k])
            env_steps.append([round(t0 + rng.uniform(0.5, 3.0), 3), "revive", k])
    faulty = rng.random() < 0.65
    return {
        "kind": "c03", "idx": idx, "seed": rng.randrange(1 << 30), "nodes": nodes, "nparts": nparts, "logs": logs,
        "reset": rng.choice(["earliest", "earliest", "latest"]), "isolation": rng.choice(["read_uncommitted", "read_committed"]),
        "jitter": rng.choice([0.0, 0.002, 0.02]), "max_wait": rng.choice([20, 100, 300]),
        "fetch_bytes": rng.choice([150, 400, 1 << 20]),
        "tasks": tasks, "env": sorted(env_steps),
        "faults": {"p": rng.choice([0.05, 0.15, 0.3]) if faulty else 0.0, "seed": rng.randrange(1 << 30)},
        "tie_later": rng.random() < 0.4,
    }


async def c03_main(env, cluster, probe, truth, plan, out):
    S = sim()
    TP = env.TP
    nparts = plan["nparts"]
    tps = [TP("t", i) for i in range(nparts)]
    boot = ",".join(f"b{i}:9092" for i in range(plan["nodes"]))
    c = env.consumer.AIOKafkaConsumer(
        bootstrap_servers=boot, client_id="c", auto_offset_reset=plan["reset"], enable_auto_commit=False,
        fetch_max_wait_ms=plan["max_wait"], request_timeout_ms=1500, retry_backoff_ms=50, metadata_max_age_ms=3000,
        isolation_level=plan["isolation"], max_partition_fetch_bytes=plan["fetch_bytes"])
    await c.start()
    probe.wrap_client(c._client)
    c03_faults(cluster, plan)
    c.assign(tps)
    mism = out["api_mismatch"]

    async def later(p, spec):
        await asyncio.sleep(spec["later_at"])
        loop = asyncio.get_event_loop()
        for ab in parse_log(spec["later"], spec["fmt"]):
            truth.add(("t", p), ab)
            others = [pf for q in range(nparts) if q != p for pf in cluster.log(("t", q)).waiters
                      if pf.rq.client == "c" and not pf.rq.done] if plan.get("tie_later") else []
            if others and others[0].deadline > cluster.now():
                # coincidence: the append lands at the very instant another broker's long-poll expires
                fired = loop.create_future()

                def act(ab=ab, fired=fired):
                    inject(cluster, ("t", p), ab)
                    fired.set_result(None)

                loop.sim_call_at(others[0].deadline, act)
                await fired
            else:
                inject(cluster, ("t", p), ab)
            await asyncio.sleep(0.05)

    async def env_task():
        t0 = cluster.now()
        for when, what, *a in plan["env"]:
            dt = t0 + when - cluster.now()
            if dt > 0:
                await asyncio.sleep(dt)
            if what == "leader":
                if cluster.nodes[a[1]].up:
                    cluster.set_leader(("t", a[0]), a[1])
            elif what == "kill":
                cluster.kill_node(a[0], migrate_leaders=True)
            elif what == "revive":
                cluster.revive_node(a[0])

    async def call(kind, flt, coro_fn):
        parts = set(tps[i] for i in flt) if flt else None
        rec = {"parts": parts, "got": []}
        tok = cc.Probe.call.set(rec)
        try:
            ret = await coro_fn()
        finally:
            cc.Probe.call.reset(tok)
        if kind == "getone":
            returned = [] if ret is None else [(ret.partition, ret.offset)]
        else:
            returned = [(tp.partition, m.offset) for tp, ms in ret.items() for m in ms]
        if sorted(returned) != sorted(rec["got"]):
            mism.append({"call": kind, "filter": flt, "returned": returned, "handed_out": rec["got"]})
        for p, _o in returned:
            if flt and p not in flt:
                mism.append({"call": kind, "filter": flt, "returned": returned, "why": "partition outside the filter"})
        return returned

    async def user(ops):
        for op in ops:
            k = op[0]
            try:
                if k == "getone":
                    async def f(op=op):
                        try:
                            return await asyncio.wait_for(c.getone(*[tps[i] for i in op[1]]), op[2])
                        except asyncio.TimeoutError:
                            return None
                    await call("getone", op[1], f)
                elif k == "getmany":
                    async def f(op=op):
                        return await c.getmany(*[tps[i] for i in op[1]], timeout_ms=op[2], max_records=op[3] or None)
                    await call("getmany", op[1], f)
                elif k == "seek":
                    log = truth.logs.get(("t", op[1]), [])
                    if log:
                        b = log[int(op[2] * len(log)) % len(log)]
                        x = b.base if op[3] else min(b.next, b.base + int(op[2] * 7) % max(1, b.next - b.base + 1))
                    else:
                        x = int(op[2] * 5)
                    c.seek(tps[op[1]], x)
                    v = await c.position(tps[op[1]])       # returns at once: the position is valid
                    probe.o03(tps[op[1]], f"p{v}")
                elif k == "pause":
                    c.pause(tps[op[1]])
                elif k == "resume":
                    c.resume(tps[op[1]])
                elif k == "position":
                    st = c._subscription.subscription.assignment.state_value(tps[op[1]])
                    if st.has_valid_position:
                        v = await c.position(tps[op[1]])
                        probe.o03(tps[op[1]], f"p{v}")
                elif k == "seek_to":
                    fn = c.seek_to_beginning if op[2] == "beginning" else c.seek_to_end
                    await asyncio.wait_for(fn(tps[op[1]]), 5)
                elif k == "sleep":
                    await asyncio.sleep(op[1])
            except env.errors.KafkaError as ex:
                out["api_errors"].append(f"{k}:{type(ex).__name__}")
            except asyncio.TimeoutError:
                out["api_errors"].append(f"{k}:timeout")
            except Exception as ex:  # noqa  (AssertionError, TypeError, …: nothing the API documents)
                out["unexpected"].append(f"{k}{op[1:]}: {type(ex).__name__}: {ex}"[:300])

    await asyncio.gather(*[user(ops) for ops in plan["tasks"]], env_task(),
                         *[later(p, spec) for p, spec in enumerate(plan["logs"])])
    # ---- quiet phase: faults cease; everything visible must now be delivered to the end of the log
    cluster.faults.clear()
    for n in range(plan["nodes"]):
        cluster.revive_node(n)
    for tp in tps:
        c.resume(tp)
    deadline = cluster.now() + 90.0
    stalled = []
    while cluster.now() < deadline:
        async def f():
            return await c.getmany(timeout_ms=300)
        await call("getmany", [], f)
        done = True
        for i, tp in enumerate(tps):
            st = c._subscription.subscription.assignment.state_value(tp)
            if not st.has_valid_position or st.position < cluster.log(("t", i)).leo:
                done = False
        if done:
            break
    for i, tp in enumerate(tps):
        st = c._subscription.subscription.assignment.state_value(tp)
        if not st.has_valid_position or st.position < cluster.log(("t", i)).leo:
            stalled.append({"partition": i, "position": st._position, "log_end": cluster.log(("t", i)).leo})
    out["stalled"] = stalled
    probe.final()
    await safe_stop(c, out)


async def safe_stop(c, out):
    """`stop()` itself is property C19's subject; here it must not take the check down.  (Seen on the
    unchanged tree: Fetcher.close() re-raises the CancelledError of a fetch task that was sleeping in
    its retry back-off, so stop() raises CancelledError.)"""
    try:
        await asyncio.wait_for(c.stop(), 30)
    except asyncio.CancelledError:
        out["notes"].append("stop() raised CancelledError")
    except Exception as ex:  # noqa
        out["notes"].append(f"stop() raised {type(ex).__name__}")


def run_sim(env, plan, main, prepare, max_vt=400.0):
    """one simulation: returns `out` with probe results, ground truth and the outcome"""
    S = sim()
    logging_off()
    cluster = S.SimCluster(nodes=plan["nodes"], topics={"t": plan["nparts"]}, seed=plan["seed"],
                           api_versions=plan.get("api_versions"), jitter=plan.get("jitter", 0.0))
    cluster.trace_enabled = bool(plan.get("trace"))
    frng = random.Random(f"fetchcut/{plan['seed']}")
    cluster.fetch_cut = lambda tp, n, rng: frng.randint(1, n)
    truth = Truth()
    probe = cc.Probe(env, truth.lookup)
    out = {"api_mismatch": [], "api_errors": [], "stalled": [], "outcome": "ok", "notes": [], "unexpected": []}
    prepare(cluster, truth, plan)
    probe.install()
    unguard = spin_guard(env, cluster, out)
    try:
        S.run(main(env, cluster, probe, truth, plan, out), cluster, max_vt=max_vt)
    except S.SimTimeout as ex:
        out["outcome"] = "sim-timeout"
        out["where"] = " <- ".join(reversed(getattr(ex, "where", None) or ["?"]))[:600]
        probe.final()
    finally:
        unguard()
        probe.uninstall()
    out["events"] = {f"{a}/{tp.partition}": evs for (a, tp), evs in probe.events.items()}
    out["obs03"] = {tp.partition: v for tp, v in probe.obs03.items()}
    out["obs13"] = {tp.partition: v for tp, v in probe.obs13.items()}
    out["visible"] = {p: cc.visible(truth.logs.get(("t", p), [])) for p in range(plan["nparts"])}
    out["vt"] = round(cluster.now(), 3)
    out["cluster"] = cluster
    return out


SPIN_LIMIT = 3000          # rounds of the fetch loop …
SPIN_WINDOW = 0.01         # … within this many virtual seconds: the loop spins on a zero timeout


def spin_guard(env, cluster, out):
    """A livelock of the real client must be an observation, not a hang of the check: the background
    fetch loop calling `_get_actions_per_node` thousands of times within a few virtual milliseconds
    (a zero `asyncio.wait` timeout; the virtual clock then creeps one tick per round) is recorded in
    `out["livelock"]`, the future `out["abort"]` (if the workload set one) is resolved and the loop is
    stopped by an exception.  Returns the function that removes the guard."""
    F = env.fetcher.Fetcher
    orig = F.__dict__["_get_actions_per_node"]
    st = {"t0": None, "n": 0}

    def guarded(fself, assignment):
        now = cluster.now()
        if st["t0"] is None or now - st["t0"] > SPIN_WINDOW:
            st["t0"], st["n"] = now, 0
        st["n"] += 1
        if st["n"] > SPIN_LIMIT:
            if not out.get("livelock"):
                res = orig(fself, assignment)
                out["livelock"] = {
                    "rounds": st["n"], "within_virtual_s": round(now - st["t0"], 6), "at_virtual_s": round(now, 6),
                    "wait_timeout": res[2], "fetch_requests": len(res[0]),
                    "buffered": sorted(f"{tp.topic}-{tp.partition}" for tp in fself._records)}
                ab = out.get("abort")
                if ab is not None and not ab.done():
                    ab.set_result(None)
            raise RuntimeError("akverif: the fetch loop spins (livelock), stopped by the harness")
        return orig(fself, assignment)

    F._get_actions_per_node = guarded

    def remove():
        F._get_actions_per_node = orig

    return remove


def logging_off():
    import logging
    logging.disable(logging.CRITICAL)


def c03_prepare(cluster, truth, plan):
    for p, spec in enumerate(plan["logs"]):
        for ab in parse_log(spec["first"], spec["fmt"]):
            truth.add(("t", p), ab)
            inject(cluster, ("t", p), ab)


def c03_faults(cluster, plan):
    """armed after the consumer has started (bootstrap is not retried by the library)"""
    frng = random.Random(f"faults/{plan['faults']['seed']}")
    S = sim()
    if plan["faults"]["p"] > 0:
        fl = S.random_faults(frng, plan["faults"]["p"], ["error", "error", "drop_before", "drop_after", "delay", "lose_reply"],
                             ["Fetch"], horizon=60, codes={"Fetch": [6, 3, 5, 7]}, seconds=(0.01, 0.8))
        fl += S.random_faults(frng, plan["faults"]["p"] / 2, ["error", "drop_before", "delay"], ["ListOffsets", "Metadata"],
                              horizon=12, seconds=(0.01, 0.5))
        cluster.faults.extend(fl)


def c03_trace(env, plan):
    if plan.get("kind") == "c03sub":
        return run_sim(env, plan, c03sub_main, c03_prepare, max_vt=400.0)
    if plan.get("kind") == "c03tie":
        return run_sim(env, plan, c03tie_main, lambda cluster, truth, pl: None, max_vt=300.0)
    return run_sim(env, plan, c03_main, c03_prepare)


# ------------------------------------------------------------------------------------ C03: a subset is polled
def c03sub_plans(thorough=False):
    """Partitions that share a leader, the application polls only some of them: prefetched data of the
    others stays buffered (their `FetchResult` sits in `Fetcher._records` past its prefetch back-off)
    while the polled ones need many more fetches from the same broker (small max_partition_fetch_bytes).
    Required: the polled partitions are delivered to the end of their logs within a bounded virtual
    time, nothing comes from the others meanwhile; afterwards everything is polled and all partitions
    reach their log ends."""
    plans = []
    idx = 0

    def dense(n_batches, width):
        return "|".join(f"{b * width}:{(b + 1) * width}:0:" + ".".join(str(b * width + k) for k in range(width))
                        for b in range(n_batches))

    shapes = [(1, 2, [1]), (1, 3, [2]), (2, 4, [2]), (1, 3, [0, 2])] if thorough else [(1, 2, [1]), (2, 4, [2]), (1, 3, [0, 2])]
    for nodes, nparts, polled in shapes:
        for mode in ("getone", "getmany", "iter"):
            for fetch_bytes in ((120, 250) if thorough else (250 if mode == "getmany" else 120,)):
                logs = []
                for p in range(nparts):
                    nb = 14 if p in polled else 3
                    logs.append({"fmt": "v2", "first": dense(nb, 2), "later": "-", "later_at": 0.0})
                plans.append({
                    "kind": "c03sub", "idx": 200000 + idx, "seed": 8000 + idx, "nodes": nodes, "nparts": nparts, "logs": logs,
                    "polled": polled, "mode": mode, "reset": "earliest", "isolation": "read_uncommitted", "jitter": 0.0,
                    "max_wait": 100, "fetch_bytes": fetch_bytes, "faults": {"p": 0.0, "seed": 0}, "bound": 30.0,
                })
                idx += 1
    return plans


async def c03sub_main(env, cluster, probe, truth, plan, out):
    TP = env.TP
    nparts = plan["nparts"]
    tps = [TP("t", i) for i in range(nparts)]
    polled = [tps[i] for i in plan["polled"]]
    boot = ",".join(f"b{i}:9092" for i in range(plan["nodes"]))
    c = env.consumer.AIOKafkaConsumer(
        bootstrap_servers=boot, client_id="c", auto_offset_reset="earliest", enable_auto_commit=False,
        fetch_max_wait_ms=plan["max_wait"], request_timeout_ms=3000, retry_backoff_ms=50, metadata_max_age_ms=60000,
        max_partition_fetch_bytes=plan["fetch_bytes"])
    await c.start()
    probe.wrap_client(c._client)
    c.assign(tps)
    loop = asyncio.get_event_loop()
    out["abort"] = loop.create_future()
    asg = c._subscription.subscription.assignment

    def behind(parts):
        res = []
        for tp in parts:
            st = asg.state_value(tp)
            leo = cluster.log(("t", tp.partition)).leo
            if not st.has_valid_position or st.position < leo:
                res.append({"partition": tp.partition, "position": st._position, "log_end": leo})
        return res

    async def call(kind, parts, coro_fn):
        rec = {"parts": set(parts) if parts else None, "got": []}
        tok = cc.Probe.call.set(rec)
        try:
            ret = await coro_fn()
        finally:
            cc.Probe.call.reset(tok)
        if kind == "getone":
            returned = [] if ret is None else [(ret.partition, ret.offset)]
        else:
            returned = [(tp.partition, m.offset) for tp, ms in ret.items() for m in ms]
        if sorted(returned) != sorted(rec["got"]):
            out["api_mismatch"].append({"call": kind, "returned": returned, "handed_out": rec["got"]})
        if parts and any(p not in [tp.partition for tp in parts] for p, _ in returned):
            out["api_mismatch"].append({"call": kind, "filter": [tp.partition for tp in parts], "returned": returned,
                                        "why": "partition outside the filter"})
        return returned

    async def poll(parts, bound):
        deadline = cluster.now() + bound
        while cluster.now() < deadline and behind(parts if parts else tps):
            if plan["mode"] == "getmany":
                async def f():
                    return await c.getmany(*parts, timeout_ms=200, max_records=3)
                await call("getmany", parts, f)
            else:
                async def f():
                    try:
                        return await asyncio.wait_for(c.getone(*parts), 1.0)
                    except asyncio.TimeoutError:
                        return None
                await call("getone", parts, f)
            if plan["mode"] == "iter":
                await asyncio.sleep(0.02)        # an application slower than the broker

    async def work():
        await poll(polled, plan["bound"])
        left = behind(polled)
        if left:
            for x in left:
                x["why"] = (f"only partitions {plan['polled']} are polled (the others hold prefetched data on the same broker); "
                            f"after {plan['bound']} virtual seconds the polled partition has not reached its log end")
            out["stalled"] += left
            return
        await poll([], plan["bound"])
        out["stalled"] += behind(tps)

    w = asyncio.ensure_future(work())
    await asyncio.wait([w, out["abort"]], return_when=asyncio.FIRST_COMPLETED)
    if not w.done():
        w.cancel()
        try:
            await w
        except BaseException:  # noqa
            pass
        out["stalled"] += behind(tps)
    elif w.exception() is not None:
        out["unexpected"].append(f"workload: {type(w.exception()).__name__}: {w.exception()}"[:300])
    out["abort"] = None
    probe.final()
    await safe_stop(c, out)


# ------------------------------------------------------------------------------------ C03: exact ties
TICK = 1.0 / (1 << 20)          # grid of the virtual clock


def c03tie_plans(thorough=False):
    """Deterministic schedules in which two fetch answers from two brokers reach the consumer at the
    same virtual instant while the application is blocked in `getone()`: one answer carries the
    record just appended, the other is (a) the empty answer of a long-poll that expires at that very
    instant (the append is scheduled at the other broker's long-poll deadline + delta) or (b) a
    NOT_LEADER answer provoked at the instant of the append.  Jitter 0, every partition led by its
    own broker.  Required: the blocked `getone()` returns the record within a bounded virtual time."""
    deltas = [0.0, TICK, -TICK, 0.001, -0.001, 2 * TICK, 0.002, -0.002]
    plans = []
    idx = 0
    for nodes in ((2, 3) if thorough else (2,)):
        for wait_ms in ((20, 50, 100, 300, 500) if thorough else (50, 300)):
            for swap in (False, True):
                variants = [[["empty", d] for d in deltas], [["empty", d] for d in reversed(deltas)],
                            [["error", 0.0]], [["empty", 0.001], ["empty", -TICK], ["error", 0.0]]]
                if not thorough and wait_ms != 50:
                    variants = variants[:1] + variants[2:3]
                for rounds in variants:
                    plans.append({
                        "kind": "c03tie", "idx": 100000 + idx, "seed": 7000 + idx, "nodes": nodes, "nparts": nodes,
                        "reset": "earliest", "isolation": "read_uncommitted", "jitter": 0.0, "max_wait": wait_ms,
                        "swap": swap, "rounds": rounds, "faults": {"p": 0.0, "seed": 0}, "bound": 5.0,
                    })
                    idx += 1
    return plans


async def c03tie_main(env, cluster, probe, truth, plan, out):
    TP = env.TP
    nparts = plan["nparts"]
    tps = [TP("t", i) for i in range(nparts)]
    boot = ",".join(f"b{i}:9092" for i in range(plan["nodes"]))
    c = env.consumer.AIOKafkaConsumer(
        bootstrap_servers=boot, client_id="c", auto_offset_reset="earliest", enable_auto_commit=False,
        fetch_max_wait_ms=plan["max_wait"], request_timeout_ms=3000, retry_backoff_ms=50, metadata_max_age_ms=60000)
    await c.start()
    probe.wrap_client(c._client)
    c.assign(tps)
    loop = asyncio.get_event_loop()
    next_off = [0] * nparts
    ties = {"attempted": 0, "both_parked": 0}

    def parked(p):
        return [pf for pf in cluster.log(("t", p)).waiters if pf.rq.client == "c" and not pf.rq.done]

    def append(p):
        o = next_off[p]
        next_off[p] += 1
        ab = cc.AB(o, o + 1, False, [o], "v2")
        ab.raw = cc.encode_batch(ab)
        truth.add(("t", p), ab)
        inject(cluster, ("t", p), ab)
        return o

    async def blocked_getone():
        rec = {"parts": None, "got": []}
        tok = cc.Probe.call.set(rec)
        try:
            m = await c.getone()
        finally:
            cc.Probe.call.reset(tok)
        if [(m.partition, m.offset)] != rec["got"]:
            out["api_mismatch"].append({"call": "getone", "returned": [(m.partition, m.offset)], "handed_out": rec["got"]})
        return m

    async def one_round(r, a, b, delta, variant):
        g = asyncio.ensure_future(blocked_getone())
        await asyncio.sleep(0.004 + 0.0007 * r)              # the call is now waiting for data
        for _ in range(4000):                                # until both brokers hold a long-poll of the consumer
            if parked(a) and parked(b):
                ties["both_parked"] += 1
                break
            await asyncio.sleep(0.00025)
        ties["attempted"] += 1
        fired = loop.create_future()
        info = {"round": r, "variant": variant, "data_partition": a, "other_partition": b, "delta": delta}

        def act():
            info["at"] = cluster.now()
            info["offset"] = append(a)
            if variant == "error":
                # the other partition's leader moves at the same instant: its parked fetch is answered NOT_LEADER
                cluster.set_leader(("t", b), a % plan["nodes"])
            if not fired.done():
                fired.set_result(None)

        if variant == "empty" and parked(b):
            when = max(parked(b)[0].deadline + delta, cluster.now())
            loop.sim_call_at(when, act)
        else:
            act()
        await fired
        try:
            m = await asyncio.wait_for(g, plan["bound"])
        except asyncio.TimeoutError:
            st = c._subscription.subscription.assignment.state_value(tps[a])
            out["stalled"].append({**info, "partition": a, "position": st._position, "log_end": cluster.log(("t", a)).leo,
                                   "why": f"getone() was blocked when offset {info['offset']} was appended and did not return within "
                                          f"{plan['bound']} virtual seconds; buffered: {tps[a] in c._fetcher._records}"})
            return False
        if (m.partition, m.offset) != (a, info["offset"]):
            out["unexpected"].append(f"round {r}: getone returned {(m.partition, m.offset)}, appended {(a, info['offset'])}")
        return True

    for r, (variant, delta) in enumerate(plan["rounds"]):
        a, b = (r % nparts, (r + 1) % nparts)
        if plan["swap"]:
            a, b = b, a
        if not await one_round(r, a, b, delta, variant):
            break
    out["ties"] = ties
    probe.final()
    await safe_stop(c, out)


def judge_c03(ctx, plan, out, acc_results, holds_results):
    """turn one trace's results into violations; returns True when clean.
    acc_results: {key: driver line}; holds_results: {partition: driver line}"""
    clean = True
    replay = {"cases": [plan]}
    for p, r in holds_results.items():
        if r != "ok":
            i = int(r.split()[1])
            obs = out["obs03"].get(p, [])
            what = obs[i] if i < len(obs) else "?"
            kind = {"d": "delivery-not-next-visible", "D": "delivery-from-filtered-partition", "p": "position-wrong"}.get(what[:1], "obs")
            ctx.violation(f"c03:{kind}", f"partition {p}: observation #{i} `{what}` contradicts C03 (visible offsets "
                          f"{out['visible'][p][:30]}…); preceding observations {obs[max(0, i - 8):i]}",
                          {**replay, "partition": p, "observations": obs[:i + 1], "visible": out["visible"][p]})
            clean = False
    if out["api_mismatch"]:
        ctx.violation("c03:returned-differs-from-handed-out", f"{out['api_mismatch'][0]}", {**replay, "mismatch": out["api_mismatch"][:5]})
        clean = False
    for key, r in acc_results.items():
        if not r.startswith("ok"):
            if len(ctx.broken) < 3:
                ctx.broken.append({"kind": "correspondence", "tie": "T-trace c03 acc (real consumer vs AkVerif.Consume.step)",
                                   "partition_state": key, "driver": r[:400], "case": plan})
            clean = False
    if out.get("livelock"):
        ctx.violation("c03:livelock", f"the consumer's background fetch loop spins without waiting: {out['livelock']}; "
                      f"undelivered: {out['stalled']}", {**replay, "livelock": out["livelock"], "stalled": out["stalled"]})
        return False
    if out["unexpected"]:
        ctx.violation("c03:unexpected-exception", f"a consumer call raised an exception that is no Kafka error: {out['unexpected'][0]}",
                      {**replay, "exceptions": out["unexpected"][:5]})
        clean = False
    if out["outcome"] == "sim-timeout":
        ctx.violation("c03:hang", f"the workload did not finish within the virtual-time limit: {out.get('where', '')[:300]}",
                      {**replay, "where": out.get("where")})
        clean = False
    elif out["stalled"]:
        why = out["stalled"][0].get("why") or "faults ceased, 90 virtual seconds later the consumer has not reached the log end"
        ctx.violation("c03:stalled", f"{why}: {out['stalled']}",
                      {**replay, "stalled": out["stalled"]})
        clean = False
    return clean


def run_c03(ctx, env, plans=None, guarded=True):
    n = 4000 if ctx.thorough else 100
    rng = ctx.rng("sim")
    plans = plans if plans is not None else (c03tie_plans(ctx.thorough) + c03sub_plans(ctx.thorough)
                                             + [c03_plan(rng, i, ctx.thorough) for i in range(n)])
    clean = True
    hist = {"tie_schedules": sum(1 for p in plans if p.get("kind") == "c03tie"), "tie_rounds": 0,
            "subset_poll_schedules": sum(1 for p in plans if p.get("kind") == "c03sub"), "livelocks": 0, "delivered": 0, "seeks": 0, "events": 0, "fetch_answers": 0, "oor": 0, "stalled": 0, "timeouts": 0,
            "stop_raised_cancelled_error(C19 matter)": 0}
    unclean = 0
    chunk = 20
    for c0 in range(0, len(plans), chunk):
        if unclean >= 3:
            ctx.notes.append(f"simulator layer stopped after {unclean} failing traces ({c0} of {len(plans)} run)")
            break
        lines, where, outs = [], [], []
        part = plans[c0:c0 + chunk]
        for plan in part:
            out = c03_trace(env, plan)
            outs.append(out)
            for key, evs in out["events"].items():
                lines.append(cc.acc_line(guarded, {"earliest": -2, "latest": -1, "none": None}[plan["reset"]], evs))
                where.append((len(outs) - 1, "acc", key))
            for p, obs in out["obs03"].items():
                vis = out["visible"][p]
                lines.append("c03 holds " + (",".join(map(str, vis)) if vis else "-") + " " + (";".join(obs) if obs else "-"))
                where.append((len(outs) - 1, "holds", p))
            if out["stalled"] or out["outcome"] != "ok" or out["unexpected"] or out.get("livelock"):
                unclean += 1
                if unclean >= 3:
                    break
        res = ctx.driver("akdriver", lines) if lines else []
        per = {}
        for (k, kind, key), r in zip(where, res):
            per.setdefault(k, {"acc": {}, "holds": {}})[kind][key] = r
        for k, (plan, out) in enumerate(zip(part, outs)):
            r = per.get(k, {"acc": {}, "holds": {}})
            if not judge_c03(ctx, plan, out, r["acc"], r["holds"]):
                clean = False
                unclean += 1
            nd = sum(1 for o in out["obs03"].values() for x in o if x[0] == "d")
            ns = sum(1 for o in out["obs03"].values() for x in o if x[0] in "kP")
            hist["delivered"] += nd
            hist["tie_rounds"] += (out.get("ties") or {}).get("attempted", 0)
            hist["stop_raised_cancelled_error(C19 matter)"] += sum(1 for n in out["notes"] if "CancelledError" in n)
            hist["seeks"] += ns
            hist["events"] += sum(len(e) for e in out["events"].values())
            hist["fetch_answers"] += sum(1 for e in out["events"].values() for x in e if x[1].startswith("R"))
            hist["oor"] += sum(1 for e in out["events"].values() for x in e if x[1].endswith("=O"))
            hist["stalled"] += 1 if out["stalled"] else 0
            hist["livelocks"] += 1 if out.get("livelock") else 0
            hist["timeouts"] += 1 if out["outcome"] != "ok" else 0
            ctx.count(("c03sim", plan["seed"], plan["idx"]), nontrivial=nd >= 5 and ns >= 1)
            ctx.coverage["traces_validated_against_impl"] += 1
            if c0 == 0 and k == 0:
                key = next(iter(out["events"]), None)
                ctx.sample({"trace": "c03 sim", "plan": {k2: plan[k2] for k2 in ("nodes", "nparts", "reset", "isolation", "faults")},
                            "events_head": ["~".join(e) for e in (out["events"].get(key) or [])[:12]],
                            "observations_head": (out["obs03"].get(0) or [])[:20]})
    ctx.coverage["sim_c03"] = hist
    return clean


def replay(ctx, env, cases, prop, guarded=True):
    ok = True
    sims = [c for c in cases if c.get("kind") in ("c03", "c03tie", "c03sub")]
    if sims:
        ok = run_c03(ctx, env, sims, guarded) and ok
    return ok


# ------------------------------------------------------------------------------------ C13 workload
C13_LOG = "10:15:0:10.11.12.13.14|15:20:0:15.16.17.18.19|20:25:0:20.21.22.23.24"
C13_OPEN = "25:30:0:25.26.27.28.29"          # data of a transaction that is still open: LSO = 25, HW = 30
C13_COMMITTED = {"absent": None, "inside": 17, "below": 4, "beyond": 50, "zero": 0}
C13_LOG_FROM_ZERO = "0:5:0:0.1.2.3.4|5:10:0:5.6.7.8.9"   # prepended for the "zero" configuration (log start 0)
POLICY = {"earliest": -2, "latest": -1, "none": None}


def c13_configs():
    out = []
    for group in (True, False):
        for committed in (("absent", "inside", "below", "beyond", "zero") if group else ("absent",)):
            for policy in ("earliest", "latest", "none"):
                for iso in ("read_uncommitted", "read_committed"):
                    out.append({"group": group, "committed": committed, "policy": policy, "isolation": iso})
    return out


def c13_prepare(cluster, truth, plan):
    tp = ("t", 0)
    zero = plan["committed"] == "zero"
    for ab in parse_log((C13_LOG_FROM_ZERO + "|" if zero else "") + C13_LOG, "v2"):
        truth.add(tp, ab)
        inject(cluster, tp, ab)
    for ab in parse_log(C13_OPEN, "v2"):
        truth.add(tp, ab)
        inject(cluster, tp, ab, open_txn=True)
    cluster.log(tp).log_start = 0 if zero else 10
    v = C13_COMMITTED[plan["committed"]]
    if plan["group"] and v is not None:
        cluster._group_obj("g").committed[tp] = (v, "")


async def c13_main(env, cluster, probe, truth, plan, out):
    S = sim()
    tp = env.TP("t", 0)
    c = env.consumer.AIOKafkaConsumer(
        bootstrap_servers=",".join(f"b{i}:9092" for i in range(plan["nodes"])), client_id="c",
        group_id="g" if plan["group"] else None, auto_offset_reset=plan["policy"], enable_auto_commit=False,
        fetch_max_wait_ms=50, request_timeout_ms=1000, retry_backoff_ms=50, metadata_max_age_ms=3000,
        isolation_level=plan["isolation"], session_timeout_ms=6000, heartbeat_interval_ms=500)
    await c.start()
    probe.wrap_client(c._client)
    for f in plan.get("faults", []):
        cluster.faults.add(S.Fault(f["kind"], api=f["api"], nth=f.get("nth", 0), count=f.get("count", 1),
                                   code=f.get("code"), seconds=f.get("seconds")))
    # the tick counter: every event the simulated cluster records from now on
    ticks = {"n": 0}
    orig_ev = cluster._ev
    seek = plan.get("seek")

    def do_seek():
        try:
            if seek["to"] == "beginning":
                out["tasks"].append(asyncio.ensure_future(c.seek_to_beginning(tp)))
            elif seek["to"] == "end":
                out["tasks"].append(asyncio.ensure_future(c.seek_to_end(tp)))
            else:
                c.seek(tp, seek["to"])
            out["seek_done_at"] = ticks["n"]
        except Exception as ex:  # noqa  (not assigned yet, …)
            out["notes"].append(f"seek failed: {type(ex).__name__}")

    def ev(ev_name, **kw):
        orig_ev(ev_name, **kw)
        ticks["n"] += 1
        if seek is not None and ticks["n"] == seek["at"]:
            asyncio.get_event_loop().call_soon(do_seek)

    cluster._ev = ev
    out["tasks"] = []
    orig_o13 = probe.o13

    def o13(tp_, text):
        orig_o13(tp_, text)
        if text[0] in "ve":
            out["ticks_settled"] = ticks["n"]

    probe.o13 = o13
    if plan.get("subscribe"):
        c.subscribe(["t"])
    else:
        c.assign([tp])
    if seek is not None and seek["at"] == 0:
        do_seek()
    E = env.errors
    first = None
    for _ in range(3):
        try:
            m = await asyncio.wait_for(c.getone(), plan.get("wait", 1.5))
            first = m.offset
            # the log is dense: the first record delivered sits exactly at the start position
            probe.o13(tp, f"p{first}")
            break
        except asyncio.TimeoutError:
            break
        except (E.NoOffsetForPartitionError, E.OffsetOutOfRangeError) as ex:
            probe.o13(tp, f"e{cc.exc_code(ex)}")
            out["api_errors"].append(type(ex).__name__)
            if seek is None or "seek_done_at" in out:
                break
    out["first"] = first
    if out.get("ticks_done") is None:
        out["ticks_done"] = ticks["n"]
    for t in out["tasks"]:
        try:
            await asyncio.wait_for(t, 5)
        except Exception:  # noqa
            pass
    asg = c._subscription.subscription.assignment
    st = asg.state_value(tp) if asg is not None else None
    if first is not None:
        out["final_position"] = first
    elif st is not None and st.has_valid_position:
        v = await c.position(tp)
        probe.o13(tp, f"p{v}")
        out["final_position"] = v
    else:
        out["final_position"] = None
    cluster._ev = orig_ev
    probe.final()
    await safe_stop(c, out)
    out["tasks"] = []


def c13_trace(env, plan):
    plan = dict(plan)
    plan.setdefault("nodes", 1)
    plan.setdefault("nparts", 1)
    plan["trace"] = True
    return run_sim(env, plan, c13_main, c13_prepare, max_vt=200.0)


def c13_expected(plan):
    """independent statement of where consumption must start (no seek): (position | None, error | None)"""
    lo, hw, lso = (0 if plan["committed"] == "zero" else 10), 30, 25
    end = lso if plan["isolation"] == "read_committed" else hw
    pol = plan["policy"]
    by_policy = {"earliest": (lo, None), "latest": (end, None)}
    c = C13_COMMITTED[plan["committed"]] if plan["group"] else None
    if c is None:
        return by_policy.get(pol, (None, 2))
    if lo <= c <= hw:
        return (c, None)
    return by_policy.get(pol, (None, 1))


# ------------------------------------------------------------------------------------ C13: staggered lookups
LAG_COMMITTED = {0: 5, 1: 7}
LAG_LOG = "0:5:0:0.1.2.3.4|5:10:0:5.6.7.8.9|10:15:0:10.11.12.13.14"


def c13lag_plans(thorough=False):
    """A group consumer with two partitions led by different brokers whose committed-offset lookups
    are requested at different moments: the leader of one partition is unknown at assignment (-1)
    and becomes known later, while the OffsetFetch of the first partition is still in flight (its
    reply is delayed).  `lead` is when the leader appears: absolute (seconds after assignment) on a
    grid across the in-flight window, or relative to the instant the delayed OffsetFetch reply
    reaches the client (exact-tie sweep, 1 ms steps).  Required: both partitions start at their
    committed offsets (5 and 7) within a bounded virtual time."""
    plans = []
    idx = 0
    for late in (1, 0):
        for delay in ((0.4, 0.9, 2.0) if thorough else (0.9,)):
            step = 0.05 if thorough else 0.15
            grid = [round(0.03 + k * step, 3) for k in range(int((delay + 0.5) / step) + 1)]
            leads = [["abs", t] for t in grid] + [["rel", -j / 1000.0] for j in (range(-2, 14) if thorough else range(0, 10, 2))]
            for lead in leads:
                plans.append({"kind": "c13lag", "seed": 9000 + idx, "nodes": 2, "nparts": 2, "late": late,
                              "delay": delay, "lead": lead, "policy": "earliest", "bound": 15.0})
                idx += 1
    return plans


def c13lag_prepare(cluster, truth, plan):
    for p in range(2):
        for ab in parse_log(LAG_LOG, "v2"):
            truth.add(("t", p), ab)
            inject(cluster, ("t", p), ab)
        cluster._group_obj("g").committed[("t", p)] = (LAG_COMMITTED[p], "")
    cluster.set_leader(("t", plan["late"]), -1)


async def c13lag_main(env, cluster, probe, truth, plan, out):
    S = sim()
    tps = [env.TP("t", 0), env.TP("t", 1)]
    c = env.consumer.AIOKafkaConsumer(
        bootstrap_servers="b0:9092,b1:9092", client_id="c", group_id="g", auto_offset_reset=plan["policy"],
        enable_auto_commit=False, fetch_max_wait_ms=50, request_timeout_ms=5000, retry_backoff_ms=50,
        metadata_max_age_ms=3000, session_timeout_ms=6000, heartbeat_interval_ms=500)
    await c.start()
    probe.wrap_client(c._client)
    cluster.faults.add(S.Fault("delay", api="OffsetFetch", nth=0, seconds=plan["delay"]))
    loop = asyncio.get_event_loop()
    late = plan["late"]

    def appear():
        cluster.set_leader(("t", late), late)
        out["leader_known_at"] = round(cluster.now() - t0, 6)

    mode, val = plan["lead"]
    if mode == "rel":
        orig = cluster._h_offset_fetch
        seen = {"n": 0}

        def h_offset_fetch(rq):
            seen["n"] += 1
            if seen["n"] == 1:
                # the delayed reply reaches the client at arrival + delay + one-way latency
                loop.sim_call_at(max(cluster.now() + plan["delay"] + cluster.base_latency + val, cluster.now()), appear)
            return orig(rq)

        cluster._handlers[9] = h_offset_fetch
    t0 = cluster.now()
    c.assign(tps)
    if mode == "abs":
        loop.sim_call_at(t0 + val, appear)
    deadline = cluster.now() + plan["bound"]
    asg = c._subscription.subscription.assignment
    while cluster.now() < deadline:
        if all(asg.state_value(tp).has_valid_position for tp in tps):
            break
        await asyncio.sleep(0.05)
    out["positions"] = {}
    for tp in tps:
        st = asg.state_value(tp)
        out["positions"][tp.partition] = st._position
        if st.has_valid_position:
            v = await c.position(tp)
            probe.o13(tp, f"p{v}")
    out["settled_after"] = round(cluster.now() - t0, 3)
    probe.final()
    await safe_stop(c, out)


def c13lag_trace(env, plan):
    return run_sim(env, plan, c13lag_main, c13lag_prepare, max_vt=200.0)


# ------------------------------------------------------------------------------------ C13: assignment replaced
RE_LOG = "0:5:0:0.1.2.3.4|5:10:0:5.6.7.8.9"


def c13re_plans(thorough=False):
    """A consumer WITHOUT group_id whose assignment is replaced after the first one has been
    positioned: `assign()` again with another / a larger / the same set of partitions, or a
    subscribed topic that grows (metadata change → all partitions re-assigned).  Every partition of
    every new assignment must get its start position (log start / log end / NoOffsetForPartition)
    within a bounded virtual time and deliver."""
    plans = []
    idx = 0
    assign_steps = [[[0], [1]], [[0], [0, 1], [0, 1, 2]], [[0, 1], [0, 1], [2]]]
    if thorough:
        assign_steps += [[[0], [0], [0]], [[2], [1], [0]], [[0, 1, 2], [1], [0, 1, 2]]]
    for policy in ("earliest", "latest", "none"):
        for steps in assign_steps:
            plans.append({"kind": "c13re", "seed": 9500 + idx, "nodes": 2, "nparts": 3, "mode": "assign", "steps": steps,
                          "policy": policy, "bound": 10.0})
            idx += 1
        for steps in ([[1, 2, 3], [2, 3]] if thorough else [[1, 2, 3]]):
            plans.append({"kind": "c13re", "seed": 9500 + idx, "nodes": 2, "nparts": steps[0], "mode": "subscribe", "steps": steps,
                          "policy": policy, "bound": 10.0})
            idx += 1
    return plans


def c13re_prepare(cluster, truth, plan):
    for p in range(plan["nparts"]):
        for ab in parse_log(RE_LOG, "v2"):
            truth.add(("t", p), ab)
            inject(cluster, ("t", p), ab)


async def c13re_main(env, cluster, probe, truth, plan, out):
    E = env.errors
    policy, bound = plan["policy"], plan["bound"]
    c = env.consumer.AIOKafkaConsumer(
        bootstrap_servers="b0:9092,b1:9092", client_id="c", auto_offset_reset=policy, enable_auto_commit=False,
        fetch_max_wait_ms=50, request_timeout_ms=3000, retry_backoff_ms=50, metadata_max_age_ms=500)
    # the client is wrapped before start(): with subscribe() the first assignment and its first fetch
    # happen inside / right after start(), and the probe must see that fetch answer too
    probe.wrap_client(c._client)
    if plan["mode"] == "subscribe":
        c.subscribe(["t"])
    await c.start()
    out["failures"] = []
    out["steps_done"] = 0

    def fail(k, p, why, **kw):
        asg = c._subscription.subscription.assignment if c._subscription.subscription is not None else None
        st = asg.state_value(env.TP("t", p)) if asg is not None else None
        out["failures"].append({"step": k, "partition": p, "why": why, "position": getattr(st, "_position", None),
                                "pending_reset": getattr(st, "_reset_strategy", None), **kw})

    async def check(k, parts):
        asg = c._subscription.subscription.assignment
        for p in parts:
            tp = env.TP("t", p)
            log = cluster.log(("t", p))
            if policy == "earliest":
                try:
                    m = await asyncio.wait_for(c.getone(tp), bound)
                except asyncio.TimeoutError:
                    fail(k, p, "nothing delivered")
                    continue
                probe.o13(tp, f"p{m.offset}")
                if m.offset != log.log_start:
                    fail(k, p, "first record is not the log start", first=m.offset)
            elif policy == "latest":
                deadline = cluster.now() + bound
                st = asg.state_value(tp)
                while cluster.now() < deadline and not st.has_valid_position:
                    await asyncio.sleep(0.05)
                if not st.has_valid_position:
                    fail(k, p, "no position")
                    continue
                probe.o13(tp, f"p{st.position}")
                end = log.leo
                if st.position != end:
                    fail(k, p, "position is not the log end", log_end=end)
                    continue
                ab = cc.AB(end, end + 1, False, [end], "v2")
                ab.raw = cc.encode_batch(ab)
                truth.add(("t", p), ab)
                inject(cluster, ("t", p), ab)
                try:
                    m = await asyncio.wait_for(c.getone(tp), bound)
                    if m.offset != end:
                        fail(k, p, "record appended at the log end is not the next one delivered", first=m.offset)
                except asyncio.TimeoutError:
                    fail(k, p, "record appended after the reset is not delivered")
            else:
                try:
                    m = await asyncio.wait_for(c.getone(tp), bound)
                    fail(k, p, "a record was delivered although nothing is committed and the policy is none", first=m.offset)
                except asyncio.TimeoutError:
                    fail(k, p, "NoOffsetForPartitionError did not reach the caller")
                except E.NoOffsetForPartitionError:
                    probe.o13(tp, "e2")

    for k, step in enumerate(plan["steps"]):
        if plan["mode"] == "assign":
            parts = list(step)
            c.assign([env.TP("t", p) for p in parts])
        else:
            if k > 0:
                have = cluster.topics["t"]
                cluster.add_partitions("t", step)
                for p in range(have, step):
                    for ab in parse_log(RE_LOG, "v2"):
                        truth.add(("t", p), ab)
                        inject(cluster, ("t", p), ab)
            parts = list(range(step))
            want = {env.TP("t", p) for p in parts}
            deadline = cluster.now() + bound
            while cluster.now() < deadline and c.assignment() != want:
                await asyncio.sleep(0.05)
            if c.assignment() != want:
                out["failures"].append({"step": k, "why": "the grown topic was not re-assigned", "assignment":
                                        sorted(tp.partition for tp in c.assignment())})
                break
        await check(k, parts)
        out["steps_done"] = k + 1
        if out["failures"]:
            break
    probe.final()
    await safe_stop(c, out)


def c13re_trace(env, plan):
    return run_sim(env, plan, c13re_main, c13re_prepare, max_vt=300.0)
